// C01: every neighbour's view converges to export(Loc-RIB); no withdrawal is lost.
//
// Explicit-state BFS over the REAL pipeline with a LIVE observing session:
//   TableManager::{insert_route, remove_route, unregister_peer, ...}
//     -> per-shard peer channel -> PeerSession::run (run_select:
//        handle_prefix_update -> process_nlri_change -> ExportMap/PendingTx,
//        flush_tx -> PeerCodec::encode_to) -> loopback TCP
//     -> the harness (the neighbour) decodes the bytes into a mirror Adj-RIB-In.
// RIB changes by the source peers are direct TableManager calls (producers are
// serialised: shard locks make them atomic and they commute across shards).
// Delivery/flush interleavings are controlled through an explicit `sync` op:
// between two syncs the session task does not run (current-thread runtime), so
// several RIB changes queue up and are delivered together before one flush;
// with a sync after every change each is delivered and flushed on its own.
// Oracle at every sync: the mirror equals the mirror of a BRAND-NEW session
// with identical parameters brought up on the same daemon (its on_established
// dump), and every mirrored prefix still has a path in the RIB.

use super::super::*;
use super::common::*;
use crate::verif::vx::bfs::{self, BfsCfg, Model};
use crate::verif::vx::report::Report;
use std::collections::{BTreeMap, BTreeSet};
use std::net::{IpAddr, Ipv4Addr};

const OBS: IpAddr = IpAddr::V4(Ipv4Addr::new(127, 0, 1, 1));
const OBS2: IpAddr = IpAddr::V4(Ipv4Addr::new(127, 0, 1, 2));
const F: Family = Family::IPV4;

#[derive(Clone, Debug, PartialEq)]
pub(crate) enum ObsRole {
    Ebgp,
    Ibgp,
    RrClient,
    RsClient,
    /// a neighbour in another Member-AS of the local confederation (RFC 5065)
    Confed,
}

#[derive(Clone, Debug)]
enum Op {
    Announce { src: u8, pfx: u8, attr: u8, nh: u8 },
    Withdraw { src: u8, pfx: u8 },
    /// source session ends without GR (unregister_peer with drop families)
    PeerDown { src: u8 },
    Nh { nh: u8, up: bool },
    /// source session ends with GR: its routes stay, marked stale
    PeerDownStale { src: u8 },
    /// LLGR period starts for the (down) source
    MarkLlgr { src: u8 },
    DropStale { src: u8 },
    SoftResetOut,
    /// soft_reset_out whose event the session task takes off its channel but does not handle
    /// before the next sync: the refresh then walks a RIB that is AHEAD of the changes queued behind it
    SoftResetOutQueued,
    /// from now until the next sync the session task handles no peer event (it parks at the event
    /// gate with the first one in hand): everything queues up behind it in the channel
    HoldEvents,
    /// the daemon is a restarting speaker: selection deferral starts before the first route (RFC 4724 §4.1)
    StartDeferral,
    EndDeferral,
    RouteRefresh,
    /// toggle the global export policy (none <-> reject prefix P2) without telling anybody
    PolicySwap,
    /// (late-observer packs) the neighbour's session comes up now and is held right after
    /// on_established(): the initial dump is buffered, the peer channel registered, nothing
    /// flushed; RIB changes until the next sync are delivered BEFORE the first flush
    ConnectHeld,
    Sync,
}

fn op_name(o: &Op) -> String {
    let s = |x: &u8| ["A", "B", "L", "O(the neighbour itself)"][*x as usize];
    match o {
        Op::Announce { src, pfx, attr, nh } => format!("announce({},P{},{},N{})", s(src), pfx + 1, ["X", "Y"][*attr as usize], nh + 1),
        Op::Withdraw { src, pfx } => format!("withdraw({},P{})", s(src), pfx + 1),
        Op::PeerDown { src } => format!("peer_down({})", s(src)),
        Op::Nh { nh, up } => format!("nexthop(N{},{})", nh + 1, if *up { "up" } else { "down" }),
        Op::PeerDownStale { src } => format!("peer_down_gr({})", s(src)),
        Op::MarkLlgr { src } => format!("llgr_period_starts({})", s(src)),
        Op::DropStale { src } => format!("stale_purge({})", s(src)),
        Op::SoftResetOut => "soft_reset_out".into(),
        Op::SoftResetOutQueued => "soft_reset_out(handled only at the next sync)".into(),
        Op::HoldEvents => "session_stops_handling_events(until the next sync)".into(),
        Op::StartDeferral => "selection_deferral_starts".into(),
        Op::EndDeferral => "selection_deferral_ends".into(),
        Op::RouteRefresh => "route_refresh(from neighbour)".into(),
        Op::PolicySwap => "export_policy_swap".into(),
        Op::ConnectHeld => "neighbour_session_established(held before its first flush)".into(),
        Op::Sync => "sync".into(),
    }
}

pub(crate) struct PipeModel {
    name: String,
    role: ObsRole,
    send_max: usize,
    shards: usize,
    /// prefixes: index -> NLRI (P1..P3 on one shard when shards > 1)
    ops: Vec<Op>,
    nets: Vec<packet::Nlri>,
    /// which export policy the policy-swap op installs: false = reject LOCAL_PREF 100, true = set MED 77
    policy_sets_med: bool,
    /// the observing session is not up initially; it is brought up by the ConnectHeld op
    late: bool,
}

type Mirror = BTreeMap<(String, u32), (String, Option<IpAddr>)>;

/// Everything a RIB-affecting op depends on besides the tables; kept separately so that the
/// same op list can be replayed on a replica daemon.
pub(crate) struct RibState {
    src_epoch: [u32; 2],
    srcs: [Arc<table::Source>; 2],
    obs_src: Arc<table::Source>,
    nh_down: BTreeSet<u8>,
    src_down: [bool; 2],
    policy: Arc<table::PolicyAssignment>,
    policy_on: bool,
    deferring: bool,
    touched: bool,
    ever_deferred: bool,
}

pub(crate) struct Sys {
    rt: tokio::runtime::Runtime,
    d: Daemon,
    conn: Option<Conn>,
    mirror: Mirror,
    st: RibState,
    /// RIB-affecting ops applied so far (replayed on the replica at every sync)
    log: Vec<Op>,
    /// the export policy changed and no soft reset / route refresh has been requested since
    policy_pending_reset: bool,
    dirty: bool,
    /// kinds of the ops applied since the last sync (shape class of a violation found at the next sync)
    since_sync: BTreeSet<&'static str>,
    /// the ops applied since the last sync, in order: they determine what sits in the session's
    /// peer channel / pending queues (and, for a held session, in its buffered initial dump)
    unsynced: Vec<String>,
    /// a second listener on the TableManager's change stream: what it receives between two
    /// syncs is exactly what queues up in the observing session's peer channel
    tap: mpsc::UnboundedReceiver<ToPeerEvent>,
    broken: BTreeSet<String>,
    dead: bool,
    /// the session task is parked at the event gate (a queued soft_reset_out)
    ev_held: bool,
}

impl Drop for Sys {
    fn drop(&mut self) {
        // a session still held at the gate dies with the runtime; its gate entry must not
        // outlive the daemon (the key is the TableManager's address, which can be re-used)
        crate::verif::gate::forget(Arc::as_ptr(&self.d.tables) as usize, OBS);
        crate::verif::gate::forget(Arc::as_ptr(&self.d.tables) as usize + crate::verif::gate::EVENTS, OBS);
    }
}

fn nh(i: u8) -> bgp::Nexthop {
    bgp::Nexthop::V4(Ipv4Addr::new(192, 0, 2, 1 + i))
}

fn attrs(i: u8, asn: u32) -> Arc<Vec<packet::Attribute>> {
    let mut path = vec![2u8, 1];
    path.extend_from_slice(&asn.to_be_bytes());
    let as_path = if asn == 0 { packet::Attribute::empty_as_path() } else { packet::Attribute::new_with_bin(packet::Attribute::AS_PATH, path).unwrap() };
    let mut v = vec![packet::Attribute::new_with_value(packet::Attribute::ORIGIN, 0).unwrap(), as_path];
    // X is better than Y (LOCAL_PREF / MED both present so that every receiver role sees a difference)
    v.push(packet::Attribute::new_with_value(packet::Attribute::LOCAL_PREF, if i == 0 { 200 } else { 100 }).unwrap());
    v.push(packet::Attribute::new_with_bin(packet::Attribute::COMMUNITY, (0xfde8_0000u32 + i as u32).to_be_bytes().to_vec()).unwrap());
    Arc::new(v)
}

impl PipeModel {
    fn src_role(&self, s: u8) -> table::PeerRole {
        match (&self.role, s) {
            (ObsRole::RsClient, _) => table::PeerRole::RsClient,
            (_, 0) => table::PeerRole::Ebgp,
            _ => table::PeerRole::Ibgp,
        }
    }
    fn mk_src(&self, s: u8) -> Arc<table::Source> {
        let role = self.src_role(s);
        let asn = if matches!(role, table::PeerRole::Ibgp) { 65000 } else { 65010 + s as u32 };
        Arc::new(table::Source::new(IpAddr::V4(Ipv4Addr::new(10, 1, 0, 1 + s)), IpAddr::V4(Ipv4Addr::new(10, 1, 0, 254)), asn, 65000, Ipv4Addr::new(10, 1, 0, 1 + s), role))
    }
    fn peer_params(&self, addr: IpAddr) -> PeerParams {
        let mut p = default_peer_params(addr);
        p.passive = true;
        p.holdtime = 90;
        match self.role {
            ObsRole::Ebgp => p.expected_remote_asn = 65100,
            ObsRole::Confed => p.expected_remote_asn = 65101,
            ObsRole::RsClient => {
                p.expected_remote_asn = 65100;
                p.rs_client = true;
            }
            ObsRole::Ibgp => {
                p.expected_remote_asn = 65000;
                p.local_asn = 65000;
            }
            ObsRole::RrClient => {
                p.expected_remote_asn = 65000;
                p.local_asn = 65000;
                p.route_reflector = RouteReflectorConfig { route_reflector_client: true, route_reflector_cluster_id: None };
            }
        }
        p.families = [(F, if self.send_max > 1 { 2u8 } else { 0u8 })].into_iter().collect();
        if self.send_max > 1 {
            p.send_max.insert(F, self.send_max);
        }
        p
    }
    fn peer_asn(&self) -> u32 {
        match self.role {
            ObsRole::Ebgp | ObsRole::RsClient => 65100,
            ObsRole::Confed => 65101,
            _ => 65000,
        }
    }
    /// the confederation the daemon is a member of (Confed observer only)
    fn set_confederation(&self, g: &mut Global) {
        if self.role == ObsRole::Confed {
            g.confederation = Some(ConfederationConfig { id: 64999, members: [65000u32, 65101].into_iter().collect() });
        }
    }
    fn peer_caps(&self) -> Vec<packet::Capability> {
        let mut c = vec![packet::Capability::MultiProtocol(F), packet::Capability::FourOctetAsNumber(self.peer_asn())];
        if self.send_max > 1 {
            c.push(packet::Capability::AddPath(vec![(F, 1)]));
        }
        c
    }

    fn rib_state(&self) -> RibState {
        RibState {
            src_epoch: [0, 0],
            srcs: [self.mk_src(0), self.mk_src(1)],
            // a route learned from the observing neighbour itself (echo filter)
            obs_src: Arc::new(table::Source::new(OBS, IpAddr::V4(Ipv4Addr::new(127, 0, 0, 1)), self.peer_asn(), 65000, Ipv4Addr::new(10, 10, 10, 10), match self.role {
                ObsRole::Ebgp => table::PeerRole::Ebgp,
                ObsRole::Confed => table::PeerRole::ConfedEbgp,
                ObsRole::RsClient => table::PeerRole::RsClient,
                ObsRole::Ibgp => table::PeerRole::Ibgp,
                ObsRole::RrClient => table::PeerRole::IbgpRrClient,
            })),
            nh_down: BTreeSet::new(),
            src_down: [false, false],
            policy: if self.policy_sets_med { set_med_export() } else { reject_lp100_export() },
            policy_on: false,
            deferring: false,
            touched: false,
            ever_deferred: false,
        }
    }

    /// Apply one RIB-affecting op; false = not enabled in this state.
    fn rib_apply(&self, tables: &TableHandle, st: &mut RibState, o: &Op) -> bool {
        let src = |st: &RibState, s: u8| -> Arc<table::Source> {
            match s {
                0 | 1 => st.srcs[s as usize].clone(),
                2 => table::Source::local(),
                _ => st.obs_src.clone(),
            }
        };
        match o {
            Op::Announce { src: s, pfx, attr, nh: n } => {
                if *s < 2 && st.src_down[*s as usize] {
                    return false;
                }
                let source = src(st, *s);
                let asn = if source.is_local() { 0 } else { source.remote_asn };
                let a = if matches!(source.role, table::PeerRole::Ibgp | table::PeerRole::IbgpRrClient) && !source.is_local() { attrs(*attr, 65050) } else { attrs(*attr, asn) };
                tables.insert_route(source, F, packet::PathNlri::new(self.nets[*pfx as usize].clone()), Some(nh(*n)), a, None, 0);
            }
            Op::Withdraw { src: s, pfx } => {
                if *s < 2 && st.src_down[*s as usize] {
                    return false;
                }
                tables.remove_route(src(st, *s), F, packet::PathNlri::new(self.nets[*pfx as usize].clone()), None, 0);
            }
            Op::PeerDown { src: s } => {
                if *s > 1 || st.src_epoch[*s as usize] >= 2 || st.src_down[*s as usize] {
                    return false;
                }
                tables.unregister_peer(st.srcs[*s as usize].remote_addr, &[F], &[]);
                st.src_epoch[*s as usize] += 1;
                st.srcs[*s as usize] = self.mk_src(*s);
            }
            Op::PeerDownStale { src: s } => {
                if st.src_down[*s as usize] || st.src_epoch[*s as usize] >= 2 {
                    return false;
                }
                tables.unregister_peer(st.srcs[*s as usize].remote_addr, &[], &[F]);
                st.src_down[*s as usize] = true;
            }
            Op::MarkLlgr { src: s } => {
                if !st.src_down[*s as usize] {
                    return false;
                }
                tables.mark_llgr_stale(st.srcs[*s as usize].remote_addr, &[F]);
            }
            Op::DropStale { src: s } => {
                if !st.src_down[*s as usize] {
                    return false;
                }
                // restart timer expiry while down: everything of the peer goes; the next session is a new Source
                tables.drop_families(st.srcs[*s as usize].remote_addr, &[F]);
                st.src_down[*s as usize] = false;
                st.src_epoch[*s as usize] += 1;
                st.srcs[*s as usize] = self.mk_src(*s);
            }
            Op::Nh { nh: n, up } => {
                if *up != st.nh_down.contains(n) {
                    return false;
                }
                if *up {
                    st.nh_down.remove(n);
                } else {
                    st.nh_down.insert(*n);
                }
                tables.update_nexthop_validity(nh(*n).addr(), *up);
            }
            Op::PolicySwap => {
                st.policy_on = !st.policy_on;
                tables.export_policy.store(if st.policy_on { Some(st.policy.clone()) } else { None });
            }
            Op::StartDeferral => {
                // at start-up only: before the family's RIB has been touched
                if st.touched || st.deferring {
                    return false;
                }
                tables.start_deferral_families(&[F]);
                st.deferring = true;
                st.ever_deferred = true;
            }
            Op::EndDeferral => {
                if !st.deferring {
                    return false;
                }
                tables.end_deferral_families(&[F]);
                st.deferring = false;
            }
            _ => {}
        }
        st.touched = true;
        true
    }

    /// Read everything the daemon has sent so far and apply it to `mirror`.
    async fn drain(conn: &mut Conn, mirror: &mut Mirror) -> Result<(), String> {
        // two barriers: the first KEEPALIVE is counted before the flush of the same
        // select iteration has finished, the second one only after it
        if !(conn.barrier().await && conn.barrier().await) {
            return Err("session ended during sync".into());
        }
        loop {
            // parse what is buffered, then poll the socket without blocking
            loop {
                match conn.codec.try_parse(&mut conn.rx) {
                    Ok(Some(m)) => apply(mirror, m),
                    Ok(None) => break,
                    Err(e) => return Err(format!("the neighbour cannot parse what the daemon sent: {e:?}")),
                }
            }
            let Some(stream) = conn.stream.as_mut() else { return Err("no stream".into()) };
            let mut buf = [0u8; 8192];
            match stream.try_read(&mut buf) {
                Ok(0) => return Err("daemon closed the session".into()),
                Ok(n) => conn.rx.extend_from_slice(&buf[..n]),
                Err(e) if e.kind() == std::io::ErrorKind::WouldBlock => return Ok(()),
                Err(e) => return Err(format!("read: {e}")),
            }
        }
    }
}

/// Export policy used by the policy-swap op: reject every route whose LOCAL_PREF is 100 (attribute set Y).
fn reject_lp100_export() -> Arc<table::PolicyAssignment> {
    let mut pt = table::PolicyTable::new();
    pt.add_statement("s", vec![table::ConditionConfig::LocalPrefEq(100)], Some(table::Disposition::Reject), table::Actions::default()).unwrap();
    pt.add_policy("p", vec!["s".to_string()]).unwrap();
    pt.build_assignment(None, "global", table::PolicyDirection::Export, table::Disposition::Accept, vec!["p".to_string()]).unwrap()
}

/// Export policy that rewrites an attribute of every route (MED := 77).
fn set_med_export() -> Arc<table::PolicyAssignment> {
    let mut pt = table::PolicyTable::new();
    let actions = table::Actions { med: Some(table::MedAction { action_type: table::MedActionType::Replace, value: 77 }), ..Default::default() };
    pt.add_statement("s", vec![], Some(table::Disposition::Accept), actions).unwrap();
    pt.add_policy("p", vec!["s".to_string()]).unwrap();
    pt.build_assignment(None, "global", table::PolicyDirection::Export, table::Disposition::Accept, vec!["p".to_string()]).unwrap()
}

fn attr_fp(a: &[packet::Attribute]) -> String {
    let mut v: Vec<(u8, String)> = a.iter().map(|x| (x.code(), crate::verif::vx::report::hex(&x.encode_to_bytes()))).collect();
    v.sort();
    v.into_iter().map(|(_, h)| h).collect::<Vec<_>>().join(".")
}

fn apply(mirror: &mut Mirror, m: bgp::ParsedMessage) {
    if let Some(tf) = std::env::var_os("VERIF_TRACE") {
        use std::io::Write;
        let mut tfh = std::fs::OpenOptions::new().create(true).append(true).open(tf).unwrap();
        if let bgp::ParsedMessage::Update(bgp::ParsedUpdate::Routes { reach, mp_reach, unreach, mp_unreach, .. }) = &m {
            let w: Vec<String> = unreach.iter().chain(mp_unreach.iter()).flat_map(|u| u.entries.iter().map(|e| format!("{}#{}", e.nlri, e.path_id))).collect();
            let r: Vec<String> = reach.iter().chain(mp_reach.iter()).flat_map(|u| u.entries.iter().map(|e| format!("{}#{}", e.nlri, e.path_id))).collect();
            let _ = writeln!(tfh, "    [trace] neighbour receives UPDATE withdraw={:?} reach={:?}", w, r);
        } else {
            let _ = writeln!(tfh, "    [trace] non-route message");
        }
    }
    if let bgp::ParsedMessage::Update(bgp::ParsedUpdate::Routes { reach, mp_reach, unreach, mp_unreach, attrs, .. }) = m {
        for u in unreach.into_iter().chain(mp_unreach) {
            for e in u.entries {
                mirror.remove(&(format!("{}", e.nlri), e.path_id));
            }
        }
        for r in reach.into_iter().chain(mp_reach) {
            for e in r.entries {
                mirror.insert((format!("{}", e.nlri), e.path_id), (attr_fp(&attrs), r.nexthop.map(|n| n.addr())));
            }
        }
    }
}

impl Model for PipeModel {
    type Sys = Sys;
    fn name(&self) -> String {
        self.name.clone()
    }
    fn n_ops(&self) -> usize {
        self.ops.len()
    }
    fn op_name(&self, op: usize) -> String {
        op_name(&self.ops[op])
    }

    fn init(&self) -> Sys {
        let rt = runtime();
        let d = Daemon::new(self.shards);
        let p1 = self.peer_params(OBS);
        let late = self.late;
        let conn = rt.block_on(async {
            {
                let mut g = d.global.write().await;
                self.set_confederation(&mut g);
                g.add_peer(p1, None).expect("add_peer");
            }
            if late {
                return None;
            }
            let Ok(Some(mut c)) = connect(&d, OBS, crate::fsm::Role::Passive).await else { return None };
            match c.establish(self.peer_asn(), 0x0a0a0a0a, 90, self.peer_caps()).await {
                Ok(true) => Some(c),
                _ => None,
            }
        });
        let tap = d.tables.register_peer(IpAddr::V4(Ipv4Addr::new(127, 0, 9, 9)), FnvHashSet::default(), |_| {});
        let dead = conn.is_none() && !late;
        if dead {
            machinery("C01: could not establish the observing session".into());
        }
        Sys {
            rt,
            d,
            conn,
            mirror: BTreeMap::new(),
            st: self.rib_state(),
            log: Vec::new(),
            policy_pending_reset: false,
            dirty: false,
            since_sync: BTreeSet::new(),
            unsynced: Vec::new(),
            tap,
            broken: BTreeSet::new(),
            dead,
            ev_held: false,
        }
    }

    fn step(&self, sys: &mut Sys, op: usize, out: &mut Vec<(String, String)>) -> bool {
        if sys.dead {
            return false;
        }
        let o = &self.ops[op];
        let tables = sys.d.tables.clone();
        let kind: &'static str = match o {
            Op::Announce { src: 3, .. } => "announce-by-neighbour",
            Op::Announce { .. } => "announce",
            Op::Withdraw { .. } => "withdraw",
            Op::PeerDown { .. } => "peer_down",
            Op::PeerDownStale { .. } => "peer_down_gr",
            Op::MarkLlgr { .. } => "llgr_start",
            Op::DropStale { .. } => "stale_purge",
            Op::Nh { .. } => "nexthop",
            Op::SoftResetOut | Op::SoftResetOutQueued => "soft_reset_out",
            Op::RouteRefresh => "route_refresh",
            Op::PolicySwap => "policy_swap",
            Op::HoldEvents => "hold_events",
            Op::StartDeferral => "deferral_start",
            Op::EndDeferral => "deferral_end",
            Op::ConnectHeld => "session_up",
            Op::Sync => "sync",
        };
        if kind != "sync" {
            sys.since_sync.insert(kind);
        }

        match o {
            Op::Announce { .. } | Op::Withdraw { .. } | Op::PeerDown { .. } | Op::PeerDownStale { .. } | Op::MarkLlgr { .. } | Op::DropStale { .. } | Op::Nh { .. } | Op::PolicySwap | Op::StartDeferral | Op::EndDeferral => {
                if !self.rib_apply(&tables, &mut sys.st, o) {
                    return false;
                }
                sys.log.push(o.clone());
                sys.dirty = true;
                if matches!(o, Op::PolicySwap) {
                    // a policy change alone is not propagated (the operator issues a soft reset):
                    // the views are compared only after soft_reset_out / ROUTE-REFRESH
                    sys.policy_pending_reset = true;
                }
            }
            Op::ConnectHeld => {
                if sys.conn.is_some() {
                    return false;
                }
                let key = Arc::as_ptr(&sys.d.tables) as usize;
                crate::verif::gate::arm(key, OBS);
                let conn = sys.rt.block_on(async {
                    let Ok(Some(mut c)) = connect(&sys.d, OBS, crate::fsm::Role::Passive).await else { return None };
                    match c.establish(self.peer_asn(), 0x0a0a0a0a, 90, self.peer_caps()).await {
                        Ok(true) => {}
                        _ => return None,
                    }
                    // let the session task run until it is parked at the gate
                    for _ in 0..20000 {
                        if crate::verif::gate::parked(key, OBS) {
                            return Some(c);
                        }
                        tokio::time::sleep(std::time::Duration::from_micros(200)).await;
                    }
                    None
                });
                if conn.is_none() {
                    crate::verif::gate::forget(key, OBS);
                    sys.dead = true;
                    machinery("C01: the late observing session did not reach the gate after on_established".into());
                    return false;
                }
                sys.conn = conn;
                sys.dirty = true;
            }
            Op::SoftResetOut => {
                // a session held at the gate after on_established handles it at the sync
                let held = crate::verif::gate::parked(Arc::as_ptr(&sys.d.tables) as usize, OBS) || sys.ev_held;
                if sys.conn.is_none() {
                    return false;
                }
                tables.soft_reset_out(OBS);
                // handled now, against the RIB as it is now: peer events are served before the
                // socket, so once the KEEPALIVE is counted the refresh has run
                if !held && !sys.rt.block_on(sys.conn.as_mut().unwrap().barrier()) {
                    sys.dead = true;
                    out.push(("C01/observer-session-lost".into(), "soft_reset_out: the session ended".into()));
                    return true;
                }
                sys.policy_pending_reset = false;
                sys.dirty = true;
            }
            Op::HoldEvents => {
                let key = Arc::as_ptr(&sys.d.tables) as usize;
                if sys.conn.is_none() || sys.ev_held || crate::verif::gate::parked(key, OBS) {
                    return false;
                }
                // everything queued so far is handled first (when an event is handled matters where
                // the handler reads the policy or the RIB), then the gate is armed
                if !sys.rt.block_on(sys.conn.as_mut().unwrap().barrier()) {
                    sys.dead = true;
                    out.push(("C01/observer-session-lost".into(), "hold: the session ended".into()));
                    return true;
                }
                crate::verif::gate::arm(key + crate::verif::gate::EVENTS, OBS);
                sys.ev_held = true;
                sys.dirty = true;
            }
            Op::SoftResetOutQueued => {
                let key = Arc::as_ptr(&sys.d.tables) as usize;
                if sys.conn.is_none() || sys.ev_held || crate::verif::gate::parked(key, OBS) {
                    return false;
                }
                crate::verif::gate::arm(key + crate::verif::gate::EVENTS, OBS);
                tables.soft_reset_out(OBS);
                let parked = sys.rt.block_on(async {
                    for _ in 0..20000 {
                        if crate::verif::gate::parked(key + crate::verif::gate::EVENTS, OBS) {
                            return true;
                        }
                        tokio::time::sleep(std::time::Duration::from_micros(200)).await;
                    }
                    false
                });
                if !parked {
                    crate::verif::gate::forget(key + crate::verif::gate::EVENTS, OBS);
                    sys.dead = true;
                    machinery("C01: the session task did not reach the event gate".into());
                    return false;
                }
                sys.ev_held = true;
                sys.policy_pending_reset = false;
                sys.dirty = true;
            }
            Op::RouteRefresh => {
                // (while peer events are held the socket is still served until the first event arrives:
                // when a ROUTE-REFRESH would be handled is then not a harness choice - not offered)
                if sys.conn.is_none() || sys.ev_held || crate::verif::gate::parked(Arc::as_ptr(&sys.d.tables) as usize, OBS) {
                    return false;
                }
                let conn = sys.conn.as_mut().unwrap();
                let ok = sys.rt.block_on(conn.send(&bgp::Message::RouteRefresh { family: F }));
                if !ok {
                    sys.dead = true;
                    machinery("C01: could not send ROUTE-REFRESH".into());
                    return false;
                }
                // handled now (the KEEPALIVE behind it has been counted), not at some point during the following ops
                if !sys.ev_held && !sys.rt.block_on(conn.barrier()) {
                    sys.dead = true;
                    out.push(("C01/observer-session-lost".into(), "ROUTE-REFRESH: the session ended".into()));
                    return true;
                }
                sys.policy_pending_reset = false;
                sys.dirty = true;
            }
            Op::Sync => {
                // while selection is deferred nothing is advertised (C11); views are compared afterwards
                if !sys.dirty || sys.policy_pending_reset || sys.conn.is_none() || sys.st.deferring {
                    return false;
                }
                sys.dirty = false;
                // a held session resumes: what has queued up is delivered before its first flush
                crate::verif::gate::release(Arc::as_ptr(&sys.d.tables) as usize, OBS);
                crate::verif::gate::release(Arc::as_ptr(&sys.d.tables) as usize + crate::verif::gate::EVENTS, OBS);
                sys.ev_held = false;
                let mut cur: Vec<(String, String)> = Vec::new();
                let conn = sys.conn.as_mut().unwrap();
                let mut mirror = std::mem::take(&mut sys.mirror);
                let r = sys.rt.block_on(Self::drain(conn, &mut mirror));
                sys.mirror = mirror;
                if let Err(e) = r {
                    cur.push(("C01/observer-session-lost".into(), format!("sync: {e}")));
                    sys.dead = true;
                } else {
                    // brand-new session with identical parameters: a replica daemon rebuilt by
                    // replaying the RIB-affecting ops (deterministic, so destination and path ids
                    // coincide), to which the neighbour connects from the SAME address
                    let log = sys.log.clone();
                    let fresh = sys.rt.block_on(async {
                        let d2 = Daemon::new(self.shards);
                        {
                            let mut g = d2.global.write().await;
                            self.set_confederation(&mut g);
                            g.add_peer(self.peer_params(OBS), None).map_err(|_| "add_peer on replica".to_string())?;
                        }
                        let mut st2 = self.rib_state();
                        for o in &log {
                            if !self.rib_apply(&d2.tables, &mut st2, o) {
                                return Err("replica replay diverged".to_string());
                            }
                        }
                        let mut c = match connect(&d2, OBS, crate::fsm::Role::Passive).await {
                            Ok(Some(c)) => c,
                            Ok(None) => return Err("fresh session refused by accept_connection".to_string()),
                            Err(e) => return Err(format!("fresh session: {e}")),
                        };
                        match c.establish(self.peer_asn(), 0x0a0a0a0a, 90, self.peer_caps()).await {
                            Ok(true) => {}
                            _ => return Err("fresh session did not establish".into()),
                        }
                        let mut m = Mirror::new();
                        Self::drain(&mut c, &mut m).await?;
                        c.wait_end(true).await;
                        Ok(m)
                    });
                    match fresh {
                        Err(e) => {
                            machinery(format!("C01: {e}"));
                            sys.dead = true;
                            return false;
                        }
                        Ok(fresh) => {
                            if fresh != sys.mirror {
                                // classify
                                let mut class = "attributes-or-nexthop-differ";
                                let mut detail = String::new();
                                for (k, v) in &sys.mirror {
                                    match fresh.get(k) {
                                        None => {
                                            class = "stale-route-never-withdrawn";
                                            detail = format!("{:?} is in the neighbour's Adj-RIB-In but a new session would not be sent it", k);
                                            break;
                                        }
                                        Some(f) if f != v => detail = format!("{:?}: neighbour holds {:?}, a new session is sent {:?}", k, v, f),
                                        _ => {}
                                    }
                                }
                                if class != "stale-route-never-withdrawn" {
                                    for k in fresh.keys() {
                                        if !sys.mirror.contains_key(k) {
                                            class = "route-missing";
                                            detail = format!("{:?} would be sent to a new session but the neighbour does not have it", k);
                                            break;
                                        }
                                    }
                                }
                                                // shape class: observer kind + the most specific kind of event since the last sync
                                let trigger = ["deferral_end", "llgr_start", "policy_swap", "announce-by-neighbour", "peer_down_gr", "stale_purge", "nexthop", "peer_down", "route_refresh", "soft_reset_out", "withdraw", "announce"]
                                    .iter()
                                    .find(|k| sys.since_sync.contains(*k))
                                    .copied()
                                    .unwrap_or("none");
                                let shape = format!("{}/after:{}", if self.send_max > 1 { "addpath" } else { "plain" }, trigger);
                                cur.push((format!("C01/view-differs-from-fresh-session/{class}/{shape}"), format!("{detail}; neighbour view {:?}; fresh view {:?}", sys.mirror.keys().collect::<Vec<_>>(), fresh.keys().collect::<Vec<_>>())));
                            }
                            // independent of the dump (a brand-new session goes through the same dump code):
                            // to iBGP-type and route-server neighbours the next hop is the one stored with the
                            // path the route was exported from
                            if !matches!(self.role, ObsRole::Ebgp | ObsRole::Confed) {
                                let loc = sys.d.tables.collect_loc_rib_paths(F);
                                for ((pfx, pid), (_, nhop)) in sys.mirror.iter() {
                                    let Some(c) = loc.iter().find(|c| format!("{}", c.net) == *pfx) else { continue };
                                    let path = if self.send_max > 1 { c.current_paths.iter().find(|p| p.local_path_id == *pid) } else { None };
                                    let want: Vec<Option<IpAddr>> = match path {
                                        Some(p) => vec![p.nexthop.map(|n| n.addr())],
                                        // without add-path: the path exported is the best one visible to this neighbour
                                        None => c.current_paths.iter().map(|p| p.nexthop.map(|n| n.addr())).collect(),
                                    };
                                    if !want.contains(nhop) {
                                        cur.push((format!("C01/next-hop-not-preserved/{}", if self.send_max > 1 { "addpath" } else { "plain" }), format!("({pfx}, {pid}) is in the neighbour's Adj-RIB-In with next hop {:?}; the RIB's paths for it have {:?} (an iBGP-type / route-server neighbour is sent the stored next hop)", nhop, want)));
                                        break;
                                    }
                                }
                            }
                            // independent of the dump: every mirrored prefix has a path in the RIB
                            let rib: BTreeSet<String> = sys.d.tables.collect_loc_rib_paths(F).iter().map(|c| format!("{}", c.net)).collect();
                            for (k, _) in sys.mirror.iter() {
                                if !rib.contains(&k.0) {
                                    cur.push(("C01/mirrored-prefix-not-in-rib".into(), format!("{:?} is in the neighbour's Adj-RIB-In but the RIB has no eligible path for it", k)));
                                    break;
                                }
                            }
                        }
                    }
                }
                sys.since_sync.clear();
                sys.unsynced.clear();
                let mut now = BTreeSet::new();
                for (sig, what) in cur {
                    let clause = sig.split('/').nth(1).unwrap_or("").to_string();
                    if !sys.broken.contains(&clause) && !now.contains(&clause) {
                        out.push((sig, what));
                    }
                    now.insert(clause);
                }
                sys.broken = now;
            }
        }
        // canonical form of what is queued for the observer: the change events this op produced
        // (an op without effect on the stream leaves the state where it was); ops addressed to the
        // session itself are recorded by name
        let mut produced: Vec<String> = Vec::new();
        while let Ok(ev) = sys.tap.try_recv() {
            if let ToPeerEvent::NlriChange(c) = ev {
                produced.push(format!(
                    "{}#{}:{}{}:{:?}:{:?}",
                    c.net,
                    c.dest_id,
                    c.best_changed as u8,
                    c.any_changed as u8,
                    c.replaced_path_id,
                    c.current_paths.iter().map(|p| (p.local_path_id, p.source.remote_addr, p.nexthop.map(|n| n.addr()), p.source.is_llgr_stale(), bfs::hash128(&p.attr.iter().flat_map(|a| a.encode_to_bytes()).collect::<Vec<u8>>()) as u32)).collect::<Vec<_>>()
                ));
            }
        }
        if !matches!(o, Op::Sync) && sys.conn.is_some() {
            if matches!(o, Op::SoftResetOut | Op::SoftResetOutQueued | Op::RouteRefresh | Op::ConnectHeld | Op::PolicySwap | Op::HoldEvents) {
                if matches!(o, Op::SoftResetOutQueued) {
                    sys.unsynced.push("held".to_string());
                }
                sys.unsynced.push(kind.to_string());
            }
            sys.unsynced.extend(produced);
        }
        if take_machinery().is_some() {
            sys.dead = true;
            return false;
        }
        true
    }

    fn fingerprint(&self, sys: &Sys) -> Vec<u8> {
        let mut rib: Vec<String> = Vec::new();
        for dd in sys.d.tables.collect_paths(table::TableQuery::Global, F, vec![], true) {
            rib.push(format!("{}:{:?}", dd.net, dd.paths.iter().map(|p| (p.source.remote_addr, p.stale, p.source.is_llgr_stale(), bfs::hash128(&p.attr.iter().flat_map(|a| a.encode_to_bytes()).collect::<Vec<u8>>()) as u32)).collect::<Vec<_>>()));
        }
        rib.sort();
        let mut loc: Vec<String> = sys.d.tables.collect_loc_rib_paths(F).iter().map(|c| format!("{}#{}:{:?}", c.net, c.dest_id, c.current_paths.iter().map(|p| (p.local_path_id, p.source.remote_addr, p.nexthop.map(|n| n.addr()))).collect::<Vec<_>>())).collect();
        loc.sort();
        // what is queued for the observer is determined by the ops since the last sync: keep them distinct
        format!("{:?}|{:?}|{:?}|{:?}|{:?}|{}|{}|{:?}|{}|{:?}|{:?}", rib, loc, sys.mirror, sys.st.src_epoch, sys.st.nh_down, sys.st.policy_on, sys.dirty, sys.broken, sys.dead, sys.st.src_down, (sys.policy_pending_reset, sys.conn.is_some(), crate::verif::gate::parked(Arc::as_ptr(&sys.d.tables) as usize, OBS), sys.ev_held, sys.st.deferring, sys.st.touched, sys.st.ever_deferred, &sys.unsynced)).into_bytes()
    }

    fn observe(&self, sys: &Sys) -> u64 {
        sys.mirror.len() as u64
    }

    fn panic_sig(&self, msg: &str) -> Option<(String, String)> {
        if msg.contains("/verif/") {
            machinery(format!("harness panic: {msg}"));
            None
        } else {
            Some((format!("C01/panic/{}", bfs::panic_loc(msg)), format!("the daemon panicked: {msg}")))
        }
    }
}

fn pick_nets(shards: usize) -> Vec<packet::Nlri> {
    // three prefixes that the real dealer hash puts on the SAME shard
    let probe = TableManager::new(shards);
    let mut same = Vec::new();
    let src = Arc::new(table::Source::new(IpAddr::V4(Ipv4Addr::new(10, 1, 0, 9)), IpAddr::V4(Ipv4Addr::new(10, 1, 0, 254)), 65001, 65000, Ipv4Addr::new(10, 1, 0, 9), table::PeerRole::Ebgp));
    for k in 0..60u8 {
        let n = packet::Nlri::V4(packet::bgp::Ipv4Net { addr: Ipv4Addr::new(10, 70, k, 0), mask: 24 });
        probe.insert_route(src.clone(), F, packet::PathNlri::new(n.clone()), Some(nh(0)), attrs(0, 65001), None, 0);
        let in0 = probe.shards[0].lock().unwrap().rtable.iter_reach(F).any(|r| r.net.nlri == n);
        if in0 {
            same.push(n);
        }
        if same.len() == 3 {
            break;
        }
    }
    same
}

fn pick_nets_spread(shards: usize) -> Vec<packet::Nlri> {
    // P1 and P3 on shard 0, P2 on another shard (the real dealer hash decides)
    let probe = TableManager::new(shards);
    let src = Arc::new(table::Source::new(IpAddr::V4(Ipv4Addr::new(10, 1, 0, 9)), IpAddr::V4(Ipv4Addr::new(10, 1, 0, 254)), 65001, 65000, Ipv4Addr::new(10, 1, 0, 9), table::PeerRole::Ebgp));
    let (mut on0, mut other) = (Vec::new(), Vec::new());
    for k in 0..60u8 {
        let n = packet::Nlri::V4(packet::bgp::Ipv4Net { addr: Ipv4Addr::new(10, 70, k, 0), mask: 24 });
        probe.insert_route(src.clone(), F, packet::PathNlri::new(n.clone()), Some(nh(0)), attrs(0, 65001), None, 0);
        if probe.shards[0].lock().unwrap().rtable.iter_reach(F).any(|r| r.net.nlri == n) {
            on0.push(n);
        } else {
            other.push(n);
        }
    }
    vec![on0[0].clone(), other[0].clone(), on0[1].clone()]
}

fn models(thorough: bool) -> Vec<PipeModel> {
    let mk = |name: &str, role: ObsRole, send_max: usize, shards: usize, pack: &str| {
        let nets = if pack == "restart" { pick_nets_spread(shards) } else { pick_nets(shards) };
        let mut ops = Vec::new();
        match pack {
            // destination-id re-use: one source, three prefixes on one shard
            "idreuse" => {
                for pfx in 0..3u8 {
                    ops.push(Op::Announce { src: 0, pfx, attr: 0, nh: 0 });
                    ops.push(Op::Withdraw { src: 0, pfx });
                }
                ops.push(Op::Announce { src: 0, pfx: 0, attr: 1, nh: 0 });
                ops.push(Op::PeerDown { src: 0 });
            }
            // two or three sources on one prefix: best changes, add-path window, split horizon / RS / RR filters
            _ => {
                for s in 0..3u8 {
                    ops.push(Op::Announce { src: s, pfx: 0, attr: 0, nh: 0 });
                    ops.push(Op::Announce { src: s, pfx: 0, attr: 1, nh: if s == 1 { 1 } else { 0 } });
                    ops.push(Op::Withdraw { src: s, pfx: 0 });
                }
                ops.push(Op::Announce { src: 0, pfx: 1, attr: 0, nh: 0 });
                ops.push(Op::Withdraw { src: 0, pfx: 1 });
                ops.push(Op::PeerDown { src: 0 });
                ops.push(Op::Nh { nh: 0, up: false });
                ops.push(Op::Nh { nh: 0, up: true });
                // a route learned from the observing neighbour itself
                ops.push(Op::Announce { src: 3, pfx: 0, attr: 0, nh: 0 });
                ops.push(Op::Withdraw { src: 3, pfx: 0 });
                ops.push(Op::PolicySwap);
            }
        }
        // add-path: a next-hop flap that touches only a non-best path, or only the best one
        if pack == "apnht" {
            ops.clear();
            ops.push(Op::Announce { src: 0, pfx: 0, attr: 0, nh: 0 });
            ops.push(Op::Announce { src: 1, pfx: 0, attr: 1, nh: 1 });
            ops.push(Op::Nh { nh: 0, up: false });
            ops.push(Op::Nh { nh: 0, up: true });
            ops.push(Op::Nh { nh: 1, up: false });
            ops.push(Op::Nh { nh: 1, up: true });
            ops.push(Op::Withdraw { src: 0, pfx: 0 });
            ops.push(Op::Withdraw { src: 1, pfx: 0 });
        }
        // export policy that starts / stops rejecting a path that stays inside the add-path window
        if pack == "appol" {
            ops.clear();
            ops.push(Op::Announce { src: 0, pfx: 0, attr: 0, nh: 0 });
            ops.push(Op::Announce { src: 1, pfx: 0, attr: 1, nh: 1 });
            if thorough {
                ops.push(Op::Announce { src: 1, pfx: 0, attr: 0, nh: 1 });
                ops.push(Op::Withdraw { src: 0, pfx: 0 });
            }
            ops.push(Op::PolicySwap);
        }
        if pack == "late" {
            ops.clear();
            ops.push(Op::Announce { src: 0, pfx: 0, attr: 0, nh: 0 });
            // same attribute set, another next hop: the initial dump groups routes by attributes
            ops.push(Op::Announce { src: 0, pfx: 1, attr: 0, nh: 1 });
            ops.push(Op::Announce { src: 1, pfx: 0, attr: 1, nh: 1 });
            ops.push(Op::Withdraw { src: 0, pfx: 0 });
            ops.push(Op::Withdraw { src: 1, pfx: 0 });
            ops.push(Op::Announce { src: 0, pfx: 0, attr: 1, nh: 0 });
            ops.push(Op::PeerDown { src: 0 });
            ops.push(Op::ConnectHeld);
        }
        if pack == "gr" {
            ops.clear();
            ops.push(Op::Announce { src: 0, pfx: 0, attr: 0, nh: 0 });
            ops.push(Op::Announce { src: 1, pfx: 0, attr: 1, nh: 1 });
            ops.push(Op::Announce { src: 0, pfx: 1, attr: 1, nh: 0 });
            ops.push(Op::Withdraw { src: 1, pfx: 0 });
            ops.push(Op::PeerDownStale { src: 0 });
            ops.push(Op::MarkLlgr { src: 0 });
            ops.push(Op::DropStale { src: 0 });
            ops.push(Op::PolicySwap);
        }
        // a refresh that runs AHEAD of the changes queued behind it: a prefix leaves the RIB and its
        // destination id is re-issued to a prefix this neighbour may not be sent (split horizon, its own route)
        // restarting speaker: routes arrive while selection is deferred, prefixes on DIFFERENT shards
        if pack == "restart" {
            ops.clear();
            ops.push(Op::StartDeferral);
            ops.push(Op::Announce { src: 0, pfx: 0, attr: 0, nh: 0 });
            ops.push(Op::Announce { src: 0, pfx: 1, attr: 0, nh: 0 });
            ops.push(Op::Announce { src: 1, pfx: 2, attr: 1, nh: 1 });
            ops.push(Op::Withdraw { src: 0, pfx: 0 });
            ops.push(Op::EndDeferral);
        }
        // add-path window of 2 over three sources of one prefix: an implicit update (re-announcement with
        // other attributes) moves a path across the window boundary
        if pack == "apwin" {
            ops.clear();
            for s in 0..3u8 {
                ops.push(Op::Announce { src: s, pfx: 0, attr: 0, nh: if s == 1 { 1 } else { 0 } });
            }
            for s in 0..3u8 {
                ops.push(Op::Announce { src: s, pfx: 0, attr: 1, nh: if s == 1 { 1 } else { 0 } });
            }
        }
        // several events of different kinds waiting in the session's channel at once
        if pack == "held" {
            ops.clear();
            ops.push(Op::Announce { src: 0, pfx: 1, attr: 1, nh: 0 });
            ops.push(Op::Announce { src: 1, pfx: 0, attr: 0, nh: 1 });
            ops.push(Op::Withdraw { src: 0, pfx: 1 });
            ops.push(Op::PolicySwap);
            ops.push(Op::HoldEvents);
        }
        if pack == "ahead" {
            ops.clear();
            ops.push(Op::Announce { src: 0, pfx: 1, attr: 1, nh: 0 });
            ops.push(Op::Announce { src: 1, pfx: 0, attr: 1, nh: 1 });
            ops.push(Op::Withdraw { src: 0, pfx: 1 });
            ops.push(Op::PeerDown { src: 0 });
            ops.push(Op::PeerDownStale { src: 0 });
            ops.push(Op::DropStale { src: 0 });
            ops.push(Op::Announce { src: 3, pfx: 0, attr: 0, nh: 0 });
            ops.push(Op::SoftResetOutQueued);
        } else {
            ops.push(Op::SoftResetOut);
            ops.push(Op::RouteRefresh);
        }
        if thorough && matches!(pack, "gr" | "idreuse") {
            ops.push(Op::SoftResetOutQueued);
        }
        ops.push(Op::Sync);
        PipeModel { name: name.into(), role, send_max, shards, ops, nets, policy_sets_med: pack == "gr", late: pack == "late" }
    };
    let mut v = vec![
        mk("c01-ebgp-idreuse", ObsRole::Ebgp, 1, 2, "idreuse"),
        mk("c01-ibgp-multi", ObsRole::Ibgp, 1, 1, "multi"),
        mk("c01-ibgp-gr", ObsRole::Ibgp, 1, 1, "gr"),
        mk("c01-ebgp-addpath2-gr", ObsRole::Ebgp, 2, 1, "gr"),
        mk("c01-ebgp-addpath2-nht", ObsRole::Ebgp, 2, 1, "apnht"),
        mk("c01-ebgp-addpath2-policy", ObsRole::Ebgp, 2, 1, "appol"),
        mk("c01-ebgp-late", ObsRole::Ebgp, 1, 1, "late"),
        mk("c01-ibgp-addpath2-late", ObsRole::Ibgp, 2, 1, "late"),
        mk("c01-ibgp-refresh-ahead", ObsRole::Ibgp, 1, 1, "ahead"),
        mk("c01-ebgp-restart-2shards", ObsRole::Ebgp, 1, 2, "restart"),
        mk("c01-ebgp-held-queue", ObsRole::Ebgp, 1, 1, "held"),
        mk("c01-ebgp-addpath2-window", ObsRole::Ebgp, 2, 1, "apwin"),
    ];
    if thorough {
        v.push(mk("c01-ebgp-addpath2", ObsRole::Ebgp, 2, 1, "multi"));
        v.push(mk("c01-ebgp-policy", ObsRole::Ebgp, 1, 1, "appol"));
        v.push(mk("c01-rrclient-addpath2-policy", ObsRole::RrClient, 2, 1, "appol"));
        v.push(mk("c01-rrclient-multi", ObsRole::RrClient, 1, 2, "multi"));
        v.push(mk("c01-rsclient-multi", ObsRole::RsClient, 1, 1, "multi"));
        v.push(mk("c01-ebgp-multi", ObsRole::Ebgp, 1, 2, "multi"));
        v.push(mk("c01-ibgp-addpath2", ObsRole::Ibgp, 2, 2, "multi"));
        v.push(mk("c01-addpath-idreuse", ObsRole::Ebgp, 2, 2, "idreuse"));
        v.push(mk("c01-ibgp-addpath2-refresh-ahead", ObsRole::Ibgp, 2, 1, "ahead"));
        v.push(mk("c01-ebgp-refresh-ahead", ObsRole::Ebgp, 1, 1, "ahead"));
        v.push(mk("c01-ebgp-addpath2-restart-2shards", ObsRole::Ebgp, 2, 2, "restart"));
        v.push(mk("c01-confed-multi", ObsRole::Confed, 1, 1, "multi"));
        v.push(mk("c01-confed-addpath2-gr", ObsRole::Confed, 2, 1, "gr"));
    }
    v
}

pub(crate) fn run(replay: Option<&str>) -> Report {
    let mut rep = Report::new("C01", "hd-c01");
    if let Some(case) = replay {
        if super::c01s::replay(&mut rep, case) {
            rep.evaluations = 1;
            return rep;
        }
        let Some((name, hist)) = bfs::decode_case(case) else {
            rep.machinery_error = Some("bad replay case".into());
            return rep;
        };
        let Some(m) = models(true).into_iter().find(|m| m.name == name) else {
            rep.machinery_error = Some(format!("unknown model {name}"));
            return rep;
        };
        eprintln!("replay {}", bfs::render(&m, &hist));
        rep.violations_from(bfs::replay(&m, &hist, true));
        rep.evaluations = 1;
        rep.machinery_error = take_machinery();
        return rep;
    }
    let thorough = rep.thorough();
    let depth = if thorough { 7 } else { 5 };
    rep.rule = format!("explicit-state BFS depth {depth} over announce/withdraw/peer-down/next-hop-flap/soft-reset-out/ROUTE-REFRESH events from 2 peers + local, with an explicit `sync` op that lets the LIVE observing session (real PeerSession::run over loopback) deliver and flush what has queued up; at every sync the neighbour's mirror Adj-RIB-In (decoded from the bytes received) must equal the mirror of a brand-new identical session on the same daemon and contain only prefixes the RIB still has; configurations: observer role, add-path send-max, shard count, op pack (destination-id re-use / multi-source); non-trivial = distinct canonical (RIB, mirror, pending) state");
    rep.notes.push("assume: the UPDATE bytes are decoded with the repository's own parser under the neighbour's negotiated codec (C04 checks that codec independently)".into());
    rep.notes.push("assume: an export-policy change is followed by soft_reset_out or ROUTE-REFRESH before the views are compared (the operator procedure); TCP partial writes inside one flush are not varied".into());
    super::c01s::run_into(&mut rep, thorough);
    if rep.machinery_error.is_some() {
        return rep;
    }
    let only = std::env::var("VERIF_C01_ONLY").ok();
    if let Some(o) = &only {
        rep.notes.push(format!("PARTIAL RUN: only the models whose name contains {o:?} (VERIF_C01_ONLY)"));
    }
    for m in models(thorough) {
        if only.as_ref().is_some_and(|o| !m.name.contains(o.as_str())) {
            continue;
        }
        // the multi-source pack has ~20 ops: one level less in the quick tier
        // (thorough: 7 / 5 - the state now contains the queued change events, which costs a
        // factor of ~15 in states against the earlier, unsound, fingerprint)
        // 20-op packs one (thorough: two) levels less; the small focused packs (<= 9 ops) one more
        let d = if m.name.contains("restart") {
            // the shortest histories of interest (deferral starts, two routes, deferral ends, sync) have 5 steps
            if thorough { depth } else { 5 }
        } else if m.ops.len() > 16 { if thorough { depth - 2 } else { depth - 1 } } else if m.ops.len() <= 9 { depth + 1 } else { depth };
        let cfg = BfsCfg { max_depth: d, max_secs: if thorough { 600 } else { 40 }, ..Default::default() };
        bfs::bfs(&m, &cfg, &mut rep);
        if let Some(e) = take_machinery() {
            rep.machinery_error = Some(e);
            break;
        }
    }
    rep
}
