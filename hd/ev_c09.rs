// C09 harness: routes are propagated only where BGP allows, with correctly
// rewritten attributes.  Lives in crate::event::verif_event::c09.
//
// Part A  (export)  : bounded-exhaustive enumeration of the real
//                     `process_nlri_change` over the source x receiver x
//                     RR x confederation x add-path x attribute-set x AS_PATH
//                     x next-hop x export-policy x LLGR matrix; the oracle is
//                     an independent reference written from the statement.
// Part B1 (inbound) : `is_as_loop` over AS_PATHs with the local AS /
//                     confederation id / member AS in every segment type
//                     and position.
// Part B2 (inbound) : `PeerSession::rx_update` (ORIGINATOR_ID / CLUSTER_LIST
//                     checks) into a real TableManager.
// Part B3 (inbound) : a covering subset replayed as real UPDATE bytes over a
//                     loopback TCP session through accept_connection +
//                     PeerSession::run (the AS-loop test is inline in
//                     run_select).

use super::super::export::{ExportMap, NlriSink, PeerExportContext, is_as_loop, process_nlri_change};
use super::super::*;
use super::common::{default_peer_params, make_global, make_tables, runtime};
use crate::verif::vx::bfs;
use crate::verif::vx::report::{self, Report, Violation};
use std::collections::{BTreeMap, BTreeSet, HashSet};
use std::hash::{Hash, Hasher};
use std::net::{IpAddr, Ipv4Addr, Ipv6Addr};
use std::sync::Mutex;
use std::sync::atomic::{AtomicU64, Ordering as AOrd};

type Attr = packet::Attribute;
type Attrs = Arc<Vec<packet::Attribute>>;
type Nh = Option<bgp::Nexthop>;

// ---------------------------------------------------------------------------
// Local configuration universe
// ---------------------------------------------------------------------------
const M_AS: u32 = 65000; // global AS (= member AS when in a confederation)
const CONFED_ID: u32 = 64600;
const MEMBER_PEER_AS: u32 = 65010; // another member AS of the confederation
const MEMBERS: [u32; 3] = [65000, 65010, 65020];
const EBGP_PEER_AS: u32 = 65100;
const RS_PEER_AS: u32 = 65101;
const LLGR_STALE: [u8; 4] = [0xff, 0xff, 0x00, 0x06];

fn router_id() -> Ipv4Addr {
    Ipv4Addr::new(10, 0, 0, 254)
}
fn expl_cluster() -> Ipv4Addr {
    Ipv4Addr::new(1, 2, 3, 4)
}
fn recv_addr() -> IpAddr {
    IpAddr::V4(Ipv4Addr::new(10, 2, 0, 1))
}

const ROLES: [PeerRole; 5] = [
    PeerRole::Ebgp,
    PeerRole::RsClient,
    PeerRole::Ibgp,
    PeerRole::IbgpRrClient,
    PeerRole::ConfedEbgp,
];
const ROLE_NAMES: [&str; 5] = ["ebgp", "rs", "ibgp", "rrc", "cebgp"];
const SRC_NAMES: [&str; 8] = ["ebgp", "rs", "ibgp", "rrc", "cebgp", "local", "kernel", "samepeer"];
const RR_NAMES: [&str; 3] = ["none", "default", "explicit"];
const AP_NAMES: [&str; 9] = ["absent", "empty", "seq1", "confedseq+seq", "confedset", "set", "seq255", "seq255+seq1", "seq+confedseq+set"];
const NH_NAMES: [&str; 7] = ["v4", "v6", "v6ll", "none", "none-flowspec", "unspec4", "unspec6"];
const POL_NAMES: [&str; 8] = ["none", "setnh-addr", "setnh-self", "setnh-unchanged", "set-med", "reject", "community-replace", "community-remove-wellknown"];

// factor order: src recv rr confed max attrs aspath nh pol llgr
const DIMS: [usize; 10] = [8, 5, 3, 2, 2, 256, 9, 7, 8, 2];
const F_SRC: usize = 0;
const F_RECV: usize = 1;
const F_RR: usize = 2;
const F_CONFED: usize = 3;
const F_MAX: usize = 4;
const F_ATTRS: usize = 5;
const F_AP: usize = 6;
const F_NH: usize = 7;
const F_POL: usize = 8;
const F_LLGR: usize = 9;

// attribute presence bits
const A_LP: usize = 1;
const A_MED: usize = 2;
const A_ORIG: usize = 4;
const A_CL: usize = 8;
const A_AIGP: usize = 16;
const A_COMM: usize = 32;
const A_UT: usize = 64;
const A_UNT: usize = 128;

const STORED_LP: u32 = 200;
const STORED_MED: u32 = 50;
const POLICY_MED: u32 = 77;
const STORED_ORIG: u32 = 0x0a09_0909; // 10.9.9.9
const STORED_CL: [u8; 8] = [5, 5, 5, 5, 6, 6, 6, 6];
const UT_CODE: u8 = 200;
const UNT_CODE: u8 = 201;

#[derive(Clone, Copy, Debug, PartialEq, Eq, PartialOrd, Ord, Hash)]
struct Case {
    d: [usize; 10],
}

impl Case {
    fn from_digits(v: &[usize]) -> Case {
        let mut d = [0usize; 10];
        d.copy_from_slice(&v[..10]);
        Case { d }
    }
    fn confed(&self) -> bool {
        self.d[F_CONFED] == 1
    }
    fn recv_role(&self) -> PeerRole {
        ROLES[self.d[F_RECV]]
    }
    /// role of the (first) source when it is a peer
    fn src_role(&self) -> Option<PeerRole> {
        match self.d[F_SRC] {
            k @ 0..=4 => Some(ROLES[k]),
            7 => Some(self.recv_role()),
            _ => None,
        }
    }
    fn feasible(&self) -> bool {
        let needs_confed = self.d[F_RECV] == 4 || self.d[F_SRC] == 4;
        let needs_rr = self.d[F_RECV] == 3 || self.d[F_SRC] == 3;
        if needs_confed && !self.confed() {
            return false;
        }
        if needs_rr && self.d[F_RR] == 0 {
            return false;
        }
        // LLGR-stale is a property of a peer session's Source only
        // (mark_llgr_stale debug-asserts !local && !kernel): llgr=1 with a
        // local/kernel source is the same case as llgr=0 (non-canonical).
        if self.d[F_LLGR] == 1 && (self.d[F_SRC] == 5 || self.d[F_SRC] == 6) {
            return false;
        }
        true
    }
    fn to_string(&self) -> String {
        let ds: Vec<String> = self.d.iter().map(|x| x.to_string()).collect();
        format!(
            "x:{} ({}->{} rr={} confed={} max={} attrs={:#04x} aspath={} nh={} pol={} llgr={})",
            ds.join("."),
            SRC_NAMES[self.d[F_SRC]],
            ROLE_NAMES[self.d[F_RECV]],
            RR_NAMES[self.d[F_RR]],
            self.d[F_CONFED],
            self.d[F_MAX] + 1,
            self.d[F_ATTRS],
            AP_NAMES[self.d[F_AP]],
            NH_NAMES[self.d[F_NH]],
            POL_NAMES[self.d[F_POL]],
            self.d[F_LLGR]
        )
    }
    fn parse(s: &str) -> Option<Case> {
        let s = s.strip_prefix("x:")?;
        let s = s.split_whitespace().next()?;
        let v: Vec<usize> = s.split('.').filter_map(|t| t.parse().ok()).collect();
        if v.len() != 10 || v.iter().zip(DIMS.iter()).any(|(a, b)| a >= b) {
            return None;
        }
        Some(Case::from_digits(&v))
    }
}

fn sess_local_asn(role: PeerRole, confed: bool) -> u32 {
    // Global::add_peer: external peers see the confederation id as local AS.
    if confed && matches!(role, PeerRole::Ebgp | PeerRole::RsClient) { CONFED_ID } else { M_AS }
}

fn remote_asn_of(role: PeerRole) -> u32 {
    match role {
        PeerRole::Ebgp => EBGP_PEER_AS,
        PeerRole::RsClient => RS_PEER_AS,
        PeerRole::Ibgp | PeerRole::IbgpRrClient => M_AS,
        PeerRole::ConfedEbgp => MEMBER_PEER_AS,
    }
}

fn role_idx(role: PeerRole) -> usize {
    ROLES.iter().position(|r| *r == role).unwrap()
}

/// Source exactly as PeerSession::on_established builds it.
fn mk_peer_source(role: PeerRole, addr: IpAddr, rid: Ipv4Addr, confed: bool) -> Arc<table::Source> {
    Arc::new(table::Source::new(
        addr,
        IpAddr::V4(Ipv4Addr::new(10, 0, 0, 1)),
        remote_asn_of(role),
        sess_local_asn(role, confed),
        rid,
        role,
    ))
}

// ---------------------------------------------------------------------------
// AS_PATH helpers (independent of the packet crate's helpers)
// ---------------------------------------------------------------------------
type Segs = Vec<(u8, Vec<u32>)>;
const T_SET: u8 = 1;
const T_SEQ: u8 = 2;
const T_CSEQ: u8 = 3;
const T_CSET: u8 = 4;

fn long_seq() -> Vec<u32> {
    (0..255u32).map(|i| 100_000 + i).collect()
}

fn aspath_segments(shape: usize) -> Option<Segs> {
    match shape {
        0 => None,
        1 => Some(vec![]),
        2 => Some(vec![(T_SEQ, vec![65100])]),
        3 => Some(vec![(T_CSEQ, vec![65010]), (T_SEQ, vec![65100, 65200])]),
        4 => Some(vec![(T_CSET, vec![65010, 65020])]),
        5 => Some(vec![(T_SET, vec![65100, 65200])]),
        6 => Some(vec![(T_SEQ, long_seq())]),
        7 => Some(vec![(T_SEQ, long_seq()), (T_SEQ, vec![65300])]),
        _ => Some(vec![(T_SEQ, vec![65100]), (T_CSEQ, vec![65010]), (T_SET, vec![65200, 65300])]),
    }
}

fn encode_segs(segs: &Segs) -> Vec<u8> {
    let mut b = Vec::new();
    for (t, asns) in segs {
        b.push(*t);
        b.push(asns.len() as u8);
        for a in asns {
            b.extend_from_slice(&a.to_be_bytes());
        }
    }
    b
}

fn parse_segs(b: &[u8]) -> Result<Segs, String> {
    let mut out = Vec::new();
    let mut i = 0usize;
    while i < b.len() {
        if i + 2 > b.len() {
            return Err(format!("truncated segment header at {i}"));
        }
        let t = b[i];
        let n = b[i + 1] as usize;
        i += 2;
        if !(1..=4).contains(&t) {
            return Err(format!("segment type {t}"));
        }
        if n == 0 {
            return Err("zero-length segment".into());
        }
        if i + 4 * n > b.len() {
            return Err(format!("segment of {n} ASes overruns attribute"));
        }
        let mut v = Vec::with_capacity(n);
        for k in 0..n {
            v.push(u32::from_be_bytes([b[i + 4 * k], b[i + 4 * k + 1], b[i + 4 * k + 2], b[i + 4 * k + 3]]));
        }
        i += 4 * n;
        out.push((t, v));
    }
    Ok(out)
}

fn count_as(segs: &Segs, asn: u32) -> usize {
    segs.iter().map(|(_, v)| v.iter().filter(|a| **a == asn).count()).sum()
}

/// merge adjacent AS_SEQUENCE segments (a split/merged sequence is the same path)
fn normalise(segs: &Segs) -> Segs {
    let mut out: Segs = Vec::new();
    for (t, v) in segs {
        if *t == T_SEQ {
            if let Some((lt, lv)) = out.last_mut() {
                if *lt == T_SEQ {
                    lv.extend_from_slice(v);
                    continue;
                }
            }
        }
        out.push((*t, v.clone()));
    }
    out
}

fn segs_brief(segs: &Segs) -> String {
    let parts: Vec<String> = segs
        .iter()
        .map(|(t, v)| {
            let n = ["?", "SET", "SEQ", "CSEQ", "CSET"][(*t as usize).min(4)];
            if v.len() > 4 {
                format!("{}[{},{},..x{}]", n, v[0], v[1], v.len())
            } else {
                format!("{}{:?}", n, v)
            }
        })
        .collect();
    format!("<{}>", parts.join(" "))
}

// ---------------------------------------------------------------------------
// attribute vectors, next hops, policies
// ---------------------------------------------------------------------------
fn build_attrs(mask: usize, shape: usize) -> Vec<Attr> {
    let mut v = vec![Attr::new_with_value(Attr::ORIGIN, 0).unwrap()];
    if let Some(segs) = aspath_segments(shape) {
        v.push(Attr::new_with_bin(Attr::AS_PATH, encode_segs(&segs)).unwrap());
    }
    if mask & A_MED != 0 {
        v.push(Attr::new_with_value(Attr::MULTI_EXIT_DESC, STORED_MED).unwrap());
    }
    if mask & A_LP != 0 {
        v.push(Attr::new_with_value(Attr::LOCAL_PREF, STORED_LP).unwrap());
    }
    if mask & A_COMM != 0 {
        v.push(Attr::new_with_bin(Attr::COMMUNITY, vec![0xfd, 0xe8, 0x00, 0x01]).unwrap());
    }
    if mask & A_ORIG != 0 {
        v.push(Attr::new_with_value(Attr::ORIGINATOR_ID, STORED_ORIG).unwrap());
    }
    if mask & A_CL != 0 {
        v.push(Attr::new_with_bin(Attr::CLUSTER_LIST, STORED_CL.to_vec()).unwrap());
    }
    if mask & A_AIGP != 0 {
        v.push(Attr::new_with_bin(Attr::AIGP, vec![1, 0, 11, 0, 0, 0, 0, 0, 0, 0, 100]).unwrap());
    }
    if mask & A_UT != 0 {
        v.push(Attr::new_opaque(UT_CODE, 0xC0, vec![1, 2, 3]));
    }
    if mask & A_UNT != 0 {
        v.push(Attr::new_opaque(UNT_CODE, 0x80, vec![4, 5]));
    }
    v
}

struct NhKind {
    stored: Nh,
    family: Family,
    v6: bool,
    flowspec: bool,
}

fn nh_kind(k: usize) -> NhKind {
    let g6: Ipv6Addr = "2001:db8::1".parse().unwrap();
    let ll: Ipv6Addr = "fe80::2".parse().unwrap();
    match k {
        0 => NhKind { stored: Some(bgp::Nexthop::V4(Ipv4Addr::new(192, 0, 2, 1))), family: Family::IPV4, v6: false, flowspec: false },
        1 => NhKind { stored: Some(bgp::Nexthop::V6(g6)), family: Family::IPV6, v6: true, flowspec: false },
        2 => NhKind { stored: Some(bgp::Nexthop::V6LinkLocal(g6, ll)), family: Family::IPV6, v6: true, flowspec: false },
        3 => NhKind { stored: None, family: Family::IPV4, v6: false, flowspec: false },
        4 => NhKind { stored: None, family: Family::IPV4_FLOWSPEC, v6: false, flowspec: true },
        5 => NhKind { stored: Some(bgp::Nexthop::V4(Ipv4Addr::UNSPECIFIED)), family: Family::IPV4, v6: false, flowspec: false },
        _ => NhKind { stored: Some(bgp::Nexthop::V6(Ipv6Addr::UNSPECIFIED)), family: Family::IPV6, v6: true, flowspec: false },
    }
}

fn local_addr_for(v6: bool) -> (IpAddr, Option<Ipv6Addr>) {
    if v6 {
        (IpAddr::V6("2001:db8:ffff::1".parse().unwrap()), Some("fe80::1".parse().unwrap()))
    } else {
        (IpAddr::V4(Ipv4Addr::new(10, 0, 0, 1)), None)
    }
}

fn policy_nh_addr(v6: bool) -> IpAddr {
    if v6 { IpAddr::V6("2001:db8::99".parse().unwrap()) } else { IpAddr::V4(Ipv4Addr::new(192, 0, 2, 99)) }
}

fn net_for(k: &NhKind) -> packet::Nlri {
    if k.flowspec {
        packet::Nlri::FlowspecV4(packet::flowspec::FlowspecV4Nlri { components: vec![] })
    } else if k.v6 {
        "2001:db8:1::/48".parse().unwrap()
    } else {
        "10.0.1.0/24".parse().unwrap()
    }
}

fn mk_policy(pol: usize, v6: bool) -> Option<Arc<table::PolicyAssignment>> {
    if pol == 0 {
        return None;
    }
    let mut actions = table::Actions::default();
    let mut disposition = None;
    match pol {
        1 => actions.nexthop = Some(table::NexthopAction::Address(policy_nh_addr(v6))),
        2 => actions.nexthop = Some(table::NexthopAction::PeerSelf),
        3 => actions.nexthop = Some(table::NexthopAction::Unchanged),
        4 => actions.med = Some(table::MedAction { action_type: table::MedActionType::Replace, value: POLICY_MED as i64 }),
        // community rewriting: whatever the policy does to the communities, an LLGR-stale route still carries LLGR_STALE
        6 => actions.community = Some(table::CommunityAction { action_type: table::CommunityActionType::Replace, communities: vec![(65001 << 16) | 100] }),
        7 => actions.community = Some(table::CommunityAction { action_type: table::CommunityActionType::Remove, communities: vec![0xffff_0006, 0xffff_0007, 0xffff_ff01, (65001 << 16) | 100] }),
        _ => disposition = Some(table::Disposition::Reject),
    }
    let st = Arc::new(table::Statement { name: Arc::from("c09-s"), conditions: vec![], disposition, actions });
    let p = Arc::new(table::Policy { name: Arc::from("c09-p"), statements: vec![st] });
    Some(Arc::new(table::PolicyAssignment {
        name: Arc::from("c09-a"),
        disposition: table::Disposition::Accept,
        policies: vec![p],
        needs_rpki: false,
    }))
}

// ---------------------------------------------------------------------------
// Part A: driving process_nlri_change
// ---------------------------------------------------------------------------
#[derive(Default)]
struct RecSink {
    reach: Vec<(u32, Nh, Attrs, IpAddr)>,
    unreach: Vec<u32>,
}

impl NlriSink for RecSink {
    fn reach(&mut self, _dest_id: u32, _nlri: packet::Nlri, path_id: u32, nexthop: Nh, attr: Attrs, source: &Arc<table::Source>) {
        self.reach.push((path_id, nexthop, attr, source.remote_addr));
    }
    fn unreach(&mut self, _dest_id: u32, _nlri: packet::Nlri, path_id: u32) {
        self.unreach.push(path_id);
    }
}

struct PathIn {
    pid: u32,
    kind: usize, // index into SRC_NAMES
    role: Option<PeerRole>,
    source: Arc<table::Source>,
    nexthop: Nh,
    attrs: Attrs,
    stale: bool,
}

struct Setup {
    ctx: PeerExportContext,
    cluster_id: Option<Ipv4Addr>,
    effective_max: usize,
    family: Family,
    net: packet::Nlri,
    policy: Option<Arc<table::PolicyAssignment>>,
    paths: Vec<PathIn>,
    nhk: NhKind,
}

fn mk_path(c: &Case, kind: usize, which: u8, pid: u32, stale: bool, nhk: &NhKind) -> PathIn {
    let confed = c.confed();
    let (source, role) = match kind {
        5 => (table::Source::local(), None),
        6 => (table::Source::kernel(), None),
        7 => {
            let role = c.recv_role();
            (mk_peer_source(role, recv_addr(), Ipv4Addr::new(10, 2, 0, 1), confed), Some(role))
        }
        k => {
            let role = ROLES[k];
            let a = Ipv4Addr::new(10, 1, k as u8 + 1, which);
            (mk_peer_source(role, IpAddr::V4(a), a, confed), Some(role))
        }
    };
    if stale {
        source.mark_llgr_stale();
    }
    PathIn {
        pid,
        kind,
        role,
        source,
        nexthop: nhk.stored,
        attrs: Arc::new(build_attrs(c.d[F_ATTRS], c.d[F_AP])),
        stale,
    }
}

fn setup(c: &Case) -> Setup {
    let nhk = nh_kind(c.d[F_NH]);
    let role = c.recv_role();
    let (local_addr, link_addr) = local_addr_for(nhk.v6);
    let ctx = PeerExportContext {
        role,
        local_asn: sess_local_asn(role, c.confed()),
        local_addr,
        link_addr,
        confederation_id: if c.confed() { CONFED_ID } else { 0 },
    };
    // exactly as accept_connection derives it
    let cluster_id = match role {
        PeerRole::Ibgp | PeerRole::IbgpRrClient => Some(if c.d[F_RR] == 2 { expl_cluster() } else { router_id() }),
        _ => None,
    };
    let effective_max = c.d[F_MAX] + 1;
    let mut paths = vec![mk_path(c, c.d[F_SRC], 1, 11, c.d[F_LLGR] == 1, &nhk)];
    if effective_max > 1 {
        // second path: another peer of the same kind (other address) when the
        // first is a peer kind; otherwise an eBGP (or RS-client, for an
        // RS-client receiver) peer, so that something is eligible.
        let k2 = match c.d[F_SRC] {
            k @ 0..=4 => k,
            _ => {
                if role == PeerRole::RsClient {
                    1
                } else {
                    0
                }
            }
        };
        paths.push(mk_path(c, k2, 2, 12, false, &nhk));
    }
    Setup {
        ctx,
        cluster_id,
        effective_max,
        family: nhk.family,
        net: net_for(&nhk),
        policy: mk_policy(c.d[F_POL], nhk.v6),
        paths,
        nhk,
    }
}

fn mk_change(s: &Setup) -> table::NlriChange {
    table::NlriChange {
        family: s.family,
        net: s.net.clone(),
        dest_id: 7,
        best_changed: true,
        any_changed: true,
        replaced_path_id: None,
        current_paths: Arc::new(
            s.paths
                .iter()
                .map(|p| table::Path {
                    local_path_id: p.pid,
                    source: Arc::clone(&p.source),
                    nexthop: p.nexthop,
                    attr: Arc::clone(&p.attrs),
                })
                .collect(),
        ),
    }
}

fn drive(s: &Setup) -> Result<RecSink, String> {
    let change = mk_change(s);
    report::catch(|| {
        let mut em = if s.effective_max > 1 { ExportMap::new([s.family]) } else { ExportMap::new([]) };
        let mut sink = RecSink::default();
        process_nlri_change(
            &change,
            s.effective_max,
            recv_addr(),
            &mut em,
            &mut sink,
            &s.ctx,
            s.policy.as_deref(),
            s.cluster_id,
            None,
            None,
            None,
        );
        sink
    })
}

/// Same call with the production sink (PendingTx); returns (path_id, nexthop, attrs) per reach entry.
fn drive_pending(s: &Setup) -> Result<Vec<(u32, Nh, Attrs)>, String> {
    let change = mk_change(s);
    report::catch(|| {
        let mut em = if s.effective_max > 1 { ExportMap::new([s.family]) } else { ExportMap::new([]) };
        let mut pending = crate::peer_tx::PendingTx::new(s.effective_max > 1);
        process_nlri_change(
            &change,
            s.effective_max,
            recv_addr(),
            &mut em,
            &mut pending,
            &s.ctx,
            s.policy.as_deref(),
            s.cluster_id,
            None,
            None,
            None,
        );
        let mut out = Vec::new();
        for m in pending.drain_messages(s.family) {
            if let bgp::Message::Update(bgp::Update::Reach { entries, nexthop, attr, .. }) = m {
                for e in entries {
                    out.push((e.path_id, nexthop, Arc::clone(&attr)));
                }
            }
        }
        out.sort_by_key(|x| x.0);
        out
    })
}

// ---------------------------------------------------------------------------
// Part A: the reference oracle (written from the statement; never calls the
// helpers of export.rs / packet's as_path_* functions)
// ---------------------------------------------------------------------------
#[derive(Default)]
struct Stats {
    /// clause -> number of (path, receiver) evaluations in which the clause was actually decided
    clause: BTreeMap<&'static str, u64>,
    /// observations outside the statement (never verdicts)
    obs: BTreeMap<String, u64>,
    sent: [[u64; 8]; 5],
    withheld: [[u64; 8]; 5],
    /// [kind of observation][receiver][source kind]
    pair_obs: [[[u64; 8]; 5]; 3],
    /// LOCAL_PREF value sent to iBGP peers: (stored present?, value sent) -> count
    lp_obs: BTreeMap<(bool, Option<u32>), u64>,
}
const PAIR_OBS: [&str; 3] = ["obs/allowed-but-not-advertised", "obs/non-reflected-route-gained-originator-id", "obs/non-reflected-route-gained-cluster-id"];

impl Stats {
    fn hit(&mut self, k: &'static str) {
        *self.clause.entry(k).or_insert(0) += 1;
    }
    fn note(&mut self, k: String) {
        *self.obs.entry(k).or_insert(0) += 1;
    }
    fn merge(&mut self, o: Stats) {
        for (k, v) in o.clause {
            *self.clause.entry(k).or_insert(0) += v;
        }
        for (k, v) in o.obs {
            *self.obs.entry(k).or_insert(0) += v;
        }
        for r in 0..5 {
            for s in 0..8 {
                self.sent[r][s] += o.sent[r][s];
                self.withheld[r][s] += o.withheld[r][s];
                for k in 0..3 {
                    self.pair_obs[k][r][s] += o.pair_obs[k][r][s];
                }
            }
        }
        for (k, v) in o.lp_obs {
            *self.lp_obs.entry(k).or_insert(0) += v;
        }
    }
}

fn find_all(attrs: &[Attr], code: u8) -> Vec<&Attr> {
    attrs.iter().filter(|a| a.code() == code).collect()
}

fn is_self_nh(nh: &bgp::Nexthop, ctx: &PeerExportContext) -> bool {
    match nh {
        bgp::Nexthop::V4(a) => IpAddr::V4(*a) == ctx.local_addr,
        bgp::Nexthop::V6(a) => IpAddr::V6(*a) == ctx.local_addr,
        bgp::Nexthop::V6LinkLocal(a, l) => IpAddr::V6(*a) == ctx.local_addr && Some(*l) == ctx.link_addr,
    }
}

fn nh_str(nh: &Nh) -> String {
    match nh {
        None => "none".into(),
        Some(n) => n.to_string(),
    }
}

/// Must the route of `p` be withheld from the receiver?  (sig, reason)
fn must_withhold(c: &Case, p: &PathIn) -> Option<(String, String)> {
    let recv = c.recv_role();
    if p.source.remote_addr == recv_addr() {
        return Some(("C09/echo-to-source".into(), "route advertised back to the peer (same remote address) it was learned from".into()));
    }
    if let Some(sr) = p.role {
        if sr == PeerRole::Ibgp && recv == PeerRole::Ibgp {
            return Some((
                "C09/ibgp-nonclient-to-nonclient".into(),
                "route learned from a non-client iBGP peer advertised to another non-client iBGP peer".into(),
            ));
        }
        if sr == PeerRole::RsClient && recv != PeerRole::RsClient {
            return Some((
                "C09/rs-boundary/rs-to-nonrs".to_string(),
                "route learned from a route-server client advertised to a non-route-server peer".into(),
            ));
        }
        if sr != PeerRole::RsClient && recv == PeerRole::RsClient {
            return Some((
                "C09/rs-boundary/nonrs-to-rs".to_string(),
                "route learned from a non-route-server peer advertised to a route-server client".into(),
            ));
        }
    }
    None
}

/// Evaluate every clause of the statement on what was handed to the sink for
/// input path `p` (None = nothing advertised).
fn check_path(c: &Case, s: &Setup, p: &PathIn, out: Option<(&Nh, &Attrs)>, st: &mut Stats) -> Vec<(String, String)> {
    let mut v: Vec<(String, String)> = Vec::new();
    let recv = c.recv_role();
    let ri = role_idx(recv);
    let shape = AP_NAMES[c.d[F_AP]];
    // shape classes: next-hop kind {v4,v6,v6ll,none,unspec}, policy {default (no next-hop action), setnh-*}
    let nhname = ["v4", "v6", "v6ll", "none", "none", "unspec", "unspec"][c.d[F_NH]];
    let polname = POL_NAMES[c.d[F_POL]];
    let polclass = ["default", "setnh-addr", "setnh-self", "setnh-unchanged", "default", "default", "default", "default"][c.d[F_POL]];
    let pol = c.d[F_POL];
    let mask = c.d[F_ATTRS];
    let is_peer = p.role.is_some();

    // ---- where BGP allows -------------------------------------------------
    if let Some((sig, why)) = must_withhold(c, p) {
        st.hit("withhold");
        if out.is_some() {
            v.push((sig, format!("{why}: source {} ({}) -> receiver {}", p.source.remote_addr, SRC_NAMES[p.kind], ROLE_NAMES[ri])));
        }
        return v;
    }
    let Some((nh, attrs)) = out else {
        st.withheld[ri][p.kind] += 1;
        if pol != 5 {
            st.pair_obs[0][ri][p.kind] += 1;
        }
        return v;
    };
    st.sent[ri][p.kind] += 1;
    if pol == 5 {
        st.note(format!("obs/advertised-despite-policy-reject/{}", ROLE_NAMES[ri]));
    }

    let stored_segs: Option<Segs> = aspath_segments(c.d[F_AP]);
    let out_paths = find_all(attrs, Attr::AS_PATH);

    match recv {
        // ---- eBGP receivers ------------------------------------------------
        PeerRole::Ebgp => {
            let prepend = if c.confed() { CONFED_ID } else { M_AS };
            let base: Segs = stored_segs.clone().unwrap_or_default().into_iter().filter(|(t, _)| *t == T_SET || *t == T_SEQ).collect();
            st.hit("ebgp/as-path");
            if out_paths.len() != 1 {
                v.push((format!("C09/ebgp/prepend-count/{shape}"), format!("expected exactly one AS_PATH with AS {prepend} prepended, found {} AS_PATH attributes", out_paths.len())));
            } else {
                match out_paths[0].binary().ok_or_else(|| "no binary value".to_string()).and_then(|b| parse_segs(b)) {
                    Err(e) => v.push((format!("C09/ebgp/prepend-count/{shape}"), format!("AS_PATH sent to eBGP peer is malformed: {e}"))),
                    Ok(o) => {
                        if o.iter().any(|(t, _)| *t == T_CSEQ || *t == T_CSET) {
                            v.push(("C09/ebgp/confed-segment-leaked".into(), format!("confederation segment sent to eBGP peer: stored {} sent {}", segs_brief(&stored_segs.clone().unwrap_or_default()), segs_brief(&o))));
                        }
                        let want = count_as(&base, prepend) + 1;
                        let got = count_as(&o, prepend);
                        if got != want {
                            v.push((format!("C09/ebgp/prepend-count/{shape}"), format!("AS {prepend} must occur {want} time(s) after prepending exactly once, occurs {got}: stored {} sent {}", segs_brief(&base), segs_brief(&o))));
                        } else if !(o.first().is_some_and(|(t, a)| *t == T_SEQ && a.first() == Some(&prepend))) {
                            v.push((format!("C09/ebgp/prepend-position/{shape}"), format!("AS {prepend} is not the first AS of a leading AS_SEQUENCE: sent {}", segs_brief(&o))));
                        } else {
                            // remove the prepended AS; the remainder must be the stored path without confed segments
                            let mut rest = o.clone();
                            rest[0].1.remove(0);
                            if rest[0].1.is_empty() {
                                rest.remove(0);
                            }
                            let rest: Segs = rest.into_iter().filter(|(t, _)| *t == T_SET || *t == T_SEQ).collect();
                            if normalise(&rest) != normalise(&base) {
                                v.push((format!("C09/ebgp/as-path-content/{shape}"), format!("path behind the prepended AS differs from the stored path: stored {} sent {}", segs_brief(&base), segs_brief(&o))));
                            }
                        }
                    }
                }
            }
            for (code, name, sig) in [
                (Attr::LOCAL_PREF, "LOCAL_PREF", "C09/ebgp/local-pref-leaked"),
                (Attr::ORIGINATOR_ID, "ORIGINATOR_ID", "C09/ebgp/originator-id-leaked"),
                (Attr::CLUSTER_LIST, "CLUSTER_LIST", "C09/ebgp/cluster-list-leaked"),
                (Attr::AIGP, "AIGP", "C09/ebgp/aigp-leaked"),
            ] {
                st.hit("ebgp/ibgp-only-attrs-removed");
                if !find_all(attrs, code).is_empty() {
                    v.push((sig.into(), format!("{name} sent to an eBGP peer")));
                }
            }
            // received MED: only a MED learned from a peer counts as "received";
            // a MED on a locally originated route or set by export policy may stay.
            if mask & A_MED != 0 && is_peer {
                st.hit("ebgp/received-med-removed");
                for m in find_all(attrs, Attr::MULTI_EXIT_DESC) {
                    let val = m.value();
                    if !(pol == 4 && val == Some(POLICY_MED)) {
                        v.push(("C09/ebgp/received-med-leaked".into(), format!("MED {:?} received from {} sent to an eBGP peer (policy {polname})", val, SRC_NAMES[p.kind])));
                    }
                }
            }
            // next hop self unless export policy set it
            st.hit("ebgp/nexthop-self");
            let mut ok = match nh {
                Some(n) => is_self_nh(n, &s.ctx),
                None => s.nhk.flowspec, // RFC 8955: Flowspec carries no next hop
            };
            if !ok && pol == 1 {
                ok = nh.is_some_and(|n| n.addr() == policy_nh_addr(s.nhk.v6));
            }
            if pol == 3 && p.nexthop.is_some() {
                // set next-hop unchanged: the policy asks for the received next hop, not for self
                ok = *nh == p.nexthop;
            }
            // locally originated route with an explicitly configured next hop
            // (third-party next hop, RFC 4271 5.1.3): accepted reading.
            if !ok && p.kind == 5 {
                ok = p.nexthop.is_some_and(|n| !n.addr().is_unspecified()) && *nh == p.nexthop;
            }
            if !ok {
                v.push((format!("C09/ebgp/nexthop-not-self/{polclass}/{nhname}"), format!("next hop sent to eBGP peer is {} (self = {}, stored {}, source {})", nh_str(nh), s.ctx.local_addr, nh_str(&p.nexthop), SRC_NAMES[p.kind])));
            }
        }
        // ---- iBGP receivers ------------------------------------------------
        PeerRole::Ibgp | PeerRole::IbgpRrClient => {
            st.hit("ibgp/local-pref-present");
            let lps = find_all(attrs, Attr::LOCAL_PREF);
            if lps.is_empty() {
                v.push(("C09/ibgp/local-pref-missing".into(), format!("no LOCAL_PREF sent to iBGP peer (stored: {})", if mask & A_LP != 0 { "present" } else { "absent" })));
            } else {
                *st.lp_obs.entry((mask & A_LP != 0, lps[0].value())).or_insert(0) += 1;
            }
            st.hit("ibgp/as-path-untouched");
            match &stored_segs {
                None => {
                    if out_paths.iter().any(|a| a.binary().is_some_and(|b| !b.is_empty())) {
                        v.push((format!("C09/ibgp/as-path-modified/{shape}"), "stored route has no AS_PATH, a non-empty AS_PATH was sent to iBGP peer".into()));
                    }
                }
                Some(segs) => {
                    let want = encode_segs(segs);
                    if out_paths.len() != 1 || out_paths[0].binary() != Some(&want) {
                        v.push((format!("C09/ibgp/as-path-modified/{shape}"), format!("AS_PATH sent to iBGP peer is not byte-identical to the stored one: stored {} sent {:?}", segs_brief(segs), out_paths.first().and_then(|a| a.binary()).map(|b| parse_segs(b).map(|x| segs_brief(&x))))));
                    }
                }
            }
            st.hit("ibgp/nexthop-untouched");
            let mut ok = *nh == p.nexthop;
            if !ok && pol == 1 {
                ok = nh.is_some_and(|n| n.addr() == policy_nh_addr(s.nhk.v6));
            }
            if !ok && pol == 2 {
                ok = nh.is_some_and(|n| is_self_nh(&n, &s.ctx));
            }
            // nothing stored (or, for a locally originated route, the 0.0.0.0/::
            // placeholder): the speaker has to fill in its own address.
            if !ok && (p.nexthop.is_none() || (!is_peer && p.nexthop.is_some_and(|n| n.addr().is_unspecified()))) {
                ok = nh.is_some_and(|n| is_self_nh(&n, &s.ctx));
            }
            if !ok {
                v.push((format!("C09/ibgp/nexthop-modified/{polclass}/{nhname}"), format!("next hop sent to iBGP peer is {}, stored {} (source {})", nh_str(nh), nh_str(&p.nexthop), SRC_NAMES[p.kind])));
            }
            // reflected routes
            let reflected = c.d[F_RR] != 0 && matches!(p.role, Some(PeerRole::Ibgp | PeerRole::IbgpRrClient));
            let origs = find_all(attrs, Attr::ORIGINATOR_ID);
            let cls = find_all(attrs, Attr::CLUSTER_LIST);
            if reflected {
                st.hit("rr/originator-id");
                let had = mask & A_ORIG != 0;
                let want = if had { STORED_ORIG } else { p.source.router_id };
                let shape_o = if had { "present" } else { "absent" };
                if origs.is_empty() {
                    v.push((format!("C09/rr/originator-id/{shape_o}-missing"), "reflected route sent without ORIGINATOR_ID".into()));
                } else if origs.len() > 1 {
                    v.push((format!("C09/rr/originator-id/{shape_o}-duplicated"), format!("{} ORIGINATOR_ID attributes on reflected route", origs.len())));
                } else if origs[0].value() != Some(want) {
                    v.push((format!("C09/rr/originator-id/{shape_o}-wrong-value"), format!("ORIGINATOR_ID {:?}, expected {:#010x}", origs[0].value(), want)));
                }
                st.hit("rr/cluster-list");
                let cid = if c.d[F_RR] == 2 { expl_cluster() } else { router_id() };
                let mut want_cl = cid.octets().to_vec();
                let hadc = mask & A_CL != 0;
                if hadc {
                    want_cl.extend_from_slice(&STORED_CL);
                }
                let shape_c = if hadc { "present" } else { "absent" };
                if cls.is_empty() {
                    v.push((format!("C09/rr/cluster-list/{shape_c}-missing"), "reflected route sent without CLUSTER_LIST".into()));
                } else if cls.len() > 1 || cls[0].binary() != Some(&want_cl) {
                    v.push((format!("C09/rr/cluster-list/{shape_c}-wrong"), format!("CLUSTER_LIST {:?}, expected local cluster-id {cid} prepended to the old list: {:?}", cls[0].binary(), want_cl)));
                }
            } else {
                if origs.len() > (mask & A_ORIG != 0) as usize {
                    st.pair_obs[1][ri][p.kind] += 1;
                }
                if cls.first().and_then(|a| a.binary()).map(|b| b.len()).unwrap_or(0) > if mask & A_CL != 0 { 8 } else { 0 } {
                    st.pair_obs[2][ri][p.kind] += 1;
                }
            }
        }
        // ---- confederation-eBGP receivers ----------------------------------
        PeerRole::ConfedEbgp => {
            st.hit("confed-ebgp/member-as");
            let ok = out_paths.len() == 1
                && out_paths[0]
                    .binary()
                    .and_then(|b| parse_segs(b).ok())
                    .is_some_and(|o| o.first().is_some_and(|(t, a)| *t == T_CSEQ && a.first() == Some(&M_AS)));
            if !ok {
                v.push((format!("C09/confed-ebgp/member-as-missing/{shape}"), format!("member AS {M_AS} is not first in a leading AS_CONFED_SEQUENCE: sent {:?}", out_paths.first().and_then(|a| a.binary()).map(|b| parse_segs(b).map(|x| segs_brief(&x))))));
            }
        }
        // ---- route-server clients: the statement only gives the boundary rule
        PeerRole::RsClient => {}
    }

    // ---- all receivers -----------------------------------------------------
    if p.stale {
        st.hit("llgr-stale-community");
        let has = find_all(attrs, Attr::COMMUNITY).iter().any(|a| a.binary().is_some_and(|b| b.chunks(4).any(|x| x == LLGR_STALE)));
        if !has {
            v.push((format!("C09/llgr-stale-community-missing/{}", ROLE_NAMES[ri]), "route of an LLGR-stale source sent without the LLGR_STALE community".into()));
        }
    }
    if mask & A_UT != 0 {
        st.hit("unknown-transitive");
        let f = find_all(attrs, UT_CODE);
        if f.len() != 1 || f[0].binary() != Some(&vec![1u8, 2, 3]) {
            v.push(("C09/unknown-transitive/dropped".into(), format!("unknown optional transitive attribute not forwarded intact ({} copies)", f.len())));
        } else if f[0].flags() & Attr::FLAG_PARTIAL == 0 || f[0].flags() & 0xC0 != 0xC0 {
            v.push(("C09/unknown-transitive/partial-bit".into(), format!("unknown optional transitive attribute forwarded with flags {:#04x} (Partial not set)", f[0].flags())));
        }
    }
    if mask & A_UNT != 0 {
        st.hit("unknown-nontransitive");
        if !find_all(attrs, UNT_CODE).is_empty() {
            v.push(("C09/unknown-nontransitive/forwarded".into(), "unknown optional non-transitive attribute forwarded".into()));
        }
    }
    v
}

// ---------------------------------------------------------------------------
// Part A: one case, the enumerations, the parallel runner
// ---------------------------------------------------------------------------
struct Shared {
    outcomes: Vec<Mutex<HashSet<u64>>>,
    pending_mismatch: AtomicU64,
}

impl Shared {
    fn new() -> Self {
        Shared { outcomes: (0..64).map(|_| Mutex::new(HashSet::new())).collect(), pending_mismatch: AtomicU64::new(0) }
    }
    fn outcome(&self, h: u64) {
        self.outcomes[(h % 64) as usize].lock().unwrap().insert(h);
    }
    fn distinct(&self) -> u64 {
        self.outcomes.iter().map(|m| m.lock().unwrap().len() as u64).sum()
    }
}

struct Local {
    rep: Report,
    st: Stats,
}

fn eval_case(c: &Case, loc: &mut Local, sh: &Shared, verbose: bool, with_pending: bool) {
    let s = setup(c);
    loc.rep.evaluations += 1;
    let sink = match drive(&s) {
        Ok(k) => k,
        Err(e) => {
            // a panic prevents every specified outcome for this (source, receiver) pair
            let loc_s = e.rsplit('@').next().unwrap_or("").trim().to_string();
            loc.rep.violation(Violation {
                sig: format!("C09/panic/{}/{}", ROLE_NAMES[c.d[F_RECV]], AP_NAMES[c.d[F_AP]]),
                what: format!("process_nlri_change panicked: {e} ({loc_s})"),
                case: c.to_string(),
            });
            return;
        }
    };
    if verbose {
        eprintln!("case {}", c.to_string());
        eprintln!("  receiver role={:?} local_asn={} confed_id={} local_addr={} cluster_id={:?} max={}", s.ctx.role, s.ctx.local_asn, s.ctx.confederation_id, s.ctx.local_addr, s.cluster_id, s.effective_max);
        for p in &s.paths {
            eprintln!("  in  pid={} src={} addr={} asn={}/{} rid={:#x} stale={} nh={} attrs={:?}", p.pid, SRC_NAMES[p.kind], p.source.remote_addr, p.source.remote_asn, p.source.local_asn, p.source.router_id, p.stale, nh_str(&p.nexthop), brief_attrs(&p.attrs));
        }
        for (pid, nh, a, src) in &sink.reach {
            eprintln!("  out reach pid={} src={} nh={} attrs={:?}", pid, src, nh_str(nh), brief_attrs(a));
        }
        for pid in &sink.unreach {
            eprintln!("  out unreach pid={pid}");
        }
    }
    let mut hasher = std::collections::hash_map::DefaultHasher::new();
    c.d[F_RECV].hash(&mut hasher);
    for (i, p) in s.paths.iter().enumerate() {
        // non-add-path: only the best (first) path is a candidate, reported with path id 0
        if s.effective_max == 1 && i > 0 {
            break;
        }
        let want_pid = if s.effective_max == 1 { 0 } else { p.pid };
        let outs: Vec<&(u32, Nh, Attrs, IpAddr)> = sink.reach.iter().filter(|r| r.0 == want_pid).collect();
        if outs.len() > 1 {
            loc.rep.machinery_error = Some(format!("path id {want_pid} reached the sink {} times in {}", outs.len(), c.to_string()));
        }
        let out = outs.first().map(|r| (&r.1, &r.2));
        (i, out.is_some()).hash(&mut hasher);
        if let Some((nh, a)) = out {
            nh.hash(&mut hasher);
            a.hash(&mut hasher);
        }
        for (sig, what) in check_path(c, &s, p, out, &mut loc.st) {
            if verbose {
                eprintln!("  VIOLATION {sig}: {what}");
            }
            loc.rep.violation(Violation { sig, what, case: c.to_string() });
        }
    }
    if !sink.unreach.is_empty() {
        // fresh ExportMap: nothing was advertised before, nothing can be withdrawn
        loc.st.note("obs/unreach-on-fresh-export-map".into());
    }
    sh.outcome(hasher.finish());
    if with_pending {
        // production sink: what PendingTx turns into UPDATEs must be what the recording sink saw
        match drive_pending(&s) {
            Ok(p) => {
                let mut a: Vec<(u32, Nh, Attrs)> = sink.reach.iter().map(|r| (r.0, r.1, Arc::clone(&r.2))).collect();
                a.sort_by_key(|x| x.0);
                if a != p {
                    sh.pending_mismatch.fetch_add(1, AOrd::Relaxed);
                    if verbose {
                        eprintln!("  PendingTx output differs from recording sink");
                    }
                }
            }
            Err(_) => {
                sh.pending_mismatch.fetch_add(1, AOrd::Relaxed);
            }
        }
    }
}

fn brief_attrs(a: &Attrs) -> Vec<String> {
    a.iter()
        .map(|x| {
            if x.code() == Attr::AS_PATH {
                format!("AS_PATH{}", x.binary().map(|b| parse_segs(b).map(|s| segs_brief(&s)).unwrap_or_else(|e| format!("<malformed {e}>"))).unwrap_or_default())
            } else if let Some(v) = x.value() {
                format!("{}={}", x.code(), v)
            } else {
                format!("{}(f={:#x})={}", x.code(), x.flags(), report::hex(x.binary().map(|b| &b[..b.len().min(12)]).unwrap_or(&[])))
            }
        })
        .collect()
}

fn par_run<F>(n: u64, f: F) -> (Report, Stats)
where
    F: Fn(u64, &mut Local) + Sync,
{
    let workers = bfs::workers();
    let next = AtomicU64::new(0);
    let block: u64 = (n / (workers as u64 * 64)).clamp(1, 8192);
    let merged: Mutex<Vec<Local>> = Mutex::new(Vec::new());
    std::thread::scope(|s| {
        for _ in 0..workers {
            std::thread::Builder::new()
                .stack_size(32 << 20)
                .spawn_scoped(s, || {
                    let mut local = Local { rep: Report::new("C09", "hd-c09"), st: Stats::default() };
                    loop {
                        let start = next.fetch_add(block, AOrd::Relaxed);
                        if start >= n {
                            break;
                        }
                        for i in start..(start + block).min(n) {
                            f(i, &mut local);
                        }
                    }
                    merged.lock().unwrap().push(local);
                })
                .expect("spawn");
        }
    });
    let mut rep = Report::new("C09", "hd-c09");
    rep.exhaustive = true;
    let mut st = Stats::default();
    for l in merged.into_inner().unwrap() {
        rep.merge(l.rep);
        st.merge(l.st);
    }
    (rep, st)
}

/// quick tier: every PAIR of values of the six content factors (max, attrs,
/// aspath, nh, pol, llgr) occurs in some row; every row is crossed with the
/// FULL source x receiver x RR x confederation matrix.  Hence all pairs of all
/// ten factors are covered (role factors even jointly with every content pair).
fn content_rows() -> Vec<[usize; 6]> {
    let dims = [DIMS[F_MAX], DIMS[F_ATTRS], DIMS[F_AP], DIMS[F_NH], DIMS[F_POL], DIMS[F_LLGR]];
    let mut rows: BTreeSet<[usize; 6]> = BTreeSet::new();
    for i in 0..6 {
        for j in (i + 1)..6 {
            for a in 0..dims[i] {
                for b in 0..dims[j] {
                    let mut r = [0usize; 6];
                    for k in 0..6 {
                        r[k] = (a * 7 + b * 13 + k * 3 + a * b) % dims[k];
                    }
                    r[i] = a;
                    r[j] = b;
                    rows.insert(r);
                }
            }
        }
    }
    // the add-path branch and the best-path branch of the exporter are two code paths that both read the
    // next hop and the policy: every (max, next hop, policy) TRIPLE as well, over two attribute sets
    for a in 0..dims[0] {
        for n in 0..dims[3] {
            for p in 0..dims[4] {
                for at in 0..dims[1].min(2) {
                    rows.insert([a, at, 0, n, p, 0]);
                }
            }
        }
    }
    rows.into_iter().collect()
}

fn run_export(rep: &mut Report, thorough: bool) {
    let sh = Shared::new();
    let role_dims = [DIMS[F_SRC], DIMS[F_RECV], DIMS[F_RR], DIMS[F_CONFED]];
    let role_n: u64 = role_dims.iter().map(|d| *d as u64).product();
    let skipped = AtomicU64::new(0);
    let (r, st, space) = if thorough {
        let n: u64 = DIMS.iter().map(|d| *d as u64).product();
        let (r, st) = par_run(n, |i, loc| {
            let c = Case::from_digits(&crate::verif::vx::enumr::digits(i, &DIMS));
            if !c.feasible() {
                skipped.fetch_add(1, AOrd::Relaxed);
                return;
            }
            eval_case(&c, loc, &sh, false, false);
        });
        (r, st, format!("full product of all ten factors ({} index tuples)", n))
    } else {
        let rows = content_rows();
        // verify pairwise completeness of the content rows (machinery self-check)
        let dims = [DIMS[F_MAX], DIMS[F_ATTRS], DIMS[F_AP], DIMS[F_NH], DIMS[F_POL], DIMS[F_LLGR]];
        for i in 0..6 {
            for j in (i + 1)..6 {
                let have: HashSet<(usize, usize)> = rows.iter().map(|r| (r[i], r[j])).collect();
                if have.len() != dims[i] * dims[j] {
                    rep.machinery_error = Some(format!("content rows are not pairwise complete for factors {i},{j}"));
                }
            }
        }
        let n = rows.len() as u64 * role_n;
        let (r, st) = par_run(n, |i, loc| {
            let row = &rows[(i / role_n) as usize];
            let rd = crate::verif::vx::enumr::digits(i % role_n, &role_dims);
            let c = Case { d: [rd[0], rd[1], rd[2], rd[3], row[0], row[1], row[2], row[3], row[4], row[5]] };
            if !c.feasible() {
                skipped.fetch_add(1, AOrd::Relaxed);
                return;
            }
            eval_case(&c, loc, &sh, false, true);
        });
        (r, st, format!("{} pairwise-complete rows over (max,attrs,aspath,nh,policy,llgr) x full {}-cell source x receiver x RR x confed matrix ({} index tuples)", rows.len(), role_n, n))
    };
    let evals = r.evaluations;
    let distinct = sh.distinct();
    rep.merge(r);
    rep.distinct_nontrivial += distinct;
    rep.notes.push(format!(
        "export: {space}; {evals} feasible canonical cases executed against process_nlri_change, {} infeasible/non-canonical tuples skipped (ConfedEbgp role without confederation, RR-client role without RR, LLGR-stale local/kernel source); {distinct} distinct (receiver role, per-path outcome) fingerprints",
        skipped.load(AOrd::Relaxed)
    ));
    let clauses: Vec<String> = st.clause.iter().map(|(k, v)| format!("{k}={v}")).collect();
    rep.notes.push(format!("export: clause decisions: {}", clauses.join(" ")));
    let mut sent = Vec::new();
    for ri in 0..5 {
        for si in 0..8 {
            if st.sent[ri][si] + st.withheld[ri][si] > 0 {
                sent.push(format!("{}->{}:{}/{}", SRC_NAMES[si], ROLE_NAMES[ri], st.sent[ri][si], st.withheld[ri][si]));
            }
        }
    }
    rep.notes.push(format!("export: advertised/not-advertised where the statement allows advertising (source->receiver): {}", sent.join(" ")));
    for (k, v) in &st.obs {
        rep.add(k, *v);
    }
    for k in 0..3 {
        for ri in 0..5 {
            for si in 0..8 {
                if st.pair_obs[k][ri][si] > 0 {
                    rep.add(&format!("{}/{}->{}", PAIR_OBS[k], SRC_NAMES[si], ROLE_NAMES[ri]), st.pair_obs[k][ri][si]);
                }
            }
        }
    }
    for ((had, val), n) in &st.lp_obs {
        rep.add(&format!("obs/ibgp-local-pref-value/{}/{:?}", if *had { "stored-200" } else { "absent" }, val), *n);
    }
    if thorough {
        rep.notes.push("export: production-sink cross-check (PendingTx) is run in the quick tier only".into());
    } else {
        rep.add("export/pendingtx-differs-from-recording-sink", sh.pending_mismatch.load(AOrd::Relaxed));
        rep.notes.push(format!("export: production sink cross-check (every case): the reach entries PendingTx::drain_messages produces differ from what the recording sink was handed in {} cases", sh.pending_mismatch.load(AOrd::Relaxed)));
    }
    rep.notes.push("assume: cluster_id handed to process_nlri_change is derived as accept_connection does (Some(explicit or router-id) for iBGP receivers, None otherwise); receiver local_asn = confederation id for Ebgp/RsClient sessions when a confederation is configured (Global::add_peer)".into());
    rep.notes.push("assume: a locally originated route with an explicit (non-unspecified) next hop may keep it towards eBGP peers (third-party next hop); a missing or, for local/kernel routes, unspecified next hop may be replaced by self towards iBGP peers; Flowspec carries no next hop".into());
}

// ---------------------------------------------------------------------------
// entry point
// ---------------------------------------------------------------------------
pub(crate) fn run(replay: Option<&str>) -> Report {
    let mut rep = Report::new("C09", "hd-c09");
    rep.rule = "export: a case = one tuple (source kind, receiver role, RR config, confederation, add-path max, attribute presence set, AS_PATH shape, next-hop kind, export policy, LLGR-stale) that is feasible in the daemon and canonical; tuples are distinct by construction, distinct_nontrivial counts distinct observed outcomes (receiver role, per path: advertised?, next hop, full attribute vector) plus distinct inbound inputs (AS_PATH bytes x session config; rx_update / live-session tuples)".into();
    if let Some(case) = replay {
        return replay_case(rep, case);
    }
    let thorough = rep.thorough();
    run_export(&mut rep, thorough);
    for c in ["x:0.2.1.0.0.255.3.0.0.0", "x:3.2.2.1.1.44.6.2.3.1", "x:5.0.0.1.0.2.7.5.1.0", "x:2.4.1.1.1.128.4.1.4.1"] {
        if let Some(c) = Case::parse(c) {
            rep.samples.push(c.to_string());
        }
    }
    run_inbound_aspath(&mut rep, thorough);
    run_inbound_rx_update(&mut rep, thorough);
    run_inbound_live(&mut rep, thorough);
    rep
}

fn replay_case(mut rep: Report, case: &str) -> Report {
    if let Some(c) = Case::parse(case) {
        if !c.feasible() {
            rep.machinery_error = Some(format!("replay: case {case} is not feasible/canonical"));
            return rep;
        }
        let sh = Shared::new();
        let mut loc = Local { rep: Report::new("C09", "hd-c09"), st: Stats::default() };
        eval_case(&c, &mut loc, &sh, true, true);
        rep.merge(loc.rep);
        rep.distinct_nontrivial = sh.distinct();
        return rep;
    }
    if case.starts_with("in-") {
        return replay_inbound(rep, case);
    }
    rep.machinery_error = Some(format!("replay: cannot parse case {case:?}"));
    rep
}

// ---------------------------------------------------------------------------
// Part B1: is_as_loop at function level
// ---------------------------------------------------------------------------
const SEG_NAMES: [&str; 5] = ["?", "set", "seq", "confed-seq", "confed-set"];

/// (label, session local AS, confederation id) as PeerSession holds them
fn loop_cfgs() -> Vec<(&'static str, u32, u32)> {
    vec![
        ("noconfed", M_AS, 0),
        ("confed-internal-session", M_AS, CONFED_ID),
        ("confed-external-session", CONFED_ID, CONFED_ID),
    ]
}

fn needle_name(asn: u32, local_asn: u32, cid: u32) -> &'static str {
    if asn == local_asn && asn == cid {
        "session-local-as=confed-id"
    } else if asn == local_asn {
        "session-local-as"
    } else if cid != 0 && asn == cid {
        "confed-id"
    } else if asn == M_AS {
        "member-as-on-external-session"
    } else if asn == MEMBER_PEER_AS {
        "other-member-as"
    } else {
        "foreign-as"
    }
}

/// All AS_PATH layouts of the bounded space, with `needle` at every position
/// (and once without it): 1..=3 segments, each of the four types, each 1..=3
/// ASes long; plus full 255-AS first/second segments.
fn loop_paths(needle: u32, thorough: bool) -> Vec<(Segs, Option<(usize, usize)>)> {
    let mut out = Vec::new();
    let lens: &[usize] = if thorough { &[1, 2, 3] } else { &[1, 3] };
    let max_seg = 3;
    for nseg in 1..=max_seg {
        let tdims = vec![4usize; nseg];
        let ldims = vec![lens.len(); nseg];
        for ti in 0..crate::verif::vx::enumr::product_size(&tdims) {
            let ts = crate::verif::vx::enumr::digits(ti, &tdims);
            for li in 0..crate::verif::vx::enumr::product_size(&ldims) {
                let ls = crate::verif::vx::enumr::digits(li, &ldims);
                let mut filler = 70_000u32;
                let base: Segs = (0..nseg)
                    .map(|k| {
                        let v: Vec<u32> = (0..lens[ls[k]])
                            .map(|_| {
                                filler += 1;
                                filler
                            })
                            .collect();
                        ((ts[k] + 1) as u8, v)
                    })
                    .collect();
                out.push((base.clone(), None));
                for k in 0..nseg {
                    for pos in 0..base[k].1.len() {
                        let mut p = base.clone();
                        p[k].1[pos] = needle;
                        out.push((p, Some((k, pos))));
                    }
                }
            }
        }
    }
    // full segments
    for t in 1..=4u8 {
        for pos in [0usize, 127, 254] {
            let mut v = long_seq();
            v[pos] = needle;
            out.push((vec![(t, v.clone())], Some((0, pos))));
            out.push((vec![(t, v), (T_SEQ, vec![70_001])], Some((0, pos))));
            out.push((vec![(t, long_seq()), (T_SEQ, vec![needle])], Some((1, 0))));
        }
    }
    out
}

fn eval_as_loop(segs: &Segs, at: Option<(usize, usize)>, needle: u32, cfg: (&str, u32, u32), rep: &mut Report, fp: &mut u64, verbose: bool) {
    let (label, local_asn, cid) = cfg;
    let bytes = encode_segs(segs);
    let case = format!("in-fn:{label}:{needle}:{}", report::hex(&bytes));
    let attr: Attrs = Arc::new(vec![Attr::new_with_value(Attr::ORIGIN, 0).unwrap(), Attr::new_with_bin(Attr::AS_PATH, bytes).unwrap()]);
    rep.evaluations += 1;
    let got = report::catch(|| is_as_loop(&attr, local_asn, cid));
    // reference: plain scan of every AS of every segment
    let contains = |a: u32| segs.iter().any(|(_, v)| v.contains(&a));
    let must = contains(local_asn) || (cid != 0 && contains(cid));
    if verbose {
        eprintln!("is_as_loop(path={}, local_asn={local_asn}, confed_id={cid}) = {:?}; reference: loop={must}", segs_brief(segs), got);
    }
    let kind = at.map(|(k, _)| format!("{}-in-{}", needle_name(needle, local_asn, cid), SEG_NAMES[segs[k].0 as usize])).unwrap_or_else(|| "no-needle".into());
    match got {
        Err(e) => {
            if must {
                rep.violation(Violation { sig: format!("C09/inbound-loop/as-path-panic/{kind}"), what: format!("is_as_loop panicked on a looping AS_PATH: {e}"), case });
            } else {
                rep.add("obs/inbound/is_as_loop-panic-on-loop-free-path", 1);
            }
        }
        Ok(true) => {
            *fp += 1;
            if !must {
                rep.add(&format!("obs/inbound/loop-reported-without-local-as/{label}/{kind}"), 1);
            }
        }
        Ok(false) => {
            if must {
                rep.violation(Violation {
                    sig: format!("C09/inbound-loop/as-path/{kind}/{label}"),
                    what: format!("AS_PATH {} contains AS {needle} (session local AS {local_asn}, confederation id {cid}) but is_as_loop returns false: the UPDATE would be installed", segs_brief(segs)),
                    case,
                });
            } else if at.is_some() && needle == M_AS && local_asn != M_AS {
                rep.add(&format!("obs/inbound/member-as-on-external-session-not-a-loop/{}", SEG_NAMES[segs[at.unwrap().0].0 as usize]), 1);
            }
        }
    }
}

fn run_inbound_aspath(rep: &mut Report, thorough: bool) {
    let mut distinct: HashSet<(Vec<u8>, u32, u32)> = HashSet::new();
    let mut n = 0u64;
    let mut loops = 0u64;
    let mut sub = Report::new("C09", "hd-c09");
    for cfg in loop_cfgs() {
        let mut needles = vec![cfg.1];
        for a in [cfg.2, M_AS, MEMBER_PEER_AS] {
            if a != 0 && !needles.contains(&a) {
                needles.push(a);
            }
        }
        for needle in needles {
            for (segs, at) in loop_paths(needle, thorough) {
                eval_as_loop(&segs, at, needle, cfg, &mut sub, &mut loops, false);
                distinct.insert((encode_segs(&segs), cfg.1, cfg.2));
                n += 1;
            }
        }
    }
    // absent AS_PATH attribute: nothing to loop on
    let none: Attrs = Arc::new(vec![Attr::new_with_value(Attr::ORIGIN, 0).unwrap()]);
    if report::catch(|| is_as_loop(&none, M_AS, CONFED_ID)).unwrap_or(true) {
        sub.add("obs/inbound/loop-reported-without-as-path", 1);
    }
    sub.distinct_nontrivial = distinct.len() as u64;
    rep.notes.push(format!(
        "inbound/is_as_loop: {n} calls over 3 session configs (no confederation; confederation, internal session; confederation, external session) x needle AS in {{session local AS, confederation id, member AS, other member AS}} x all layouts of 1..=3 segments x 4 segment types x lengths {} x every needle position + full 255-AS segments; {} distinct (path, config) inputs; {loops} calls reported a loop",
        if thorough { "{1,2,3}" } else { "{1,3}" },
        distinct.len()
    ));
    rep.notes.push("assume: on an Ebgp/RsClient session inside a confederation the session's local AS is the confederation id (Global::add_peer); the member AS appearing in a path received there is not asserted to be a loop (RFC 5065 4: member AS numbers are not visible outside) -- counted under obs/inbound/member-as-on-external-session-not-a-loop".into());
    rep.merge(sub);
}

fn replay_inbound_fn(mut rep: Report, case: &str) -> Report {
    // in-fn:<label>:<needle>:<hex path>
    let parts: Vec<&str> = case.split(':').collect();
    if parts.len() != 4 {
        rep.machinery_error = Some(format!("replay: bad case {case}"));
        return rep;
    }
    let Some(cfg) = loop_cfgs().into_iter().find(|c| c.0 == parts[1]) else {
        rep.machinery_error = Some(format!("replay: unknown config {}", parts[1]));
        return rep;
    };
    let needle: u32 = parts[2].parse().unwrap_or(0);
    let segs = match parse_segs(&report::unhex(parts[3])) {
        Ok(s) => s,
        Err(e) => {
            rep.machinery_error = Some(format!("replay: bad path: {e}"));
            return rep;
        }
    };
    let at = segs.iter().enumerate().find_map(|(k, (_, v))| v.iter().position(|a| *a == needle).map(|p| (k, p)));
    let mut fp = 0;
    eval_as_loop(&segs, at, needle, cfg, &mut rep, &mut fp, true);
    rep
}

// ---------------------------------------------------------------------------
// Part B2: PeerSession::rx_update (ORIGINATOR_ID / CLUSTER_LIST loop checks)
// into a real TableManager
// ---------------------------------------------------------------------------
const ORIG_NAMES: [&str; 3] = ["absent", "local-router-id", "other"];
const CL_NAMES: [&str; 6] = ["absent", "only-local", "local-last", "local-first", "local-middle", "foreign-only"];
const RX_DIMS: [usize; 6] = [5, 3, 2, 3, 6, 2]; // role rr confed orig cl pre

fn make_ctx() -> Arc<std::sync::Mutex<PeerContext>> {
    // body of event::tests::make_context (a private test helper)
    let fsm = crate::fsm::PeerFsm::new(u32::from(router_id()), M_AS, vec![], 90, 0, FnvHashMap::default());
    let conn_arbiter = Arc::new(std::sync::Mutex::new(ConnArbiter::new(fsm)));
    Arc::new(std::sync::Mutex::new(PeerContext {
        conn_arbiter,
        active_connect_cancel_tx: None,
        active_connect_join_handle: None,
        gr_state: crate::gr::GrState::new(),
        gr_restart_timer: None,
        llgr_family_timers: FnvHashMap::default(),
        rtc_state: crate::rtc::RtcState::new(),
        rtc_eor_timer: None,
    }))
}

fn session_cluster_id(role: PeerRole, rr: usize) -> Option<Ipv4Addr> {
    match role {
        PeerRole::Ibgp | PeerRole::IbgpRrClient => Some(if rr == 2 { expl_cluster() } else { router_id() }),
        _ => None,
    }
}

/// cluster-id the router would use by configuration (also for sessions where
/// the code keeps none): explicit when configured, router-id otherwise
fn configured_cluster_id(rr: usize) -> Ipv4Addr {
    if rr == 2 { expl_cluster() } else { router_id() }
}

fn cl_bytes(variant: usize, cid: Ipv4Addr) -> Option<Vec<u8>> {
    let c = cid.octets();
    let x = [7u8, 7, 7, 7];
    let y = [8u8, 8, 8, 8];
    let parts: Vec<[u8; 4]> = match variant {
        0 => return None,
        1 => vec![c],
        2 => vec![x, c],
        3 => vec![c, x],
        4 => vec![x, c, y],
        _ => vec![x, y],
    };
    Some(parts.concat())
}

/// benign AS_PATH a peer of `role` would send (no local AS, no confederation id)
fn benign_segs(role: PeerRole) -> Segs {
    match role {
        PeerRole::Ebgp => vec![(T_SEQ, vec![EBGP_PEER_AS, 65200])],
        PeerRole::RsClient => vec![(T_SEQ, vec![RS_PEER_AS, 65200])],
        PeerRole::Ibgp | PeerRole::IbgpRrClient => vec![(T_SEQ, vec![65200])],
        PeerRole::ConfedEbgp => vec![(T_CSEQ, vec![MEMBER_PEER_AS]), (T_SEQ, vec![65200])],
    }
}

fn rx_attrs(role: PeerRole, med: u32, orig: Option<u32>, cl: Option<Vec<u8>>) -> Attrs {
    let mut v = vec![
        Attr::new_with_value(Attr::ORIGIN, 0).unwrap(),
        Attr::new_with_bin(Attr::AS_PATH, encode_segs(&benign_segs(role))).unwrap(),
        Attr::new_with_value(Attr::MULTI_EXIT_DESC, med).unwrap(),
    ];
    if matches!(role, PeerRole::Ibgp | PeerRole::IbgpRrClient | PeerRole::ConfedEbgp) {
        v.push(Attr::new_with_value(Attr::LOCAL_PREF, 100).unwrap());
    }
    if let Some(o) = orig {
        v.push(Attr::new_with_value(Attr::ORIGINATOR_ID, o).unwrap());
    }
    if let Some(c) = cl {
        v.push(Attr::new_with_bin(Attr::CLUSTER_LIST, c).unwrap());
    }
    Arc::new(v)
}

type RibDump = Vec<(String, IpAddr, Vec<Attr>)>;

fn rib_dump(tables: &TableHandle) -> RibDump {
    let mut out: RibDump = Vec::new();
    for ch in tables.collect_loc_rib_paths(Family::IPV4) {
        for p in ch.current_paths.iter() {
            out.push((ch.net.to_string(), p.source.remote_addr, (*p.attr).clone()));
        }
    }
    out.sort_by(|a, b| (a.0.as_str(), a.1).cmp(&(b.0.as_str(), b.1)));
    out
}

fn attrs_have_originator(attrs: &[Attr], rid: Ipv4Addr) -> bool {
    attrs.iter().any(|a| a.code() == Attr::ORIGINATOR_ID && a.value() == Some(u32::from(rid)))
}

fn attrs_have_cluster(attrs: &[Attr], cid: Ipv4Addr) -> bool {
    attrs
        .iter()
        .any(|a| a.code() == Attr::CLUSTER_LIST && a.binary().is_some_and(|b| b.chunks(4).any(|c| c == cid.octets())))
}

fn rx_case_string(d: &[usize]) -> String {
    format!(
        "in-rx:{} (session {} rr={} confed={} originator={} cluster-list={} pre-existing={})",
        d.iter().map(|x| x.to_string()).collect::<Vec<_>>().join("."),
        ROLE_NAMES[d[0]],
        RR_NAMES[d[1]],
        d[2],
        ORIG_NAMES[d[3]],
        CL_NAMES[d[4]],
        d[5]
    )
}

fn rx_feasible(d: &[usize]) -> bool {
    let role = ROLES[d[0]];
    if role == PeerRole::ConfedEbgp && d[2] == 0 {
        return false;
    }
    if role == PeerRole::IbgpRrClient && d[1] == 0 {
        return false;
    }
    true
}

fn eval_rx(d: &[usize], rt: &tokio::runtime::Runtime, rep: &mut Report, verbose: bool) {
    let role = ROLES[d[0]];
    let confed = d[2] == 1;
    let cid_cfg = configured_cluster_id(d[1]);
    let case = rx_case_string(d);
    rep.evaluations += 1;
    let remote: IpAddr = IpAddr::V4(Ipv4Addr::new(10, 3, 0, 1));
    let p0: packet::Nlri = "10.0.1.0/24".parse().unwrap();
    let q0: packet::Nlri = "10.0.2.0/24".parse().unwrap();
    let orig = match d[3] {
        0 => None,
        1 => Some(u32::from(router_id())),
        _ => Some(STORED_ORIG),
    };
    let cl = cl_bytes(d[4], cid_cfg);
    let res = report::catch(|| {
        rt.block_on(async {
            let tables = make_tables(1);
            let mut s = PeerSession::new_for_test(remote, make_ctx(), tables.clone());
            s.export_ctx.role = role;
            s.export_ctx.local_asn = sess_local_asn(role, confed);
            s.export_ctx.confederation_id = if confed { CONFED_ID } else { 0 };
            s.local_router_id = router_id();
            s.cluster_id = session_cluster_id(role, d[1]);
            s.source.insert(Family::IPV4, mk_peer_source(role, remote, Ipv4Addr::new(10, 3, 0, 1), confed));
            let nh = Some(bgp::Nexthop::V4(Ipv4Addr::new(192, 0, 2, 1)));
            if d[5] == 1 {
                let reach = bgp::ReachNlri { family: Family::IPV4, entries: vec![packet::PathNlri::new(p0.clone())], nexthop: nh };
                s.rx_update(Some(reach), None, rx_attrs(role, 1, None, None), 0).await;
            }
            let before = rib_dump(&tables);
            let reach = bgp::ReachNlri { family: Family::IPV4, entries: vec![packet::PathNlri::new(p0.clone()), packet::PathNlri::new(q0.clone())], nexthop: nh };
            s.rx_update(Some(reach), None, rx_attrs(role, 2, orig, cl.clone()), 0).await;
            let after = rib_dump(&tables);
            (before, after)
        })
    });
    let (before, after) = match res {
        Ok(x) => x,
        Err(e) => {
            rep.violation(Violation { sig: format!("C09/inbound-loop/rx-update-panic/{}", ROLE_NAMES[d[0]]), what: format!("rx_update panicked: {e}"), case });
            return;
        }
    };
    if d[5] == 1 && before.len() != 1 {
        rep.machinery_error = Some(format!("rx_update control: benign UPDATE not installed ({} paths) in {case}", before.len()));
    }
    let is_ibgp = matches!(role, PeerRole::Ibgp | PeerRole::IbgpRrClient);
    let orig_loop = d[3] == 1;
    let cl_has_local = (1..=4).contains(&d[4]);
    if verbose {
        eprintln!("{case}\n  session cluster_id={:?} router-id={} configured cluster-id={cid_cfg}", session_cluster_id(role, d[1]), router_id());
        eprintln!("  RIB before: {:?}", before.iter().map(|x| (x.0.clone(), brief_attrs(&Arc::new(x.2.clone())))).collect::<Vec<_>>());
        eprintln!("  RIB after : {:?}", after.iter().map(|x| (x.0.clone(), brief_attrs(&Arc::new(x.2.clone())))).collect::<Vec<_>>());
    }
    let mut installed_loop = false;
    if orig_loop && after.iter().any(|p| attrs_have_originator(&p.2, router_id())) {
        installed_loop = true;
        rep.violation(Violation {
            sig: format!("C09/inbound-loop/originator-id/{}", ROLE_NAMES[d[0]]),
            what: format!("UPDATE whose ORIGINATOR_ID is the local router-id {} was installed ({} path(s) in the RIB carry it)", router_id(), after.iter().filter(|p| attrs_have_originator(&p.2, router_id())).count()),
            case: case.clone(),
        });
    }
    if cl_has_local && after.iter().any(|p| attrs_have_cluster(&p.2, cid_cfg)) {
        installed_loop = true;
        if is_ibgp {
            rep.violation(Violation {
                sig: format!("C09/inbound-loop/cluster-list/{}/{}", CL_NAMES[d[4]], ROLE_NAMES[d[0]]),
                what: format!("UPDATE whose CLUSTER_LIST contains the local cluster-id {cid_cfg} was installed"),
                case: case.clone(),
            });
        } else {
            // the daemon keeps no cluster-id for non-iBGP sessions; not asserted
            rep.add(&format!("obs/inbound/cluster-list-with-configured-cluster-id-installed-on-non-ibgp-session/{}", ROLE_NAMES[d[0]]), 1);
        }
    }
    if orig_loop || (cl_has_local && is_ibgp) {
        if !installed_loop && before == after {
            rep.add("inbound/rx-update/looping-update-left-rib-unchanged", 1);
        } else if !installed_loop {
            rep.add("obs/inbound/rx-update/looping-update-changed-rib-without-installing-loop-attrs", 1);
        }
    } else if after.len() == 2 {
        rep.add("inbound/rx-update/loop-free-update-installed", 1);
    } else {
        rep.add("obs/inbound/rx-update/loop-free-update-not-installed", 1);
    }
}

fn run_inbound_rx_update(rep: &mut Report, _thorough: bool) {
    let rt = runtime();
    let mut sub = Report::new("C09", "hd-c09");
    let n = crate::verif::vx::enumr::product_size(&RX_DIMS);
    let mut distinct: HashSet<Vec<usize>> = HashSet::new();
    for i in 0..n {
        let d = crate::verif::vx::enumr::digits(i, &RX_DIMS);
        if !rx_feasible(&d) {
            continue;
        }
        // RR config only matters through the cluster-id: for non-iBGP sessions
        // keep none/explicit (the configured id differs), drop 'default'
        if !matches!(ROLES[d[0]], PeerRole::Ibgp | PeerRole::IbgpRrClient) && d[1] == 1 {
            continue;
        }
        if !distinct.insert(d.clone()) {
            continue;
        }
        eval_rx(&d, &rt, &mut sub, false);
    }
    sub.distinct_nontrivial = distinct.len() as u64;
    rep.notes.push(format!(
        "inbound/rx_update: {} cases = session role x RR config x confederation x ORIGINATOR_ID {{absent, = local router-id, other}} x CLUSTER_LIST {{absent, only local cluster-id, local last/first/middle, foreign only}} x {{empty RIB, route for the same prefix already installed}}, each through PeerSession::rx_update (new_for_test session configured as accept_connection would) into a TableManager; RIB dumped before/after",
        distinct.len()
    ));
    rep.notes.push("assume: CLUSTER_LIST containing the configured cluster-id is asserted to be a loop only on iBGP sessions (the daemon keeps a cluster-id only there; RFC 4456 defines the check for IBGP-learned routes); installs on other session kinds are counted under obs/inbound/cluster-list-with-configured-cluster-id-installed-on-non-ibgp-session".into());
    rep.merge(sub);
}

// ---------------------------------------------------------------------------
// Part B3: covering subset as real UPDATE bytes over a loopback session
// (accept_connection + PeerSession::run; the harness plays the peer)
// ---------------------------------------------------------------------------
const LIVE_KINDS: [&str; 7] = [
    "control",
    "session-local-as-in-seq",
    "session-local-as-in-set",
    "confed-id-in-seq",
    "member-as-in-confed-seq",
    "originator-id-local",
    "cluster-list-local",
];
const LIVE_DIMS: [usize; 4] = [5, 3, 2, 7]; // role rr confed kind

fn frame(typ: u8, body: &[u8]) -> Vec<u8> {
    let mut m = vec![0xffu8; 16];
    m.extend_from_slice(&((19 + body.len()) as u16).to_be_bytes());
    m.push(typ);
    m.extend_from_slice(body);
    m
}

fn open_bytes(asn: u32, rid: Ipv4Addr) -> Vec<u8> {
    let mut caps = vec![1u8, 4, 0, 1, 0, 1]; // MP IPv4 unicast
    caps.extend_from_slice(&[65, 4]);
    caps.extend_from_slice(&asn.to_be_bytes());
    let mut params = vec![2u8, caps.len() as u8];
    params.extend_from_slice(&caps);
    let mut b = vec![4u8];
    b.extend_from_slice(&(if asn > 65535 { 23456u16 } else { asn as u16 }).to_be_bytes());
    b.extend_from_slice(&90u16.to_be_bytes());
    b.extend_from_slice(&rid.octets());
    b.push(params.len() as u8);
    b.extend_from_slice(&params);
    frame(1, &b)
}

fn wire_attr(flags: u8, code: u8, val: &[u8]) -> Vec<u8> {
    let mut v = Vec::new();
    if val.len() > 255 {
        v.push(flags | 0x10);
        v.push(code);
        v.extend_from_slice(&(val.len() as u16).to_be_bytes());
    } else {
        v.push(flags);
        v.push(code);
        v.push(val.len() as u8);
    }
    v.extend_from_slice(val);
    v
}

/// UPDATE announcing `prefixes` (each /24, given by third octet of 10.0.x.0)
fn update_bytes(role: PeerRole, segs: &Segs, med: u32, orig: Option<u32>, cl: Option<Vec<u8>>, third_octets: &[u8]) -> Vec<u8> {
    let mut attrs = Vec::new();
    attrs.extend(wire_attr(0x40, 1, &[0]));
    attrs.extend(wire_attr(0x40, 2, &encode_segs(segs)));
    attrs.extend(wire_attr(0x40, 3, &[192, 0, 2, 1]));
    attrs.extend(wire_attr(0x80, 4, &med.to_be_bytes()));
    if matches!(role, PeerRole::Ibgp | PeerRole::IbgpRrClient | PeerRole::ConfedEbgp) {
        attrs.extend(wire_attr(0x40, 5, &100u32.to_be_bytes()));
    }
    if let Some(o) = orig {
        attrs.extend(wire_attr(0x80, 9, &o.to_be_bytes()));
    }
    if let Some(c) = cl {
        attrs.extend(wire_attr(0x80, 10, &c));
    }
    let mut b = vec![0u8, 0];
    b.extend_from_slice(&(attrs.len() as u16).to_be_bytes());
    b.extend_from_slice(&attrs);
    for o in third_octets {
        b.extend_from_slice(&[24, 10, 0, *o]);
    }
    frame(2, &b)
}

fn live_case_string(d: &[usize]) -> String {
    format!(
        "in-live:{} (session {} rr={} confed={} update={})",
        d.iter().map(|x| x.to_string()).collect::<Vec<_>>().join("."),
        ROLE_NAMES[d[0]],
        RR_NAMES[d[1]],
        d[2],
        LIVE_KINDS[d[3]]
    )
}

fn live_feasible(d: &[usize]) -> bool {
    let role = ROLES[d[0]];
    let ibgp = matches!(role, PeerRole::Ibgp | PeerRole::IbgpRrClient);
    if role == PeerRole::ConfedEbgp && d[2] == 0 {
        return false;
    }
    if role == PeerRole::IbgpRrClient && d[1] == 0 {
        return false;
    }
    if !ibgp && d[1] == 1 {
        return false; // same configured cluster-id as 'none'
    }
    match d[3] {
        // confederation id distinct from the session's local AS only on internal sessions of a confederation
        3 => d[2] == 1 && sess_local_asn(role, true) != CONFED_ID,
        4 => d[2] == 1 && sess_local_asn(role, true) == M_AS,
        _ => true,
    }
}

/// wait until `cond` holds; expiry is a machinery error, never a verdict
async fn wait_for(what: &str, mut cond: impl FnMut() -> bool) -> Result<(), String> {
    let deadline = tokio::time::Instant::now() + Duration::from_secs(20);
    while !cond() {
        if tokio::time::Instant::now() > deadline {
            return Err(format!("timeout waiting for {what}"));
        }
        tokio::time::sleep(Duration::from_millis(1)).await;
    }
    Ok(())
}

struct LiveOut {
    after_control: RibDump,
    after_loop: RibDump,
}

async fn live_session(d: &[usize]) -> Result<LiveOut, String> {
    use tokio::io::AsyncWriteExt;
    let role = ROLES[d[0]];
    let confed = d[2] == 1;
    let global = make_global();
    let tables = make_tables(1);
    let listener = tokio::net::TcpListener::bind("127.0.0.1:0").await.map_err(|e| e.to_string())?;
    let addr = listener.local_addr().map_err(|e| e.to_string())?;
    let (client, server) = tokio::join!(tokio::net::TcpStream::connect(addr), listener.accept());
    let mut client = client.map_err(|e| e.to_string())?;
    let server = server.map_err(|e| e.to_string())?.0;
    let remote_addr = client.local_addr().map_err(|e| e.to_string())?.ip();
    let counter_rx;
    {
        let mut g = global.write().await;
        g.asn = M_AS;
        g.router_id = router_id();
        if confed {
            g.confederation = Some(ConfederationConfig { id: CONFED_ID, members: MEMBERS.iter().copied().collect() });
        }
        let mut p = default_peer_params(remote_addr);
        p.expected_remote_asn = remote_asn_of(role);
        p.rs_client = role == PeerRole::RsClient;
        p.route_reflector = RouteReflectorConfig {
            route_reflector_client: role == PeerRole::IbgpRrClient,
            route_reflector_cluster_id: if d[1] == 2 { Some(expl_cluster()) } else { None },
        };
        g.add_peer(p, None).map_err(|_| "add_peer failed".to_string())?;
        counter_rx = Arc::clone(&g.peers[&remote_addr].counter_rx);
    }
    let session = accept_connection(&global, &tables, server, crate::fsm::Role::Passive).await.ok_or("accept_connection refused the connection")?;
    if session.export_ctx.role != role {
        return Err(format!("session got role {:?}, wanted {:?}", session.export_ctx.role, role));
    }
    let (active_tx, _active_rx) = mpsc::unbounded_channel::<TcpStream>();
    let g2 = Arc::clone(&global);
    let h = tokio::spawn(async move { session.run(g2, active_tx).await });

    let local_as = sess_local_asn(role, confed);
    let cid = configured_cluster_id(d[1]);
    let mut segs = benign_segs(role);
    let mut orig = None;
    let mut cl = None;
    match d[3] {
        1 => segs.last_mut().unwrap().1.push(local_as),
        2 => segs.push((T_SET, vec![65300, local_as])),
        3 => segs.last_mut().unwrap().1.push(CONFED_ID),
        4 => {
            if segs[0].0 == T_CSEQ {
                segs[0].1.push(M_AS)
            } else {
                segs.insert(0, (T_CSEQ, vec![MEMBER_PEER_AS, M_AS]))
            }
        }
        5 => orig = Some(u32::from(router_id())),
        6 => cl = Some(cl_bytes(2, cid).unwrap()),
        _ => {}
    }
    let ka = frame(4, &[]);
    client.write_all(&open_bytes(remote_asn_of(role), Ipv4Addr::new(10, 9, 9, 9))).await.map_err(|e| e.to_string())?;
    client.write_all(&ka).await.map_err(|e| e.to_string())?;
    // benign UPDATE for 10.0.1.0/24, then a KEEPALIVE as barrier (frames are handled in order)
    client.write_all(&update_bytes(role, &benign_segs(role), 1, None, None, &[1])).await.map_err(|e| e.to_string())?;
    client.write_all(&ka).await.map_err(|e| e.to_string())?;
    let done = |h: &tokio::task::JoinHandle<()>| h.is_finished();
    wait_for("second KEEPALIVE to be counted (control UPDATE processed)", || counter_rx.keepalive.load(Ordering::Relaxed) >= 2 || done(&h)).await?;
    if done(&h) {
        return Err("session terminated during the control UPDATE".into());
    }
    let after_control = rib_dump(&tables);
    // the UPDATE under test: same prefix (different MED) and a new prefix
    client.write_all(&update_bytes(role, &segs, 2, orig, cl, &[1, 2])).await.map_err(|e| e.to_string())?;
    client.write_all(&ka).await.map_err(|e| e.to_string())?;
    wait_for("third KEEPALIVE to be counted (UPDATE under test processed)", || counter_rx.keepalive.load(Ordering::Relaxed) >= 3 || done(&h)).await?;
    if done(&h) {
        return Err("session terminated during the UPDATE under test".into());
    }
    let after_loop = rib_dump(&tables);
    drop(client);
    tokio::time::timeout(Duration::from_secs(20), h).await.map_err(|_| "session task did not end after EOF".to_string())?.map_err(|e| e.to_string())?;
    Ok(LiveOut { after_control, after_loop })
}

fn eval_live(d: &[usize], rt: &tokio::runtime::Runtime, rep: &mut Report, verbose: bool) {
    let case = live_case_string(d);
    let role = ROLES[d[0]];
    let confed = d[2] == 1;
    rep.evaluations += 1;
    let out = match report::catch(|| rt.block_on(live_session(d))) {
        Ok(Ok(o)) => o,
        Ok(Err(e)) if e.starts_with("session got role") => {
            // the session's role decides which propagation rules apply to it: a neighbour
            // configured as iBGP / RR client / RS client / eBGP that is given another role is
            // treated by the wrong rules (split horizon, next hop, CLUSTER_LIST check, ...)
            rep.violation(Violation { sig: format!("C09/session-role-derivation/{}{}", ROLE_NAMES[role_idx(role)], if confed { "/confed" } else { "" }), what: format!("{e} (neighbour configuration {}{})", ROLE_NAMES[role_idx(role)], if confed { ", inside a confederation whose member list names the local AS" } else { "" }), case });
            return;
        }
        Ok(Err(e)) => {
            rep.machinery_error = Some(format!("live session {case}: {e}"));
            return;
        }
        Err(e) => {
            rep.violation(Violation { sig: format!("C09/inbound-loop/live-panic/{}", LIVE_KINDS[d[3]]), what: format!("session panicked: {e}"), case });
            return;
        }
    };
    if verbose {
        eprintln!("{case}");
        eprintln!("  RIB after control: {:?}", out.after_control.iter().map(|x| (x.0.clone(), brief_attrs(&Arc::new(x.2.clone())))).collect::<Vec<_>>());
        eprintln!("  RIB after test   : {:?}", out.after_loop.iter().map(|x| (x.0.clone(), brief_attrs(&Arc::new(x.2.clone())))).collect::<Vec<_>>());
    }
    if out.after_control.len() != 1 {
        rep.machinery_error = Some(format!("live control UPDATE not installed ({} paths) in {case}", out.after_control.len()));
        return;
    }
    let local_as = sess_local_asn(role, confed);
    let cid = configured_cluster_id(d[1]);
    let is_ibgp = matches!(role, PeerRole::Ibgp | PeerRole::IbgpRrClient);
    let path_has = |attrs: &[Attr], asn: u32| {
        attrs.iter().any(|a| a.code() == Attr::AS_PATH && a.binary().and_then(|b| parse_segs(b).ok()).is_some_and(|s| count_as(&s, asn) > 0))
    };
    let bad: Vec<&(String, IpAddr, Vec<Attr>)> = out
        .after_loop
        .iter()
        .filter(|p| match d[3] {
            1 | 2 => path_has(&p.2, local_as),
            3 => path_has(&p.2, CONFED_ID),
            4 => path_has(&p.2, M_AS),
            5 => attrs_have_originator(&p.2, router_id()),
            6 => attrs_have_cluster(&p.2, cid),
            _ => false,
        })
        .collect();
    match d[3] {
        0 => {
            if out.after_loop.len() == 2 {
                rep.add("inbound/live/loop-free-update-installed", 1);
            } else {
                rep.add("obs/inbound/live/loop-free-update-not-installed", 1);
            }
        }
        6 if !is_ibgp => {
            if !bad.is_empty() {
                rep.add(&format!("obs/inbound/cluster-list-with-configured-cluster-id-installed-on-non-ibgp-session/{}", ROLE_NAMES[d[0]]), 1);
            } else if out.after_loop != out.after_control {
                rep.add(&format!("obs/inbound/live/cluster-list-discarded-route-installed/{}", ROLE_NAMES[d[0]]), 1);
            }
        }
        _ => {
            if !bad.is_empty() {
                rep.violation(Violation {
                    sig: format!("C09/inbound-loop/live/{}/{}", LIVE_KINDS[d[3]], ROLE_NAMES[d[0]]),
                    what: format!("looping UPDATE ({}) received on a {} session was installed: {} path(s) in the RIB exhibit the loop condition, e.g. {} {:?}", LIVE_KINDS[d[3]], ROLE_NAMES[d[0]], bad.len(), bad[0].0, brief_attrs(&Arc::new(bad[0].2.clone()))),
                    case,
                });
            } else if out.after_loop == out.after_control {
                rep.add("inbound/live/looping-update-left-rib-unchanged", 1);
            } else {
                // e.g. ORIGINATOR_ID discarded on a plain eBGP session (RFC 7606) and the route installed without it
                rep.add(&format!("obs/inbound/live/rib-changed-without-loop-attrs/{}/{}", LIVE_KINDS[d[3]], ROLE_NAMES[d[0]]), 1);
            }
        }
    }
}

fn run_inbound_live(rep: &mut Report, _thorough: bool) {
    let rt = runtime();
    let mut sub = Report::new("C09", "hd-c09");
    let mut n = 0u64;
    for i in 0..crate::verif::vx::enumr::product_size(&LIVE_DIMS) {
        let d = crate::verif::vx::enumr::digits(i, &LIVE_DIMS);
        if !live_feasible(&d) {
            continue;
        }
        eval_live(&d, &rt, &mut sub, false);
        n += 1;
        if sub.machinery_error.is_some() {
            break;
        }
    }
    sub.distinct_nontrivial = n;
    rep.notes.push(format!(
        "inbound/live: {n} loopback sessions (accept_connection + PeerSession::run, harness-written OPEN/KEEPALIVE/UPDATE bytes, KEEPALIVE counter as barrier): session role x RR config x confederation x UPDATE kind {{control, session local AS in SEQ / in SET, confederation id in SEQ, member AS in CONFED_SEQ, ORIGINATOR_ID = router-id, CLUSTER_LIST containing the cluster-id}}; each after a benign UPDATE for the same prefix; RIB dumped after the barrier"
    ));
    rep.merge(sub);
}

fn replay_inbound(mut rep: Report, case: &str) -> Report {
    if case.starts_with("in-fn:") {
        return replay_inbound_fn(rep, case);
    }
    let (kind, rest) = case.split_at(case.find(':').map(|i| i + 1).unwrap_or(0));
    let d: Vec<usize> = rest.split_whitespace().next().unwrap_or("").split('.').filter_map(|t| t.parse().ok()).collect();
    let rt = runtime();
    match kind {
        "in-rx:" if d.len() == 6 && d.iter().zip(RX_DIMS.iter()).all(|(a, b)| a < b) && rx_feasible(&d) => eval_rx(&d, &rt, &mut rep, true),
        "in-live:" if d.len() == 4 && d.iter().zip(LIVE_DIMS.iter()).all(|(a, b)| a < b) && live_feasible(&d) => eval_live(&d, &rt, &mut rep, true),
        _ => rep.machinery_error = Some(format!("replay: cannot parse case {case:?}")),
    }
    rep
}
