// C15, daemon level: the per-session prefix-limit counter and the limit signal
// (Cease / maximum number of prefixes reached) through LIVE sessions, including a
// graceful restart of the neighbour.  Explicit-state BFS over establish / announce /
// withdraw / TCP drop / End-of-RIB / restart-timer expiry with limits 1 and 2.

use super::super::*;
use super::common::*;
use crate::verif::vx::bfs::{self, BfsCfg, Model};
use crate::verif::vx::report::Report;
use std::collections::BTreeSet;
use std::net::{IpAddr, Ipv4Addr};

const PEER: IpAddr = IpAddr::V4(Ipv4Addr::new(127, 0, 5, 1));
const F: Family = Family::IPV4;

#[derive(Clone, Debug)]
enum Op {
    Est,
    Announce(u8),
    Withdraw(u8),
    Drop,
    Eor,
    GrTimer,
}

pub(crate) struct LimModel {
    limit: u32,
    gr: bool,
    ops: Vec<Op>,
    /// a global import policy rejects prefix n<k> (it is stored, filtered, and still counts as received)
    reject: Option<u8>,
}

pub(crate) struct Sys {
    rt: tokio::runtime::Runtime,
    d: Daemon,
    conn: Option<Conn>,
    fresh: BTreeSet<u8>,
    sessions: u32,
    broken: BTreeSet<String>,
    dead: bool,
}

fn net(k: u8) -> packet::Nlri {
    packet::Nlri::V4(packet::bgp::Ipv4Net { addr: Ipv4Addr::new(10, 50 + k, 0, 0), mask: 24 })
}

fn rib_prefixes(d: &Daemon) -> BTreeSet<String> {
    d.tables.collect_paths(table::TableQuery::AdjIn(PEER), F, vec![], true).iter().map(|x| format!("{}", x.net)).collect()
}

impl Model for LimModel {
    type Sys = Sys;
    fn name(&self) -> String {
        format!("c15-live-limit{}{}{}", self.limit, if self.gr { "-gr" } else { "" }, if self.reject.is_some() { "-import-reject" } else { "" })
    }
    fn n_ops(&self) -> usize {
        self.ops.len()
    }
    fn op_name(&self, op: usize) -> String {
        match &self.ops[op] {
            Op::Est => "establish".into(),
            Op::Announce(k) => format!("announce(n{k})"),
            Op::Withdraw(k) => format!("withdraw(n{k})"),
            Op::Drop => "drop(tcp)".into(),
            Op::Eor => "eor".into(),
            Op::GrTimer => "gr_timer_expires".into(),
        }
    }
    fn init(&self) -> Sys {
        let rt = runtime();
        let d = Daemon::new(2);
        let (limit, gr) = (self.limit, self.gr);
        rt.block_on(async {
            let mut p = default_peer_params(PEER);
            p.passive = true;
            p.holdtime = 90;
            p.expected_remote_asn = 65001;
            p.families = [(F, 0u8)].into_iter().collect();
            p.prefix_limits.insert(F, limit);
            if gr {
                p.graceful_restart = Some(peer::GrPeerConfig { restart_time: 120, notification_enabled: false, families: vec![F] });
            }
            d.global.write().await.add_peer(p, None).expect("add_peer");
        });
        if let Some(k) = self.reject {
            let mut pt = table::PolicyTable::new();
            pt.add_defined_set(table::DefinedSetConfig::Prefix { name: "R".into(), prefixes: vec![table::PrefixConfig { ip_prefix: format!("{}", net(k)), mask_length_min: 24, mask_length_max: 24 }] }).expect("set");
            pt.add_statement("s", vec![table::ConditionConfig::PrefixSet("R".into(), table::MatchOption::Any)], Some(table::Disposition::Reject), table::Actions::default()).expect("stmt");
            pt.add_policy("p", vec!["s".into()]).expect("policy");
            let a = pt.build_assignment(None, "global", table::PolicyDirection::Import, table::Disposition::Accept, vec!["p".into()]).expect("assignment");
            d.tables.import_policy.store(Some(a));
        }
        Sys { rt, d, conn: None, fresh: BTreeSet::new(), sessions: 0, broken: BTreeSet::new(), dead: false }
    }
    fn step(&self, sys: &mut Sys, op: usize, out: &mut Vec<(String, String)>) -> bool {
        if sys.dead {
            return false;
        }
        let o = &self.ops[op];
        let mut cur: Vec<(String, String)> = Vec::new();
        let kind = self.op_name(op).split('(').next().unwrap_or("").to_string();
        match o {
            Op::Est => {
                if sys.conn.is_some() || sys.sessions >= 3 {
                    return false;
                }
                let gr = self.gr;
                let res = sys.rt.block_on(async {
                    let Some(mut c) = connect(&sys.d, PEER, crate::fsm::Role::Passive).await? else { return Ok::<_, String>(None) };
                    let mut caps = vec![packet::Capability::MultiProtocol(F), packet::Capability::FourOctetAsNumber(65001)];
                    if gr {
                        caps.push(packet::Capability::GracefulRestart { flags: 0, restart_time: 120, families: vec![(F, 0x80)] });
                    }
                    if c.establish(65001, 0x0a0a0a01, 90, caps).await? {
                        Ok(Some(c))
                    } else {
                        c.wait_end(true).await;
                        Ok(None)
                    }
                });
                match res {
                    Ok(Some(c)) => {
                        sys.conn = Some(c);
                        sys.sessions += 1;
                        sys.fresh.clear();
                    }
                    Ok(None) => cur.push(("C15/live/establish-refused".into(), "a regular session set-up was refused".into())),
                    Err(e) => {
                        machinery(format!("c15 establish: {e}"));
                        sys.dead = true;
                        return false;
                    }
                }
            }
            Op::Announce(k) | Op::Withdraw(k) => {
                let Some(conn) = sys.conn.as_mut() else { return false };
                let msg = if matches!(o, Op::Announce(_)) {
                    let mut path = vec![2u8, 1];
                    path.extend_from_slice(&65001u32.to_be_bytes());
                    bgp::Message::Update(bgp::Update::Reach {
                        family: F,
                        entries: vec![packet::PathNlri::new(net(*k))],
                        nexthop: Some(bgp::Nexthop::V4(Ipv4Addr::new(127, 0, 5, 1))),
                        attr: Arc::new(vec![packet::Attribute::new_with_value(packet::Attribute::ORIGIN, 0).unwrap(), packet::Attribute::new_with_bin(packet::Attribute::AS_PATH, path).unwrap()]),
                    })
                } else {
                    bgp::Message::Update(bgp::Update::Unreach { family: F, entries: vec![packet::PathNlri::new(net(*k))] })
                };
                let had = sys.fresh.contains(k);
                let distinct_before = sys.fresh.len() as u32;
                let ok = sys.rt.block_on(async { conn.send(&msg).await && conn.barrier().await });
                let must_trip = matches!(o, Op::Announce(_)) && !had && distinct_before >= self.limit;
                if ok {
                    if must_trip {
                        cur.push((format!("C15/live/limit-exceeded-silently/{kind}"), format!("{}: the session already holds {} distinct prefixes (maximum {}), a further new prefix was accepted without the limit being signalled", self.op_name(op), distinct_before, self.limit)));
                    }
                    if matches!(o, Op::Announce(_)) {
                        sys.fresh.insert(*k);
                    } else {
                        sys.fresh.remove(k);
                    }
                } else {
                    // the session ended: only legitimate when the limit had to be signalled
                    let mut c = sys.conn.take().unwrap();
                    let mut cease_max = false;
                    sys.rt.block_on(async {
                        while let Ok(Ok(Some(m))) = tokio::time::timeout(WAIT, c.read_msg()).await {
                            if let bgp::ParsedMessage::Notification(n) = m {
                                cease_max = n.notification_code() == 6 && n.notification_subcode() == 1;
                            }
                        }
                        c.wait_end(true).await;
                    });
                    if !must_trip {
                        cur.push((format!("C15/live/limit-tripped-needlessly/{kind}"), format!("{}: the session was torn down (max-prefix Cease seen: {}) although it held only {} distinct prefixes, maximum {}", self.op_name(op), cease_max, distinct_before, self.limit)));
                    } else if !cease_max {
                        cur.push(("C15/live/limit-signalled-without-cease".into(), format!("{}: the limit was reached but no Cease/maximum-prefixes NOTIFICATION was seen", self.op_name(op))));
                    }
                    sys.fresh.clear();
                }
            }
            Op::Drop => {
                let Some(mut c) = sys.conn.take() else { return false };
                sys.rt.block_on(c.wait_end(true));
                sys.fresh.clear();
            }
            Op::Eor => {
                let Some(conn) = sys.conn.as_mut() else { return false };
                let ok = sys.rt.block_on(async { conn.send(&bgp::Message::eor(F)).await && conn.barrier().await });
                if !ok {
                    let mut c = sys.conn.take().unwrap();
                    sys.rt.block_on(c.wait_end(true));
                    cur.push(("C15/live/session-lost-on-eor".into(), "the session ended while an End-of-RIB was processed".into()));
                }
            }
            Op::GrTimer => {
                if sys.conn.is_some() {
                    return false;
                }
                let d = &sys.d;
                let fired = sys.rt.block_on(async {
                    let ctx = {
                        let g = d.global.read().await;
                        g.peers.get(&PEER).map(|p| p.context.clone())
                    };
                    let Some(ctx) = ctx else { return false };
                    if !ctx.lock().unwrap().gr_restart_timer.as_ref().is_some_and(|t| !t.is_closed()) {
                        return false;
                    }
                    ctx.lock().unwrap().fire_gr_timer();
                    let c2 = ctx.clone();
                    settle(|| crate::gr::verif_gr::gr_kind(&c2.lock().unwrap().gr_state) != "PeerRestarting", "GR timer handler ran").await;
                    true
                });
                if !fired {
                    return false;
                }
            }
        }
        if take_machinery().is_some() {
            sys.dead = true;
            return false;
        }
        // ---- counter oracle (while a session is up)
        if let Some(conn) = &sys.conn {
            if let Some((_, max, c)) = conn.limits.iter().find(|(f, _, _)| *f == F) {
                let v = c.load(Ordering::Relaxed);
                let all = rib_prefixes(&sys.d).len() as u64;
                let sess = sys.fresh.len() as u64;
                if v > (1 << 63) {
                    cur.push(("C15/live/limit-counter-underflow".into(), format!("{}: the session's prefix-limit counter wrapped below zero ({v:#x})", self.op_name(op))));
                } else if v != all && v != sess && !(self.reject.is_some() && (v + 1 == all || v + 1 == sess)) {
                    // (with a rejecting import policy, counting received or accepted prefixes are both accepted)
                    cur.push((format!("C15/live/limit-counter/{kind}/{}", if v > all.max(sess) { "overcount" } else { "undercount" }), format!("{}: counter {v}, the peer has {all} prefixes in the RIB, {sess} announced by this session (maximum {max})", self.op_name(op))));
                }
            } else {
                cur.push(("C15/live/no-limit-counter".into(), "the session has no prefix-limit counter although a limit is configured".into()));
            }
        }
        // received / accepted statistics against a recount
        let stats = sys.d.tables.collect_peer_stats(&[PEER]);
        let (rx, acc) = stats.get(&PEER).and_then(|m| m.get(&F)).map(|s| (s.received, s.accepted)).unwrap_or((0, 0));
        let prefixes = rib_prefixes(&sys.d);
        let n = prefixes.len() as u64;
        let n_acc = n - self.reject.map(|k| prefixes.contains(&format!("{}", net(k))) as u64).unwrap_or(0);
        if rx != n || acc != n_acc {
            cur.push((format!("C15/live/peer-stats/{kind}"), format!("{}: received={rx} accepted={acc}, but the peer has {n} prefixes in the RIB", self.op_name(op))));
        }
        let mut now = BTreeSet::new();
        for (sig, what) in cur {
            let clause = sig.split('/').nth(2).unwrap_or("").to_string();
            if !sys.broken.contains(&clause) && !now.contains(&clause) {
                out.push((sig, what));
            }
            now.insert(clause);
        }
        sys.broken = now;
        true
    }
    fn fingerprint(&self, sys: &Sys) -> Vec<u8> {
        let mut rib: Vec<String> = Vec::new();
        for d in sys.d.tables.collect_paths(table::TableQuery::AdjIn(PEER), F, vec![], true) {
            rib.push(format!("{}:{:?}", d.net, d.paths.iter().map(|p| p.stale).collect::<Vec<_>>()));
        }
        rib.sort();
        let c = sys.conn.as_ref().and_then(|c| c.limits.first().map(|l| l.2.load(Ordering::Relaxed)));
        let armed = sys.rt.block_on(async {
            let g = sys.d.global.read().await;
            g.peers.get(&PEER).map(|p| p.context.lock().unwrap().gr_restart_timer.as_ref().is_some_and(|t| !t.is_closed())).unwrap_or(false)
        });
        format!("{:?}|{:?}|{:?}|{}|{}|{:?}|{}", rib, c, sys.fresh, sys.sessions, armed, sys.broken, sys.dead).into_bytes()
    }
    fn observe(&self, sys: &Sys) -> u64 {
        // vacuity check: (routes in the Adj-RIB-In, counter value, session up)
        let n = sys.d.tables.collect_paths(table::TableQuery::AdjIn(PEER), F, vec![], true).len() as u64;
        let c = sys.conn.as_ref().and_then(|c| c.limits.first().map(|l| l.2.load(Ordering::Relaxed))).unwrap_or(99);
        n.wrapping_mul(1000).wrapping_add(c.wrapping_mul(10)).wrapping_add(sys.conn.is_some() as u64)
    }
    fn panic_sig(&self, msg: &str) -> Option<(String, String)> {
        if msg.contains("/verif/") {
            machinery(format!("harness panic: {msg}"));
            None
        } else {
            Some((format!("C15/live/panic/{}", bfs::panic_loc(msg)), format!("the daemon panicked: {msg}")))
        }
    }
}

fn models() -> Vec<LimModel> {
    let ops = |n: u8| {
        let mut v = vec![Op::Est];
        for k in 0..n {
            v.push(Op::Announce(k));
            v.push(Op::Withdraw(k));
        }
        v.extend([Op::Drop, Op::Eor, Op::GrTimer]);
        v
    };
    vec![
        LimModel { limit: 1, gr: true, ops: ops(2), reject: None },
        LimModel { limit: 2, gr: true, ops: ops(3), reject: None },
        LimModel { limit: 1, gr: false, ops: ops(2), reject: None },
        LimModel { limit: 2, gr: false, ops: ops(3), reject: Some(1) },
    ]
}

pub(crate) fn run(replay: Option<&str>) -> Report {
    let mut rep = Report::new("C15", "hd-c15live");
    let ms = models();
    if let Some(case) = replay {
        let Some((name, hist)) = bfs::decode_case(case) else {
            rep.machinery_error = Some("bad replay case".into());
            return rep;
        };
        let Some(m) = ms.iter().find(|m| m.name() == name) else {
            rep.machinery_error = Some(format!("unknown model {name}"));
            return rep;
        };
        eprintln!("replay {}", bfs::render(m, &hist));
        rep.violations_from(bfs::replay(m, &hist, true));
        rep.evaluations = 1;
        rep.machinery_error = take_machinery();
        return rep;
    }
    let depth = if rep.thorough() { 30 } else { 7 };
    rep.rule = format!("explicit-state BFS depth {depth} over LIVE sessions with a configured prefix limit (1 and 2; with and without graceful restart): establish / announce / withdraw of 2-3 prefixes / TCP drop / End-of-RIB / restart-timer expiry; the session's prefix-limit counter against a recount of the RIB (both readings), the limit signal (Cease 6/1) exactly when a new distinct prefix would exceed the maximum, received/accepted statistics against a recount");
    for m in &ms {
        bfs::bfs(m, &BfsCfg { max_depth: depth, max_secs: if rep.thorough() { 900 } else { 25 }, ..Default::default() }, &mut rep);
        if let Some(e) = take_machinery() {
            rep.machinery_error = Some(e);
            break;
        }
    }
    rep
}
