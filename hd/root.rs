// In-crate harness root: included into the daemon crate's root as `crate::verif`
// (only for `cfg(all(test, osrg_rustybgp_verif))`).  Hosts the explorer core
// and the single test entry point that dispatches on $VERIF_PART.

#[allow(dead_code, unused_imports, clippy::all)]
pub(crate) mod vx {
    pub(crate) mod report {
        include!(concat!(env!("OSRG_RUSTYBGP_VERIF_DIR"), "/lib/vx/report.rs"));
    }
    pub(crate) mod bfs {
        include!(concat!(env!("OSRG_RUSTYBGP_VERIF_DIR"), "/lib/vx/bfs.rs"));
    }
    pub(crate) mod sched {
        include!(concat!(env!("OSRG_RUSTYBGP_VERIF_DIR"), "/lib/vx/sched.rs"));
    }
    pub(crate) mod enumr {
        include!(concat!(env!("OSRG_RUSTYBGP_VERIF_DIR"), "/lib/vx/enumr.rs"));
    }
}

/// A gate a session task passes right after on_established() (initial dump buffered, peer
/// channel registered, nothing flushed yet), and - under the key `tables + EVENTS` - each time it
/// has taken an event off its peer channel, before handling it.  Unarmed gates are no-ops.  The C01 harness arms
/// one to hold the session at exactly that point while RIB changes queue up, i.e. to produce
/// the "change delivered before the first flush of the initial dump" interleaving.
#[allow(dead_code)]
pub(crate) mod gate {
    use std::collections::HashMap;
    use std::net::IpAddr;
    use std::sync::{Arc, Mutex};

    /// key offset of the gate passed before each peer event is handled
    pub(crate) const EVENTS: usize = 1;

    struct G {
        armed: bool,
        parked: bool,
        open: bool,
        notify: Arc<tokio::sync::Notify>,
    }
    // key: (address of the daemon's TableManager, neighbour address) - explorations run in parallel
    static GATES: Mutex<Option<HashMap<(usize, IpAddr), G>>> = Mutex::new(None);

    pub(crate) fn arm(tables: usize, addr: IpAddr) {
        let mut g = GATES.lock().unwrap();
        g.get_or_insert_with(HashMap::new).insert((tables, addr), G { armed: true, parked: false, open: false, notify: Arc::new(tokio::sync::Notify::new()) });
    }
    pub(crate) fn parked(tables: usize, addr: IpAddr) -> bool {
        GATES.lock().unwrap().as_ref().and_then(|m| m.get(&(tables, addr))).is_some_and(|e| e.parked)
    }
    pub(crate) fn release(tables: usize, addr: IpAddr) {
        let mut g = GATES.lock().unwrap();
        if let Some(e) = g.as_mut().and_then(|m| m.get_mut(&(tables, addr))) {
            e.open = true;
            e.armed = false;
            e.notify.notify_one();
        }
    }
    pub(crate) fn forget(tables: usize, addr: IpAddr) {
        if let Some(m) = GATES.lock().unwrap().as_mut() {
            m.remove(&(tables, addr));
        }
    }
    pub(crate) async fn pass(tables: usize, addr: IpAddr) {
        let n = {
            let mut g = GATES.lock().unwrap();
            match g.as_mut().and_then(|m| m.get_mut(&(tables, addr))) {
                Some(e) if e.armed => {
                    e.armed = false;
                    e.parked = true;
                    e.notify.clone()
                }
                _ => return,
            }
        };
        loop {
            if GATES.lock().unwrap().as_ref().and_then(|m| m.get(&(tables, addr))).is_none_or(|e| e.open) {
                break;
            }
            n.notified().await;
        }
        forget(tables, addr);
    }
}

#[allow(dead_code, unused_imports, clippy::all)]
pub(crate) mod c17 {
    include!(concat!(env!("OSRG_RUSTYBGP_VERIF_DIR"), "/hd/c17.rs"));
}

#[test]
fn verif_entry() {
    vx::report::quiet_panics();
    let part = std::env::var("VERIF_PART").unwrap_or_default();
    let replay = std::env::var("VERIF_REPLAY").ok();
    let replay = replay.as_deref();
    let rep = match part.as_str() {
        "c07" => crate::fsm::verif_fsm::run_c07(replay),
        "c08" => crate::fsm::verif_fsm::run_c08(replay),
        "c01" => crate::event::verif_event::c01::run(replay),
        "c05" => crate::event::verif_event::c05::run(replay),
        "c09" => crate::event::verif_event::c09::run(replay),
        "c10" => crate::event::verif_event::c10::run(replay),
        "c11" => crate::event::verif_event::c11::run(replay),
        "c16" => crate::event::verif_event::c16::run(replay),
        "c18" => crate::event::verif_event::c18::run(replay),
        "c20" => crate::event::verif_event::c20::run(replay),
        "c19" => crate::event::verif_event::c19::run(replay),
        "c06tm" => crate::event::verif_event::c06::run(replay),
        "c15live" => crate::event::verif_event::c15::run(replay),
        "c14api" => crate::event::verif_event::c14api::run(replay),
        "c03drv" => crate::event::verif_event::drv::run_c03(replay),
        "c04drv" => crate::event::verif_event::drv::run_c04(replay),
        "c07live" => crate::event::verif_event::drv::run_c07(replay),
        "c18api" => crate::event::verif_event::drv::run_c18api(replay),
        "c17api" => crate::event::verif_event::drv::run_c17api(replay),
        "c16dyn" => crate::event::verif_event::drv::run_c16dyn(replay),
        "c17" => c17::run(replay),
        "c13" => crate::rpki::verif_rpki::run_c13(replay),
        "" => {
            eprintln!("verif_entry: VERIF_PART not set; nothing to do");
            return;
        }
        other => {
            eprintln!("verif_entry: unknown part {other:?}");
            std::process::exit(2);
        }
    };
    rep.finish();
    if rep.machinery_error.is_some() {
        std::process::exit(2);
    }
}
