// In-crate harness root: included into the daemon crate's root as `crate::verif`
// (only for `cfg(all(test, osrg_rustybgp_verif))`).  Hosts the explorer core
// and the single test entry point that dispatches on $VERIF_PART.

#[allow(dead_code, unused_imports, clippy::all)]
pub(crate) mod vx {
    pub(crate) mod report {
        include!(concat!(env!("OSRG_RUSTYBGP_VERIF_DIR"), "/lib/vx/report.rs"));
    }
    pub(crate) mod bfs {
        include!(concat!(env!("OSRG_RUSTYBGP_VERIF_DIR"), "/lib/vx/bfs.rs"));
    }
    pub(crate) mod sched {
        include!(concat!(env!("OSRG_RUSTYBGP_VERIF_DIR"), "/lib/vx/sched.rs"));
    }
    pub(crate) mod enumr {
        include!(concat!(env!("OSRG_RUSTYBGP_VERIF_DIR"), "/lib/vx/enumr.rs"));
    }
}

#[allow(dead_code, unused_imports, clippy::all)]
pub(crate) mod c17 {
    include!(concat!(env!("OSRG_RUSTYBGP_VERIF_DIR"), "/hd/c17.rs"));
}

#[test]
fn verif_entry() {
    vx::report::quiet_panics();
    let part = std::env::var("VERIF_PART").unwrap_or_default();
    let replay = std::env::var("VERIF_REPLAY").ok();
    let replay = replay.as_deref();
    let rep = match part.as_str() {
        "c07" => crate::fsm::verif_fsm::run_c07(replay),
        "c08" => crate::fsm::verif_fsm::run_c08(replay),
        "c01" => crate::event::verif_event::c01::run(replay),
        "c05" => crate::event::verif_event::c05::run(replay),
        "c09" => crate::event::verif_event::c09::run(replay),
        "c10" => crate::event::verif_event::c10::run(replay),
        "c11" => crate::event::verif_event::c11::run(replay),
        "c16" => crate::event::verif_event::c16::run(replay),
        "c18" => crate::event::verif_event::c18::run(replay),
        "c20" => crate::event::verif_event::c20::run(replay),
        "c19" => crate::event::verif_event::c19::run(replay),
        "c06tm" => crate::event::verif_event::c06::run(replay),
        "c15live" => crate::event::verif_event::c15::run(replay),
        "c17" => c17::run(replay),
        "c13" => crate::rpki::verif_rpki::run_c13(replay),
        "" => {
            eprintln!("verif_entry: VERIF_PART not set; nothing to do");
            return;
        }
        other => {
            eprintln!("verif_entry: unknown part {other:?}");
            std::process::exit(2);
        }
    };
    rep.finish();
    if rep.machinery_error.is_some() {
        std::process::exit(2);
    }
}
