// C14, handler level: the policy CRUD of the operator's API (the real gRPC handlers and the
// glue in Global that re-installs the global import / export assignments into the
// TableManager) against a reference that drives a PolicyTable of its own with the same
// requests.  The hx part of C14 explores PolicyTable itself; this part explores what sits
// between the API and it: after every call the assignments INSTALLED in the TableManager
// (what the import path and the sessions really evaluate) must behave like the reference's.

use super::super::*;
use super::common::*;
use crate::verif::vx::bfs::{self, BfsCfg, Model};
use crate::verif::vx::report::{Report, Violation};
use std::collections::BTreeSet;
use std::net::{IpAddr, Ipv4Addr};

#[derive(Clone, Debug)]
enum Op {
    /// AddDefinedSet (merge, or replace): prefix set X0
    SetAdd { content: u8, replace: bool },
    SetDel { all: bool },
    /// AddStatement S<n>: 0 = if prefix-set X0 then reject; 1 = set MED, accept
    StmtAdd(u8),
    StmtDel(u8),
    /// AddPolicy P<n> = [S<n>]
    PolAdd(u8),
    PolDel { n: u8, preserve: bool },
    AsgAdd { import: bool, pol: u8 },
    AsgSet { import: bool, pols: Vec<u8>, accept: bool },
    AsgDel { import: bool, all: bool, pol: u8 },
    /// SetPolicies: full reload (X0 = {12/8}, S0, P0, import assignment P0 default accept)
    Reload,
}

fn set_api(content: u8) -> api::DefinedSet {
    let p = |s: &str, lo: u32, hi: u32| api::Prefix { ip_prefix: s.to_string(), mask_length_min: lo, mask_length_max: hi };
    let prefixes = match content {
        0 => vec![p("10.0.0.0/8", 8, 8)],
        1 => vec![p("11.0.0.0/8", 8, 8)],
        _ => vec![p("12.0.0.0/8", 8, 8)],
    };
    api::DefinedSet { defined_type: api::DefinedType::Prefix as i32, name: "X0".into(), prefixes, ..Default::default() }
}

fn stmt_api(n: u8) -> api::Statement {
    if n == 0 {
        api::Statement {
            name: "S0".into(),
            conditions: Some(api::Conditions { prefix_set: Some(api::MatchSet { name: "X0".into(), r#type: 0 /* the converters number ANY / ALL / INVERT 0 / 1 / 2 */ }), rpki_result: api::ValidationState::None as i32, ..Default::default() }),
            actions: Some(api::Actions { route_action: api::RouteAction::Reject as i32, ..Default::default() }),
        }
    } else {
        api::Statement {
            name: "S1".into(),
            conditions: None,
            actions: Some(api::Actions { route_action: api::RouteAction::Accept as i32, med: Some(api::MedAction { r#type: api::med_action::Type::Replace as i32, value: 77 }), ..Default::default() }),
        }
    }
}

fn pol_api(n: u8, with_statements: bool) -> api::Policy {
    api::Policy { name: format!("P{n}"), statements: if with_statements { vec![api::Statement { name: format!("S{n}"), ..Default::default() }] } else { vec![] } }
}

fn asg_api(import: bool, pols: &[u8], accept: bool) -> api::PolicyAssignment {
    api::PolicyAssignment {
        name: "global".into(),
        direction: if import { api::PolicyDirection::Import as i32 } else { api::PolicyDirection::Export as i32 },
        policies: pols.iter().map(|n| pol_api(*n, false)).collect(),
        default_action: if accept { api::RouteAction::Accept as i32 } else { api::RouteAction::Reject as i32 },
    }
}

pub(crate) struct Sys {
    rt: tokio::runtime::Runtime,
    d: Daemon,
    rpt: table::PolicyTable,
    rimp: Option<Arc<table::PolicyAssignment>>,
    rexp: Option<Arc<table::PolicyAssignment>>,
    broken: BTreeSet<String>,
    last_ok: bool,
}

struct ApiModel {
    ops: Vec<Op>,
}

fn probes() -> Vec<packet::Nlri> {
    [10u8, 11, 12, 13].iter().map(|a| packet::Nlri::V4(packet::bgp::Ipv4Net { addr: Ipv4Addr::new(*a, 0, 0, 0), mask: 8 })).collect()
}

fn probe_src() -> Arc<table::Source> {
    Arc::new(table::Source::new(IpAddr::V4(Ipv4Addr::new(10, 9, 0, 1)), IpAddr::V4(Ipv4Addr::new(10, 9, 0, 254)), 65009, 65000, Ipv4Addr::new(10, 9, 0, 1), table::PeerRole::Ebgp))
}

fn probe_attrs() -> Arc<Vec<packet::Attribute>> {
    Arc::new(vec![
        packet::Attribute::new_with_value(packet::Attribute::ORIGIN, 0).unwrap(),
        packet::Attribute::new_with_bin(packet::Attribute::AS_PATH, vec![2, 1, 0, 0, 0xfd, 0xf1]).unwrap(),
    ])
}

/// What an assignment does to the probe routes, in the given direction: (accepted, MED afterwards) per probe.
fn behaviour(a: Option<&table::PolicyAssignment>, import: bool) -> Vec<(bool, Option<u32>)> {
    let src = probe_src();
    probes()
        .iter()
        .map(|net| {
            let attrs = probe_attrs();
            let mut nh = Some(bgp::Nexthop::V4(Ipv4Addr::new(192, 0, 2, 1)));
            let med = |a: &Arc<Vec<packet::Attribute>>| a.iter().find(|x| x.code() == packet::Attribute::MULTI_EXIT_DESC).and_then(|x| x.value());
            match a {
                None => (true, None),
                Some(a) if import => {
                    let (filtered, out) = table::apply_import(a, None, &src, net, &attrs, &mut nh);
                    (!filtered, med(&out))
                }
                Some(a) => {
                    let mut at = attrs.clone();
                    let orig = nh;
                    let d = table::apply_export(a, None, &src, net, &mut at, &mut nh, orig, false, IpAddr::V4(Ipv4Addr::new(10, 9, 0, 254)), IpAddr::V4(Ipv4Addr::new(10, 9, 0, 2)));
                    (d != table::Disposition::Reject, med(&at))
                }
            }
        })
        .collect()
}

fn names(a: Option<&table::PolicyAssignment>) -> Vec<String> {
    a.map(|a| a.policies.iter().map(|p| p.name.to_string()).collect()).unwrap_or_default()
}

impl ApiModel {
    fn op_str(&self, o: &Op) -> String {
        match o {
            Op::SetAdd { content, replace } => format!("{}(X0,{})", if *replace { "ReplaceDefinedSet" } else { "AddDefinedSet" }, ["10/8", "11/8", "12/8"][*content as usize]),
            Op::SetDel { all } => format!("DeleteDefinedSet(X0,{})", if *all { "all" } else { "10/8" }),
            Op::StmtAdd(n) => format!("AddStatement(S{n})"),
            Op::StmtDel(n) => format!("DeleteStatement(S{n})"),
            Op::PolAdd(n) => format!("AddPolicy(P{n}=[S{n}])"),
            Op::PolDel { n, preserve } => format!("DeletePolicy(P{n},all,preserve_statements={preserve})"),
            Op::AsgAdd { import, pol } => format!("AddPolicyAssignment({},P{pol})", if *import { "import" } else { "export" }),
            Op::AsgSet { import, pols, accept } => format!("SetPolicyAssignment({},{:?},default {})", if *import { "import" } else { "export" }, pols, if *accept { "accept" } else { "reject" }),
            Op::AsgDel { import, all, pol } => format!("DeletePolicyAssignment({},{})", if *import { "import" } else { "export" }, if *all { "all".to_string() } else { format!("P{pol}") }),
            Op::Reload => "SetPolicies(reload)".into(),
        }
    }

    /// the reference: the same request applied to a PolicyTable of its own, with the re-install rule of the statement
    fn apply_ref(&self, sys: &mut Sys, o: &Op) -> bool {
        use table::PolicyDirection::{Export, Import};
        let dir = |i: bool| if i { Import } else { Export };
        match o {
            Op::SetAdd { content, replace } => {
                let Ok(cfg) = crate::convert::defined_set_from_api(set_api(*content)) else { return false };
                if *replace { sys.rpt.replace_defined_set(cfg).is_ok() } else { sys.rpt.add_defined_set(cfg).is_ok() }
            }
            Op::SetDel { all } => {
                let Ok(cfg) = crate::convert::defined_set_from_api(set_api(0)) else { return false };
                sys.rpt.delete_defined_set(cfg, *all).is_ok()
            }
            Op::StmtAdd(n) => {
                let s = stmt_api(*n);
                let c = match crate::convert::conditions_from_api(s.conditions) {
                    Ok(c) => c,
                    Err(e) => {
                        if std::env::var_os("VERIF_TRACE").is_some() {
                            eprintln!("    [trace] conditions_from_api: {e:?}");
                        }
                        return false;
                    }
                };
                let Ok((d, a)) = crate::convert::disposition_from_api(s.actions) else { return false };
                let r = sys.rpt.add_statement(&s.name, c, d, a);
                if std::env::var_os("VERIF_TRACE").is_some() {
                    if let Err(e) = &r {
                        eprintln!("    [trace] add_statement: {e:?}");
                    }
                }
                r.is_ok()
            }
            Op::StmtDel(n) => sys.rpt.delete_statement(&format!("S{n}"), true, vec![], None, table::Actions::default()).is_ok(),
            Op::PolAdd(n) => sys.rpt.add_policy(&format!("P{n}"), vec![format!("S{n}")]).is_ok(),
            Op::PolDel { n, preserve } => match sys.rpt.delete_policy(&format!("P{n}"), *preserve, true, vec![]) {
                Ok((i, e)) => {
                    sys.rimp = i;
                    sys.rexp = e;
                    true
                }
                Err(_) => false,
            },
            Op::AsgAdd { import, pol } => match sys.rpt.add_assignment("global", dir(*import), table::Disposition::Accept, vec![format!("P{pol}")]) {
                Ok((d, a)) => {
                    if d == Import {
                        sys.rimp = Some(a)
                    } else {
                        sys.rexp = Some(a)
                    }
                    true
                }
                Err(_) => false,
            },
            Op::AsgSet { import, pols, accept } => {
                match sys.rpt.set_policy_assignment("global", dir(*import), if *accept { table::Disposition::Accept } else { table::Disposition::Reject }, pols.iter().map(|p| format!("P{p}")).collect()) {
                    Ok(a) => {
                        if *import {
                            sys.rimp = Some(a)
                        } else {
                            sys.rexp = Some(a)
                        }
                        true
                    }
                    Err(_) => false,
                }
            }
            Op::AsgDel { import, all, pol } => match sys.rpt.delete_policy_assignment(dir(*import), &[format!("P{pol}")], *all) {
                Ok(a) => {
                    if *import {
                        sys.rimp = a
                    } else {
                        sys.rexp = a
                    }
                    true
                }
                Err(_) => false,
            },
            Op::Reload => {
                let mut pt = table::PolicyTable::new();
                let ok = (|| {
                    pt.add_defined_set(crate::convert::defined_set_from_api(set_api(2)).ok()?).ok()?;
                    let s = stmt_api(0);
                    let c = crate::convert::conditions_from_api(s.conditions).ok()?;
                    let (d, a) = crate::convert::disposition_from_api(s.actions).ok()?;
                    pt.add_statement("S0", c, d, a).ok()?;
                    pt.add_policy("P0", vec!["S0".into()]).ok()?;
                    let (_, a) = pt.add_assignment("global", Import, table::Disposition::Accept, vec!["P0".into()]).ok()?;
                    Some(a)
                })();
                match ok {
                    Some(a) => {
                        sys.rpt = pt;
                        sys.rimp = Some(a);
                        sys.rexp = None;
                        true
                    }
                    None => false,
                }
            }
        }
    }

    async fn apply_api(&self, d: &Daemon, o: &Op) -> bool {
        use api::go_bgp_service_server::GoBgpService;
        let svc = super::super::grpc::GrpcService::new(Arc::new(tokio::sync::Notify::new()), d.active_tx.clone(), d.global.clone(), d.tables.clone());
        
        match o {
            Op::SetAdd { content, replace } => svc.add_defined_set(tonic::Request::new(api::AddDefinedSetRequest { defined_set: Some(set_api(*content)), replace: *replace })).await.is_ok(),
            Op::SetDel { all } => svc.delete_defined_set(tonic::Request::new(api::DeleteDefinedSetRequest { defined_set: Some(set_api(0)), all: *all })).await.is_ok(),
            Op::StmtAdd(n) => svc.add_statement(tonic::Request::new(api::AddStatementRequest { statement: Some(stmt_api(*n)) })).await.is_ok(),
            Op::StmtDel(n) => svc.delete_statement(tonic::Request::new(api::DeleteStatementRequest { statement: Some(api::Statement { name: format!("S{n}"), ..Default::default() }), all: true })).await.is_ok(),
            Op::PolAdd(n) => svc.add_policy(tonic::Request::new(api::AddPolicyRequest { policy: Some(pol_api(*n, true)), ..Default::default() })).await.is_ok(),
            Op::PolDel { n, preserve } => svc.delete_policy(tonic::Request::new(api::DeletePolicyRequest { policy: Some(pol_api(*n, false)), preserve_statements: *preserve, all: true })).await.is_ok(),
            Op::AsgAdd { import, pol } => svc.add_policy_assignment(tonic::Request::new(api::AddPolicyAssignmentRequest { assignment: Some(asg_api(*import, &[*pol], true)) })).await.is_ok(),
            Op::AsgSet { import, pols, accept } => svc.set_policy_assignment(tonic::Request::new(api::SetPolicyAssignmentRequest { assignment: Some(asg_api(*import, pols, *accept)) })).await.is_ok(),
            Op::AsgDel { import, all, pol } => svc.delete_policy_assignment(tonic::Request::new(api::DeletePolicyAssignmentRequest { assignment: Some(asg_api(*import, &[*pol], true)), all: *all })).await.is_ok(),
            Op::Reload => svc
                .set_policies(tonic::Request::new(api::SetPoliciesRequest {
                    defined_sets: vec![set_api(2)],
                    policies: vec![api::Policy { name: "P0".into(), statements: vec![stmt_api(0)] }],
                    assignments: vec![asg_api(true, &[0], true)],
                }))
                .await
                .is_ok(),
        }
    }
}

impl Model for ApiModel {
    type Sys = Sys;
    fn name(&self) -> String {
        "c14-api-handlers".into()
    }
    fn n_ops(&self) -> usize {
        self.ops.len()
    }
    fn op_name(&self, op: usize) -> String {
        self.op_str(&self.ops[op])
    }
    fn init(&self) -> Sys {
        Sys { rt: runtime(), d: Daemon::new(1), rpt: table::PolicyTable::new(), rimp: None, rexp: None, broken: BTreeSet::new(), last_ok: true }
    }
    fn step(&self, sys: &mut Sys, op: usize, out: &mut Vec<(String, String)>) -> bool {
        let o = &self.ops[op];
        let name = self.op_str(o);
        let kind = name.split('(').next().unwrap_or("").to_string();
        let want_ok = self.apply_ref(sys, o);
        let got_ok = sys.rt.block_on(self.apply_api(&sys.d, o));
        sys.last_ok = got_ok;
        if std::env::var_os("VERIF_TRACE").is_some() {
            eprintln!("    [trace] {name}: api ok={got_ok} ref ok={want_ok} import={:?} export={:?}", names(sys.d.tables.import_policy.load_full().as_deref()), names(sys.d.tables.export_policy.load_full().as_deref()));
        }
        let mut cur: Vec<(String, String)> = Vec::new();
        if want_ok != got_ok {
            cur.push((format!("C14/api/result/{kind}"), format!("{name}: the API call {} but the same request on a PolicyTable of its own {}", if got_ok { "succeeded" } else { "failed" }, if want_ok { "succeeds" } else { "fails" })));
        }
        // what is INSTALLED (evaluated by the import path and by every session's export) against the reference
        for import in [true, false] {
            let inst = if import { sys.d.tables.import_policy.load_full() } else { sys.d.tables.export_policy.load_full() };
            let want = if import { sys.rimp.clone() } else { sys.rexp.clone() };
            let dirn = if import { "import" } else { "export" };
            if inst.is_some() != want.is_some() {
                cur.push((
                    format!("C14/api/installed-assignment/{}/{dirn}/{kind}", if inst.is_some() { "left-installed" } else { "not-installed" }),
                    format!("after {name}: the TableManager's global {dirn} assignment is {}, the requests so far add up to {}", if inst.is_some() { format!("policies {:?}", names(inst.as_deref())) } else { "none".into() }, if want.is_some() { format!("policies {:?}", names(want.as_deref())) } else { "none".into() }),
                ));
                continue;
            }
            let (bi, bw) = (behaviour(inst.as_deref(), import), behaviour(want.as_deref(), import));
            if bi != bw || names(inst.as_deref()) != names(want.as_deref()) || inst.as_ref().map(|a| a.needs_rpki) != want.as_ref().map(|a| a.needs_rpki) {
                cur.push((
                    format!("C14/api/installed-assignment/differs/{dirn}/{kind}"),
                    format!("after {name}: the installed global {dirn} assignment (policies {:?}) gives {:?} on the probe routes 10/8 11/8 12/8 13/8, the requests so far add up to policies {:?} giving {:?}", names(inst.as_deref()), bi, names(want.as_deref()), bw),
                ));
            }
        }
        // the import path itself: a route inserted now is filtered exactly when the reference says so
        let src = probe_src();
        let want_imp = behaviour(sys.rimp.as_deref(), true);
        for (i, net) in probes().iter().enumerate() {
            sys.d.tables.insert_route(src.clone(), Family::IPV4, packet::PathNlri::new(net.clone()), Some(bgp::Nexthop::V4(Ipv4Addr::new(192, 0, 2, 1))), probe_attrs(), None, 0);
            let eligible = sys.d.tables.collect_loc_rib_paths(Family::IPV4).iter().any(|c| c.net == *net && !c.current_paths.is_empty());
            sys.d.tables.remove_route(src.clone(), Family::IPV4, packet::PathNlri::new(net.clone()), None, 0);
            if eligible != want_imp[i].0 {
                cur.push((format!("C14/api/import-path/{}/{kind}", if eligible { "accepted-but-rejected-by-policy" } else { "rejected-but-accepted-by-policy" }), format!("after {name}: a route for {net} announced now is {} by the import path; the requests so far add up to an import policy that {} it", if eligible { "accepted" } else { "filtered" }, if want_imp[i].0 { "accepts" } else { "rejects" })));
            }
        }
        let mut now = BTreeSet::new();
        for (sig, what) in cur {
            let key = sig.rsplitn(2, '/').nth(1).unwrap_or("").to_string();
            if !sys.broken.contains(&key) && !now.contains(&key) {
                out.push((sig, what));
            }
            now.insert(key);
        }
        sys.broken = now;
        true
    }
    fn fingerprint(&self, sys: &Sys) -> Vec<u8> {
        let dump = |pt: &table::PolicyTable| {
            let mut v: Vec<String> = Vec::new();
            for s in pt.iter_defined_sets() {
                if let table::DefinedSetRef::Prefix(n, s) = s {
                    let mut e: Vec<String> = s.v4.iter().map(|(a, m, _)| format!("{a}/{m}")).collect();
                    e.sort();
                    v.push(format!("set {n} {e:?}"));
                }
            }
            let mut st: Vec<String> = pt.iter_statements(String::new()).map(|s| format!("stmt {} c{} ", s.name, s.conditions.len())).collect();
            st.sort();
            v.extend(st);
            let mut po: Vec<String> = pt.iter_policies(String::new()).map(|p| format!("pol {} {:?}", p.name, p.statements.iter().map(|s| s.name.to_string()).collect::<Vec<_>>())).collect();
            po.sort();
            v.extend(po);
            v
        };
        let real = sys.rt.block_on(async { dump(&sys.d.global.read().await.ptable) });
        format!(
            "{:?}|{:?}|{:?}{:?}|{:?}{:?}|{:?}|{}",
            real,
            dump(&sys.rpt),
            names(sys.d.tables.import_policy.load_full().as_deref()),
            names(sys.d.tables.export_policy.load_full().as_deref()),
            (names(sys.rimp.as_deref()), sys.rimp.as_ref().map(|a| format!("{:?}", a.disposition))),
            (names(sys.rexp.as_deref()), sys.rexp.as_ref().map(|a| format!("{:?}", a.disposition))),
            sys.broken,
            sys.last_ok
        )
        .into_bytes()
    }
    fn observe(&self, sys: &Sys) -> u64 {
        bfs::hash128(format!("{:?}{:?}", behaviour(sys.rimp.as_deref(), true), behaviour(sys.rexp.as_deref(), false)).as_bytes()) as u64
    }
    fn panic_sig(&self, msg: &str) -> Option<(String, String)> {
        if msg.contains("/verif/") {
            machinery(format!("harness panic: {msg}"));
            None
        } else {
            Some((format!("C14/api/panic/{}", bfs::panic_loc(msg)), format!("an API handler panicked: {msg}")))
        }
    }
}

pub(crate) fn run(replay: Option<&str>) -> Report {
    let mut rep = Report::new("C14", "hd-c14api");
    let ops = vec![
        Op::SetAdd { content: 0, replace: false },
        Op::StmtAdd(0),
        Op::PolAdd(0),
        Op::AsgAdd { import: true, pol: 0 },
        Op::AsgAdd { import: false, pol: 0 },
        Op::StmtAdd(1),
        Op::PolAdd(1),
        Op::AsgAdd { import: true, pol: 1 },
        Op::AsgSet { import: true, pols: vec![1], accept: false },
        Op::AsgSet { import: false, pols: vec![0, 1], accept: true },
        Op::AsgDel { import: true, all: true, pol: 0 },
        Op::AsgDel { import: true, all: false, pol: 0 },
        Op::AsgDel { import: false, all: true, pol: 0 },
        Op::PolDel { n: 0, preserve: true },
        Op::PolDel { n: 1, preserve: false },
        Op::StmtDel(0),
        Op::SetAdd { content: 1, replace: false },
        Op::SetAdd { content: 1, replace: true },
        Op::SetDel { all: true },
        Op::SetDel { all: false },
        Op::Reload,
    ];
    let m = ApiModel { ops };
    if let Some(case) = replay {
        let Some((_, hist)) = bfs::decode_case(case) else {
            rep.machinery_error = Some("bad replay case".into());
            return rep;
        };
        eprintln!("replay {}", bfs::render(&m, &hist));
        rep.violations_from(bfs::replay(&m, &hist, true));
        rep.evaluations = 1;
        rep.machinery_error = take_machinery();
        return rep;
    }
    let thorough = rep.thorough();
    let depth = if thorough { 10 } else { 7 };
    rep.rule = format!("explicit-state BFS depth {depth} over 21 policy requests issued through the REAL gRPC handlers (defined set add / merge / replace / delete, statement, policy, global import / export assignment add / set / delete, full reload); after every request the assignments installed in the TableManager must behave on the probe routes like the assignments a PolicyTable of its own yields for the same requests, and a route announced now must be filtered by the import path exactly when that import assignment rejects it");
    let cfg = BfsCfg { max_depth: depth, max_secs: if thorough { 600 } else { 40 }, ..Default::default() };
    bfs::bfs(&m, &cfg, &mut rep);
    if let Some(e) = take_machinery() {
        rep.machinery_error = Some(e);
    }
    rep
}
