// Shared helpers for the event-module harness parts.
use super::super::*;
use std::net::{IpAddr, Ipv4Addr};

pub(crate) fn make_global() -> GlobalHandle {
    let (tx, _rx) = mpsc::unbounded_channel();
    let (bfd_tx, _bfd_rx) = mpsc::unbounded_channel();
    let mut g = Global::new(tx, bfd_tx);
    g.asn = 65000;
    g.router_id = Ipv4Addr::new(10, 0, 0, 254);
    Arc::new(tokio::sync::RwLock::new(g))
}

pub(crate) fn make_tables(shards: usize) -> TableHandle {
    Arc::new(TableManager::new(shards))
}

pub(crate) fn default_peer_params(remote_addr: IpAddr) -> PeerParams {
    PeerParams {
        remote_addr,
        remote_port: Global::BGP_PORT,
        expected_remote_asn: 0,
        local_asn: 0,
        passive: false,
        rs_client: false,
        route_reflector: RouteReflectorConfig::default(),
        delete_on_disconnected: false,
        admin_down: false,
        state: SessionState::Idle,
        holdtime: PeerParams::DEFAULT_HOLD_TIME,
        connect_retry_time: PeerParams::DEFAULT_CONNECT_RETRY_TIME,
        multihop_ttl: None,
        ttl_security: None,
        password: None,
        families: FnvHashMap::default(),
        send_max: FnvHashMap::default(),
        prefix_limits: FnvHashMap::default(),
        graceful_restart: None,
        llgr: None,
        bfd_config: None,
        neighbor_interface: None,
        bind_interface: None,
        export_policy: None,
    }
}

pub(crate) fn runtime() -> tokio::runtime::Runtime {
    tokio::runtime::Builder::new_current_thread().enable_all().build().expect("runtime")
}
