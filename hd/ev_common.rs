// Shared helpers for the event-module harness parts.
use super::super::*;
use std::net::{IpAddr, Ipv4Addr};

pub(crate) fn make_global() -> GlobalHandle {
    let (tx, _rx) = mpsc::unbounded_channel();
    let (bfd_tx, _bfd_rx) = mpsc::unbounded_channel();
    let mut g = Global::new(tx, bfd_tx);
    g.asn = 65000;
    g.router_id = Ipv4Addr::new(10, 0, 0, 254);
    Arc::new(tokio::sync::RwLock::new(g))
}

pub(crate) fn make_tables(shards: usize) -> TableHandle {
    Arc::new(TableManager::new(shards))
}

pub(crate) fn default_peer_params(remote_addr: IpAddr) -> PeerParams {
    PeerParams {
        remote_addr,
        remote_port: Global::BGP_PORT,
        expected_remote_asn: 0,
        local_asn: 0,
        passive: false,
        rs_client: false,
        route_reflector: RouteReflectorConfig::default(),
        delete_on_disconnected: false,
        admin_down: false,
        state: SessionState::Idle,
        holdtime: PeerParams::DEFAULT_HOLD_TIME,
        connect_retry_time: PeerParams::DEFAULT_CONNECT_RETRY_TIME,
        multihop_ttl: None,
        ttl_security: None,
        password: None,
        families: FnvHashMap::default(),
        send_max: FnvHashMap::default(),
        prefix_limits: FnvHashMap::default(),
        graceful_restart: None,
        llgr: None,
        bfd_config: None,
        neighbor_interface: None,
        bind_interface: None,
        export_policy: None,
    }
}

pub(crate) fn runtime() -> tokio::runtime::Runtime {
    tokio::runtime::Builder::new_current_thread().enable_all().build().expect("runtime")
}

// ---------------------------------------------------------------------------
// Live-session driver ("peersim"): the harness plays a BGP speaker against
// the real accept_connection + PeerSession::run over loopback TCP.
// Rules: one current-thread runtime per explorer worker; barriers, not
// sleeps (every wait is on an explicit acknowledgement and has a generous
// timeout whose expiry is a MACHINERY error, never a verdict).

pub(crate) static MACHINERY: std::sync::Mutex<Option<String>> = std::sync::Mutex::new(None);

pub(crate) fn machinery(msg: String) {
    let mut g = MACHINERY.lock().unwrap();
    if g.is_none() {
        eprintln!("vx: MACHINERY ERROR: {msg}");
        *g = Some(msg);
    }
}

pub(crate) fn take_machinery() -> Option<String> {
    MACHINERY.lock().unwrap().clone()
}

pub(crate) const WAIT: Duration = Duration::from_secs(20);

pub(crate) struct Daemon {
    pub(crate) global: GlobalHandle,
    pub(crate) tables: TableHandle,
    pub(crate) active_tx: mpsc::UnboundedSender<TcpStream>,
    _active_rx: mpsc::UnboundedReceiver<TcpStream>,
}

impl Daemon {
    pub(crate) fn new(shards: usize) -> Self {
        let (active_tx, _active_rx) = mpsc::unbounded_channel();
        Daemon { global: make_global(), tables: make_tables(shards), active_tx, _active_rx }
    }
}

pub(crate) struct Conn {
    pub(crate) stream: Option<TcpStream>,
    pub(crate) rx: bytes::BytesMut,
    /// the peer's (harness') codec for this session
    pub(crate) codec: bgp::PeerCodec,
    pub(crate) join: Option<tokio::task::JoinHandle<()>>,
    pub(crate) counter_rx: Arc<MessageCounter>,
    pub(crate) daemon_open: Option<bgp::Open>,
    /// (code, subcode) of a NOTIFICATION the daemon sent instead of completing the OPEN exchange
    pub(crate) open_notification: Option<(u8, u8)>,
    pub(crate) from: IpAddr,
    /// the session's per-family prefix-limit counters (max, counter)
    pub(crate) limits: Vec<(Family, u32, Arc<std::sync::atomic::AtomicU64>)>,
}

/// A connected loopback TCP pair: the client end bound to `from` (the neighbour's address),
/// the server end as a listener would accept it.
pub(crate) async fn socket_pair(from: IpAddr) -> Result<(TcpStream, TcpStream), String> {
    let bind_ip: IpAddr = match from {
        IpAddr::V4(_) => IpAddr::V4(Ipv4Addr::new(127, 0, 0, 1)),
        IpAddr::V6(_) => IpAddr::V6(std::net::Ipv6Addr::LOCALHOST),
    };
    // With SO_REUSEADDR and tens of thousands of short sessions (several explorations may run on
    // one machine) a fresh (listener port, client port) pair can coincide with a 4-tuple that is
    // still in TIME_WAIT on the accepting side: connect() then fails with EADDRINUSE.  That is a
    // property of the harness sockets, not of the daemon: take other ports and try again.
    let mut attempt = 0;
    let pair = loop {
        attempt += 1;
        // (no ephemeral port free: other explorations on this machine have filled the range with
        // TIME_WAIT entries; they expire within a minute)
        let lsock = match bind_ip {
            IpAddr::V4(_) => tokio::net::TcpSocket::new_v4(),
            IpAddr::V6(_) => tokio::net::TcpSocket::new_v6(),
        }
        .map_err(|e| e.to_string())?;
        // SO_REUSEADDR: a port whose only other users are TIME_WAIT entries may be taken
        let _ = lsock.set_reuseaddr(true);
        let listener = match lsock.bind(SocketAddr::new(bind_ip, 0)).and_then(|_| lsock.listen(8)) {
            Ok(l) => l,
            Err(e) if e.kind() == std::io::ErrorKind::AddrInUse && attempt < 900 => {
                tokio::time::sleep(Duration::from_millis(100)).await;
                continue;
            }
            Err(e) => return Err(format!("bind listener: {e}")),
        };
        let laddr = listener.local_addr().map_err(|e| e.to_string())?;
        let sock = match from {
            IpAddr::V4(_) => tokio::net::TcpSocket::new_v4(),
            IpAddr::V6(_) => tokio::net::TcpSocket::new_v6(),
        }
        .map_err(|e| e.to_string())?;
        // thousands of short sessions from one source address: do not let TIME_WAIT eat the port range
        let _ = sock.set_reuseaddr(true);
        match sock.bind(SocketAddr::new(from, 0)) {
            Ok(()) => {}
            Err(e) if e.kind() == std::io::ErrorKind::AddrInUse && attempt < 900 => {
                tokio::time::sleep(Duration::from_millis(20)).await;
                continue;
            }
            Err(e) => return Err(format!("bind client {from}: {e}")),
        }
        // the connection completes in the listener's backlog; accept() afterwards
        let client = match sock.connect(laddr).await {
            Ok(c) => c,
            Err(e) if e.kind() == std::io::ErrorKind::AddrInUse && attempt < 900 => continue,
            Err(e) => return Err(format!("connect: {e}")),
        };
        match tokio::time::timeout(Duration::from_secs(10), listener.accept()).await {
            Ok(Ok((s, _))) => break (client, s),
            Ok(Err(e)) => return Err(format!("accept: {e}")),
            Err(_) => return Err("accept: timed out".into()),
        }
    };
    Ok(pair)
}

/// Open a TCP connection from `from` and hand the server side to the real
/// `accept_connection` with `role`.  Ok(None): the daemon refused the connection.
pub(crate) async fn connect(d: &Daemon, from: IpAddr, role: crate::fsm::Role) -> Result<Option<Conn>, String> {
    let bind_ip: IpAddr = match from {
        IpAddr::V4(_) => IpAddr::V4(Ipv4Addr::new(127, 0, 0, 1)),
        IpAddr::V6(_) => IpAddr::V6(std::net::Ipv6Addr::LOCALHOST),
    };
    let (client, server) = socket_pair(from).await?;
    let _ = client.set_nodelay(true);
    let _ = server.set_nodelay(true);
    // close with RST (no TIME_WAIT on the harness side); the daemon sees an I/O drop either way
    #[allow(deprecated)]
    let _ = client.set_linger(Some(Duration::from_secs(0)));
    let Some(session) = accept_connection(&d.global, &d.tables, server, role).await else {
        return Ok(None);
    };
    let counter_rx = Arc::clone(&session.counter_rx);
    let limits = session.prefix_counters.iter().map(|(f, (max, c))| (*f, *max, Arc::clone(c))).collect();
    let global = d.global.clone();
    let active_tx = d.active_tx.clone();
    let join = tokio::spawn(async move { session.run(global, active_tx).await });
    Ok(Some(Conn { stream: Some(client), rx: bytes::BytesMut::with_capacity(8192), codec: bgp::PeerCodec::new(), join: Some(join), counter_rx, daemon_open: None, open_notification: None, from, limits }))
}

impl Conn {
    /// Next message from the daemon; Ok(None) = connection closed by the daemon.
    pub(crate) async fn read_msg(&mut self) -> Result<Option<bgp::ParsedMessage>, String> {
        use tokio::io::AsyncReadExt;
        loop {
            match self.codec.try_parse(&mut self.rx) {
                Ok(Some(m)) => return Ok(Some(m)),
                Ok(None) => {}
                Err(e) => return Err(format!("harness could not parse what the daemon sent: {e:?}")),
            }
            let Some(stream) = self.stream.as_mut() else { return Ok(None) };
            let mut buf = [0u8; 4096];
            match tokio::time::timeout(WAIT, stream.read(&mut buf)).await {
                Err(_) => return Err("timeout reading from the daemon".into()),
                Ok(Err(_)) | Ok(Ok(0)) => return Ok(None),
                Ok(Ok(n)) => self.rx.extend_from_slice(&buf[..n]),
            }
        }
    }

    pub(crate) async fn send_bytes(&mut self, b: &[u8]) -> bool {
        use tokio::io::AsyncWriteExt;
        match self.stream.as_mut() {
            Some(s) => s.write_all(b).await.is_ok(),
            None => false,
        }
    }

    pub(crate) async fn send(&mut self, msg: &bgp::Message) -> bool {
        let mut buf = bytes::BytesMut::with_capacity(4096);
        if self.codec.encode_to(msg, &mut buf).is_err() {
            machinery("harness could not encode its own message".into());
            return false;
        }
        self.send_bytes(&buf).await
    }

    /// OPEN exchange as the remote speaker: read the daemon's OPEN, send ours,
    /// read its KEEPALIVE, send ours, then a barrier.  Ok(false): the daemon
    /// closed the connection / sent a NOTIFICATION instead.
    pub(crate) async fn establish(&mut self, asn: u32, id: u32, hold: u16, caps: Vec<packet::Capability>) -> Result<bool, String> {
        let open = match self.read_msg().await? {
            Some(bgp::ParsedMessage::Open(o)) => o,
            Some(_) => return Err("daemon's first message is not an OPEN".into()),
            None => return Ok(false),
        };
        let mut mine = bgp::PeerCodec::negotiate(&caps, &open.capability);
        std::mem::swap(&mut self.codec, &mut mine);
        self.daemon_open = Some(open);
        let my_open = bgp::Message::Open(bgp::Open { as_number: asn, holdtime: HoldTime::new(hold).unwrap(), router_id: id, capability: caps });
        // OPEN is encoded identically by every codec
        if !self.send(&my_open).await {
            return Ok(false);
        }
        loop {
            match self.read_msg().await? {
                Some(bgp::ParsedMessage::Keepalive) => break,
                Some(bgp::ParsedMessage::Notification(n)) => {
                    self.open_notification = Some((n.notification_code(), n.notification_subcode()));
                    return Ok(false);
                }
                None => return Ok(false),
                Some(_) => {}
            }
        }
        if !self.send(&bgp::Message::Keepalive).await {
            return Ok(false);
        }
        Ok(self.barrier().await)
    }

    /// "Everything I sent has been processed": send a KEEPALIVE and wait until
    /// the session's receive counter has counted it (frames are handled in order).
    pub(crate) async fn barrier(&mut self) -> bool {
        let before = self.counter_rx.keepalive.load(Ordering::Relaxed);
        if !self.send(&bgp::Message::Keepalive).await {
            return false;
        }
        let t0 = std::time::Instant::now();
        loop {
            if self.counter_rx.keepalive.load(Ordering::Relaxed) > before {
                return true;
            }
            if self.join.as_ref().is_some_and(|j| j.is_finished()) {
                return false;
            }
            if t0.elapsed() > WAIT {
                machinery("barrier: the session did not count the KEEPALIVE within the time limit".into());
                return false;
            }
            tokio::time::sleep(Duration::from_micros(200)).await;
        }
    }

    /// Close our end (optionally) and wait for the session task to finish.
    pub(crate) async fn wait_end(&mut self, close: bool) {
        if close {
            self.stream = None;
        }
        if let Some(j) = self.join.take() {
            match tokio::time::timeout(WAIT, j).await {
                Ok(_) => {}
                Err(_) => machinery("session task did not end within the time limit".into()),
            }
        }
        self.stream = None;
    }

    pub(crate) fn ended(&self) -> bool {
        self.join.as_ref().is_none_or(|j| j.is_finished())
    }
}

/// Let spawned tasks (timer handlers) run until `done()` holds.
pub(crate) async fn settle(mut done: impl FnMut() -> bool, what: &str) {
    let t0 = std::time::Instant::now();
    loop {
        if done() {
            return;
        }
        if t0.elapsed() > WAIT {
            machinery(format!("settle: '{what}' did not happen within the time limit"));
            return;
        }
        tokio::time::sleep(Duration::from_micros(200)).await;
    }
}

/// Like `settle`, but the absence of the event is an observation (returned), not a machinery error.
pub(crate) async fn settled(mut done: impl FnMut() -> bool) -> bool {
    let t0 = std::time::Instant::now();
    loop {
        if done() {
            return true;
        }
        if t0.elapsed() > WAIT {
            return false;
        }
        tokio::time::sleep(Duration::from_micros(200)).await;
    }
}

/// Add a passive static neighbour with the given hold time (helper for harness parts
/// outside the event module, which cannot call the private Global::add_peer).
pub(crate) async fn add_simple_peer(d: &Daemon, addr: IpAddr, holdtime: u64, expected_as: u32) -> Result<(), String> {
    let mut p = default_peer_params(addr);
    p.passive = true;
    p.holdtime = holdtime;
    p.expected_remote_asn = expected_as;
    d.global.write().await.add_peer(p, None).map_err(|_| "add_peer failed".to_string())
}

/// FSM states of both connection roles and occupancy of the close-channel slots of a neighbour.
pub(crate) async fn arbiter_view(d: &Daemon, addr: IpAddr) -> Option<(crate::fsm::State, crate::fsm::State, bool, bool)> {
    let g = d.global.read().await;
    let p = g.peers.get(&addr)?;
    let ctx = p.context.lock().unwrap();
    let arb = ctx.conn_arbiter.lock().unwrap();
    Some((arb.state(crate::fsm::Role::Active), arb.state(crate::fsm::Role::Passive), arb.active_close_tx.is_some(), arb.passive_close_tx.is_some()))
}

/// The shutdown_peer API: CloseReason::AdminShutdown to every live session of the neighbour.
pub(crate) async fn admin_shutdown(d: &Daemon, addr: IpAddr) {
    let g = d.global.read().await;
    if let Some(p) = g.peers.get(&addr) {
        p.context.lock().unwrap().force_down(CloseReason::AdminShutdown, false);
    }
}

/// The hard reset_peer API: Cease/peer-deconfigured to every live session, neighbour stays configured.
pub(crate) async fn hard_reset(d: &Daemon, addr: IpAddr) {
    let g = d.global.read().await;
    if let Some(p) = g.peers.get(&addr) {
        p.context.lock().unwrap().force_down(CloseReason::SendMessage(bgp::Message::Notification(rustybgp_packet::Notification::CeasePeerDeconfigured)), false);
    }
}
