// C08: binding of the virtual-time interpretation of the FSM's timer outputs to the real
// I/O driver.  The virtual-time exploration (hd/fsm.rs, TimeModel::interpret) assumes that
// `SetHoldTimer(n)` / `SetKeepaliveTimer(n)` REPLACE the single pending sleep of that kind
// with now + n seconds and that the sentinel (>= 2^40) never fires.  Here every value the
// FSM emitted during the exploration is pushed through the real `PeerSession::apply_outputs`
// on a socket-less session and the deadline actually armed is read back.

use super::super::*;
use super::common::*;
use std::net::{IpAddr, Ipv4Addr, SocketAddr};

/// (number of pending sleeps, seconds until the earliest deadline)
fn armed(f: &FuturesUnordered<tokio::time::Sleep>) -> (usize, u64) {
    let now = tokio::time::Instant::now();
    let mut n = 0;
    let mut best = u64::MAX;
    for s in std::pin::Pin::new(f).iter_pin_ref() {
        n += 1;
        best = best.min(s.deadline().saturating_duration_since(now).as_secs());
    }
    (n, best)
}

/// One year: anything armed further away than this "never fires" for the property's purposes.
pub(crate) const NEVER_SECS: u64 = 365 * 24 * 3600;

pub(crate) struct Armed {
    pub hold: bool,
    pub value: u64,
    pub pending: usize,
    pub secs: u64,
    /// the timer of the other kind was left alone
    pub other_untouched: bool,
}

pub(crate) fn driver_timer_interpretation(values: &[(bool, u64)]) -> Result<Vec<Armed>, String> {
    let rt = runtime();
    rt.block_on(async {
        let mut out = Vec::new();
        for &(hold, value) in values {
            let fsm = crate::fsm::PeerFsm::new(u32::from(Ipv4Addr::new(10, 0, 0, 254)), 65000, vec![], 90, 0, FnvHashMap::default());
            let conn_arbiter = Arc::new(std::sync::Mutex::new(ConnArbiter::new(fsm)));
            let ctx = Arc::new(std::sync::Mutex::new(PeerContext {
                conn_arbiter,
                active_connect_cancel_tx: None,
                active_connect_join_handle: None,
                gr_state: crate::gr::GrState::new(),
                gr_restart_timer: None,
                llgr_family_timers: FnvHashMap::default(),
                rtc_state: crate::rtc::RtcState::new(),
                rtc_eor_timer: None,
            }));
            let addr = IpAddr::V4(Ipv4Addr::new(127, 0, 8, 200));
            let tables = Arc::new(TableManager::new(1));
            let mut session = PeerSession::new_for_test(addr, ctx, tables);
            let la = SocketAddr::new(IpAddr::V4(Ipv4Addr::new(127, 0, 0, 1)), 179);
            let ra = SocketAddr::new(addr, 40000);
            let role = crate::fsm::Role::Passive;
            // arm both kinds with a known finite value first, so that "replace" and "leave the other alone" are observable
            let pre = vec![
                crate::fsm::PeerFsmOutput::Connection(role, crate::fsm::Output::SetHoldTimer(777)),
                crate::fsm::PeerFsmOutput::Connection(role, crate::fsm::Output::SetKeepaliveTimer(555)),
            ];
            let _ = session.apply_outputs(pre, la, ra).await;
            let o = if hold { crate::fsm::Output::SetHoldTimer(value) } else { crate::fsm::Output::SetKeepaliveTimer(value) };
            let _ = session.apply_outputs(vec![crate::fsm::PeerFsmOutput::Connection(role, o)], la, ra).await;
            let (h, k) = (armed(&session.holdtime_futures), armed(&session.keepalive_futures));
            let (mine, other, other_want) = if hold { (h, k, 555) } else { (k, h, 777) };
            out.push(Armed { hold, value, pending: mine.0, secs: mine.1, other_untouched: other.0 == 1 && (other_want - 2..=other_want).contains(&other.1) });
        }
        Ok(out)
    })
}

/// The second place where the driver arms a timer: flush_tx feeds `UpdateSent` to the FSM
/// after it wrote UPDATEs and applies the returned SetKeepaliveTimer itself.  A socket-less
/// session whose arbiter is brought to Established with the given hold times gets both timers
/// armed with known values (hold 777, keepalive 555) and one End-of-RIB pending; after the
/// real flush_tx the keepalive timer must be the one re-armed and the hold timer untouched.
/// Returns ((hold: pending, secs), (keepalive: pending, secs)).
pub(crate) fn driver_update_sent(local_hold: u64, remote_hold: u16) -> Result<((usize, u64), (usize, u64)), String> {
    let rt = runtime();
    rt.block_on(async {
        let addr = IpAddr::V4(Ipv4Addr::new(127, 0, 8, 201));
        let fsm = crate::fsm::PeerFsm::new(u32::from(Ipv4Addr::new(10, 0, 0, 254)), 65000, vec![packet::Capability::MultiProtocol(Family::IPV4)], local_hold, 0, FnvHashMap::default());
        let conn_arbiter = Arc::new(std::sync::Mutex::new(ConnArbiter::new(fsm)));
        let ctx = Arc::new(std::sync::Mutex::new(PeerContext {
            conn_arbiter: conn_arbiter.clone(),
            active_connect_cancel_tx: None,
            active_connect_join_handle: None,
            gr_state: crate::gr::GrState::new(),
            gr_restart_timer: None,
            llgr_family_timers: FnvHashMap::default(),
            rtc_state: crate::rtc::RtcState::new(),
            rtc_eor_timer: None,
        }));
        let mut session = PeerSession::new_for_test(addr, ctx, Arc::new(TableManager::new(1)));
        // new_for_test installs its own arbiter: replace it by ours (hold time under test)
        session.conn_arbiter = conn_arbiter.clone();
        session.context.lock().unwrap().conn_arbiter = conn_arbiter.clone();
        let role = session.role;
        {
            let mut arb = conn_arbiter.lock().unwrap();
            arb.process(role, crate::fsm::Input::Connected(false));
            arb.process(
                role,
                crate::fsm::Input::MessageReceived(bgp::Message::Open(bgp::Open { as_number: 65001, holdtime: HoldTime::new(remote_hold).ok_or("hold time")?, router_id: 20, capability: vec![packet::Capability::MultiProtocol(Family::IPV4)] })),
            );
            arb.process(role, crate::fsm::Input::MessageReceived(bgp::Message::Keepalive));
            if arb.state(role) != crate::fsm::State::Established {
                return Err(format!("arbiter did not reach Established (local {local_hold}, remote {remote_hold})"));
            }
        }
        let la = SocketAddr::new(IpAddr::V4(Ipv4Addr::new(127, 0, 0, 1)), 179);
        let ra = SocketAddr::new(addr, 40000);
        let pre = vec![
            crate::fsm::PeerFsmOutput::Connection(role, crate::fsm::Output::SetHoldTimer(777)),
            crate::fsm::PeerFsmOutput::Connection(role, crate::fsm::Output::SetKeepaliveTimer(555)),
        ];
        let _ = session.apply_outputs(pre, la, ra).await;
        let mut p = crate::peer_tx::PendingTx::new(false);
        p.buffer_messages(vec![bgp::Message::eor(Family::IPV4)]);
        session.pending.insert(Family::IPV4, p);
        let (_client, mut server) = socket_pair(addr).await?;
        if !session.flush_tx(&mut server).await {
            return Err("flush_tx reported a write error".into());
        }
        Ok((armed(&session.holdtime_futures), armed(&session.keepalive_futures)))
    })
}
