// C08: binding of the virtual-time interpretation of the FSM's timer outputs to the real
// I/O driver.  The virtual-time exploration (hd/fsm.rs, TimeModel::interpret) assumes that
// `SetHoldTimer(n)` / `SetKeepaliveTimer(n)` REPLACE the single pending sleep of that kind
// with now + n seconds and that the sentinel (>= 2^40) never fires.  Here every value the
// FSM emitted during the exploration is pushed through the real `PeerSession::apply_outputs`
// on a socket-less session and the deadline actually armed is read back.

use super::super::*;
use super::common::*;
use std::net::{IpAddr, Ipv4Addr, SocketAddr};

/// (number of pending sleeps, seconds until the earliest deadline)
fn armed(f: &FuturesUnordered<tokio::time::Sleep>) -> (usize, u64) {
    let now = tokio::time::Instant::now();
    let mut n = 0;
    let mut best = u64::MAX;
    for s in std::pin::Pin::new(f).iter_pin_ref() {
        n += 1;
        best = best.min(s.deadline().saturating_duration_since(now).as_secs());
    }
    (n, best)
}

/// One year: anything armed further away than this "never fires" for the property's purposes.
pub(crate) const NEVER_SECS: u64 = 365 * 24 * 3600;

pub(crate) struct Armed {
    pub hold: bool,
    pub value: u64,
    pub pending: usize,
    pub secs: u64,
    /// the timer of the other kind was left alone
    pub other_untouched: bool,
}

pub(crate) fn driver_timer_interpretation(values: &[(bool, u64)]) -> Result<Vec<Armed>, String> {
    let rt = runtime();
    rt.block_on(async {
        let mut out = Vec::new();
        for &(hold, value) in values {
            let fsm = crate::fsm::PeerFsm::new(u32::from(Ipv4Addr::new(10, 0, 0, 254)), 65000, vec![], 90, 0, FnvHashMap::default());
            let conn_arbiter = Arc::new(std::sync::Mutex::new(ConnArbiter::new(fsm)));
            let ctx = Arc::new(std::sync::Mutex::new(PeerContext {
                conn_arbiter,
                active_connect_cancel_tx: None,
                active_connect_join_handle: None,
                gr_state: crate::gr::GrState::new(),
                gr_restart_timer: None,
                llgr_family_timers: FnvHashMap::default(),
                rtc_state: crate::rtc::RtcState::new(),
                rtc_eor_timer: None,
            }));
            let addr = IpAddr::V4(Ipv4Addr::new(127, 0, 8, 200));
            let tables = Arc::new(TableManager::new(1));
            let mut session = PeerSession::new_for_test(addr, ctx, tables);
            let la = SocketAddr::new(IpAddr::V4(Ipv4Addr::new(127, 0, 0, 1)), 179);
            let ra = SocketAddr::new(addr, 40000);
            let role = crate::fsm::Role::Passive;
            // arm both kinds with a known finite value first, so that "replace" and "leave the other alone" are observable
            let pre = vec![
                crate::fsm::PeerFsmOutput::Connection(role, crate::fsm::Output::SetHoldTimer(777)),
                crate::fsm::PeerFsmOutput::Connection(role, crate::fsm::Output::SetKeepaliveTimer(555)),
            ];
            let _ = session.apply_outputs(pre, la, ra).await;
            let o = if hold { crate::fsm::Output::SetHoldTimer(value) } else { crate::fsm::Output::SetKeepaliveTimer(value) };
            let _ = session.apply_outputs(vec![crate::fsm::PeerFsmOutput::Connection(role, o)], la, ra).await;
            let (h, k) = (armed(&session.holdtime_futures), armed(&session.keepalive_futures));
            let (mine, other, other_want) = if hold { (h, k, 555) } else { (k, h, 777) };
            out.push(Armed { hold, value, pending: mine.0, secs: mine.1, other_untouched: other.0 == 1 && (other_want - 2..=other_want).contains(&other.1) });
        }
        Ok(out)
    })
}

/// The second place where the driver arms a timer: flush_tx feeds `UpdateSent` to the FSM
/// after it wrote UPDATEs and applies the returned SetKeepaliveTimer itself.  A socket-less
/// session whose arbiter is brought to Established with the given hold times gets both timers
/// armed with known values (hold 777, keepalive 555) and one End-of-RIB pending; after the
/// real flush_tx the keepalive timer must be the one re-armed and the hold timer untouched.
/// Returns ((hold: pending, secs), (keepalive: pending, secs)).
pub(crate) fn driver_update_sent(local_hold: u64, remote_hold: u16) -> Result<((usize, u64), (usize, u64)), String> {
    let rt = runtime();
    rt.block_on(async {
        let addr = IpAddr::V4(Ipv4Addr::new(127, 0, 8, 201));
        let fsm = crate::fsm::PeerFsm::new(u32::from(Ipv4Addr::new(10, 0, 0, 254)), 65000, vec![packet::Capability::MultiProtocol(Family::IPV4)], local_hold, 0, FnvHashMap::default());
        let conn_arbiter = Arc::new(std::sync::Mutex::new(ConnArbiter::new(fsm)));
        let ctx = Arc::new(std::sync::Mutex::new(PeerContext {
            conn_arbiter: conn_arbiter.clone(),
            active_connect_cancel_tx: None,
            active_connect_join_handle: None,
            gr_state: crate::gr::GrState::new(),
            gr_restart_timer: None,
            llgr_family_timers: FnvHashMap::default(),
            rtc_state: crate::rtc::RtcState::new(),
            rtc_eor_timer: None,
        }));
        let mut session = PeerSession::new_for_test(addr, ctx, Arc::new(TableManager::new(1)));
        // new_for_test installs its own arbiter: replace it by ours (hold time under test)
        session.conn_arbiter = conn_arbiter.clone();
        session.context.lock().unwrap().conn_arbiter = conn_arbiter.clone();
        let role = session.role;
        {
            let mut arb = conn_arbiter.lock().unwrap();
            arb.process(role, crate::fsm::Input::Connected(false));
            arb.process(
                role,
                crate::fsm::Input::MessageReceived(bgp::Message::Open(bgp::Open { as_number: 65001, holdtime: HoldTime::new(remote_hold).ok_or("hold time")?, router_id: 20, capability: vec![packet::Capability::MultiProtocol(Family::IPV4)] })),
            );
            arb.process(role, crate::fsm::Input::MessageReceived(bgp::Message::Keepalive));
            if arb.state(role) != crate::fsm::State::Established {
                return Err(format!("arbiter did not reach Established (local {local_hold}, remote {remote_hold})"));
            }
        }
        let la = SocketAddr::new(IpAddr::V4(Ipv4Addr::new(127, 0, 0, 1)), 179);
        let ra = SocketAddr::new(addr, 40000);
        let pre = vec![
            crate::fsm::PeerFsmOutput::Connection(role, crate::fsm::Output::SetHoldTimer(777)),
            crate::fsm::PeerFsmOutput::Connection(role, crate::fsm::Output::SetKeepaliveTimer(555)),
        ];
        let _ = session.apply_outputs(pre, la, ra).await;
        let mut p = crate::peer_tx::PendingTx::new(false);
        p.buffer_messages(vec![bgp::Message::eor(Family::IPV4)]);
        session.pending.insert(Family::IPV4, p);
        let (_client, mut server) = socket_pair(addr).await?;
        if !session.flush_tx(&mut server).await {
            return Err("flush_tx reported a write error".into());
        }
        Ok((armed(&session.holdtime_futures), armed(&session.keepalive_futures)))
    })
}

/// Message kinds pushed through the real receive path (`run_select` on a socket) of a session
/// whose arbiter is Established with negotiated hold time `NEG_HOLD`.
pub(crate) const RX_KINDS: &[(&str, bool)] = &[
    // (kind, the hold timer must be re-armed)
    ("keepalive", true),
    ("update/reach", true),
    ("update/withdraw", true),
    ("update/end-of-rib", true),
    ("update/reach-with-own-as-in-path", true),
    ("update/attributes-only", true),
    ("update/missing-mandatory-attribute", true),
    ("update/malformed-attribute-no-nlri", true),
    ("update/two-in-one-read", true),
    ("route-refresh", false),
];
pub(crate) const NEG_HOLD: u64 = 30;

fn frame(typ: u8, body: &[u8]) -> Vec<u8> {
    let mut v = vec![0xffu8; 16];
    v.extend_from_slice(&((19 + body.len()) as u16).to_be_bytes());
    v.push(typ);
    v.extend_from_slice(body);
    v
}

fn update_frame(withdrawn: &[u8], attrs: &[u8], nlri: &[u8]) -> Vec<u8> {
    let mut b = Vec::new();
    b.extend_from_slice(&(withdrawn.len() as u16).to_be_bytes());
    b.extend_from_slice(withdrawn);
    b.extend_from_slice(&(attrs.len() as u16).to_be_bytes());
    b.extend_from_slice(attrs);
    b.extend_from_slice(nlri);
    frame(2, &b)
}

fn rx_bytes(kind: &str, own_as: u16) -> Vec<u8> {
    let origin = [0x40u8, 1, 1, 0];
    let nh = [0x40u8, 3, 4, 192, 0, 2, 1];
    let path = |asn: u16| -> Vec<u8> {
        let a = asn.to_be_bytes();
        // AS4 session: 4-octet AS numbers
        vec![0x40, 2, 6, 2, 1, 0, 0, a[0], a[1]]
    };
    let good: Vec<u8> = [origin.to_vec(), path(65002), nh.to_vec()].concat();
    let pfx = [24u8, 10, 99, 1];
    match kind {
        "keepalive" => frame(4, &[]),
        "update/reach" => update_frame(&[], &good, &pfx),
        "update/withdraw" => update_frame(&pfx, &[], &[]),
        "update/end-of-rib" => update_frame(&[], &[], &[]),
        "update/reach-with-own-as-in-path" => update_frame(&[], &[origin.to_vec(), path(own_as), nh.to_vec()].concat(), &pfx),
        "update/attributes-only" => update_frame(&[], &good, &[]),
        "update/missing-mandatory-attribute" => update_frame(&[], &[path(65002), nh.to_vec()].concat(), &pfx),
        // ORIGIN with an undefined value and nothing announced or withdrawn
        "update/malformed-attribute-no-nlri" => update_frame(&[], &[vec![0x40u8, 1, 1, 9], path(65002), nh.to_vec()].concat(), &[]),
        "update/two-in-one-read" => [update_frame(&[], &[origin.to_vec(), path(own_as), nh.to_vec()].concat(), &pfx), update_frame(&[], &good, &[])].concat(),
        "route-refresh" => frame(5, &[0, 1, 0, 1]),
        _ => Vec::new(),
    }
}

pub(crate) struct RxArmed {
    pub hold: (usize, u64),
    pub keepalive: (usize, u64),
    pub terminated: bool,
    pub frames_counted: u64,
}

/// The receive side of the binding: the bytes of one message of `kind` arrive on the socket of an
/// Established session (negotiated hold time NEG_HOLD, both timers pre-armed with 777 / 555 so
/// that a re-arm is observable), the REAL `run_select` reads and handles them, and the armed
/// deadlines are read back.
pub(crate) fn driver_message_received(kind: &str) -> Result<RxArmed, String> {
    let rt = runtime();
    rt.block_on(async {
        let addr = IpAddr::V4(Ipv4Addr::new(127, 0, 8, 202));
        let d = Daemon::new(1);
        let caps = vec![packet::Capability::MultiProtocol(Family::IPV4), packet::Capability::FourOctetAsNumber(65001)];
        let fsm = crate::fsm::PeerFsm::new(u32::from(Ipv4Addr::new(1, 0, 0, 1)), 65001, caps.clone(), 90, 0, FnvHashMap::default());
        let conn_arbiter = Arc::new(std::sync::Mutex::new(ConnArbiter::new(fsm)));
        let ctx = Arc::new(std::sync::Mutex::new(PeerContext {
            conn_arbiter: conn_arbiter.clone(),
            active_connect_cancel_tx: None,
            active_connect_join_handle: None,
            gr_state: crate::gr::GrState::new(),
            gr_restart_timer: None,
            llgr_family_timers: FnvHashMap::default(),
            rtc_state: crate::rtc::RtcState::new(),
            rtc_eor_timer: None,
        }));
        let mut session = PeerSession::new_for_test(addr, ctx, d.tables.clone());
        session.conn_arbiter = conn_arbiter.clone();
        session.context.lock().unwrap().conn_arbiter = conn_arbiter.clone();
        let role = session.role;
        {
            let mut arb = conn_arbiter.lock().unwrap();
            arb.process(role, crate::fsm::Input::Connected(false));
            let outs = arb.process(
                role,
                crate::fsm::Input::MessageReceived(bgp::Message::Open(bgp::Open { as_number: 65002, holdtime: HoldTime::new(NEG_HOLD as u16).ok_or("hold time")?, router_id: 20, capability: vec![packet::Capability::MultiProtocol(Family::IPV4), packet::Capability::FourOctetAsNumber(65002)] })),
            );
            for o in outs {
                if let crate::fsm::PeerFsmOutput::Connection(_, crate::fsm::Output::SessionNegotiated(c)) = o {
                    session.codec = c;
                }
            }
            arb.process(role, crate::fsm::Input::MessageReceived(bgp::Message::Keepalive));
            if arb.state(role) != crate::fsm::State::Established {
                return Err("arbiter did not reach Established".to_string());
            }
        }
        session.source.insert(
            Family::IPV4,
            Arc::new(table::Source::new(addr, IpAddr::V4(Ipv4Addr::new(127, 0, 0, 1)), 65002, 65001, Ipv4Addr::new(0, 0, 0, 20), table::PeerRole::Ebgp)),
        );
        let la = SocketAddr::new(IpAddr::V4(Ipv4Addr::new(127, 0, 0, 1)), 179);
        let ra = SocketAddr::new(addr, 40000);
        let pre = vec![
            crate::fsm::PeerFsmOutput::Connection(role, crate::fsm::Output::SetHoldTimer(777)),
            crate::fsm::PeerFsmOutput::Connection(role, crate::fsm::Output::SetKeepaliveTimer(555)),
        ];
        let _ = session.apply_outputs(pre, la, ra).await;
        let (mut client, mut server) = socket_pair(addr).await?;
        let bytes = rx_bytes(kind, 65001);
        let want_frames = if kind == "update/two-in-one-read" { 2 } else { 1 };
        {
            use tokio::io::AsyncWriteExt;
            client.write_all(&bytes).await.map_err(|e| format!("write: {e}"))?;
        }
        let mut rxbuf = bytes::BytesMut::with_capacity(1 << 17);
        let mut close_rx: CloseRxFuture = None.into();
        let mut terminated = false;
        let counted = |s: &PeerSession| -> u64 {
            let c = &*s.counter_rx;
            c.total.load(Ordering::Relaxed)
        };
        let before = counted(&session);
        // run_select handles one ready event per call: repeat until the frames have been counted
        for _ in 0..50 {
            if counted(&session) >= before + want_frames {
                break;
            }
            match tokio::time::timeout(std::time::Duration::from_secs(5), session.run_select(&d.global, &mut server, &mut rxbuf, ra, la, &mut close_rx)).await {
                Ok(Step::Continue) => {}
                Ok(_) => {
                    terminated = true;
                    break;
                }
                Err(_) => return Err(format!("run_select did not return within 5 s for {kind}")),
            }
        }
        let frames_counted = counted(&session) - before;
        Ok(RxArmed { hold: armed(&session.holdtime_futures), keepalive: armed(&session.keepalive_futures), terminated, frames_counted })
    })
}
