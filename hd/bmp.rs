// In-crate harness part with access to the private items of crate::bmp: the snapshot
// accumulation the BMP client performs while the snapshot walk is still running
// (apply_snapshot on the events up to EndOfSnapshot, then flush_peer_snapshot per peer).
// Used by the C18 schedule scenarios: the events a subscription received under an explored
// interleaving are folded the way the real client folds them.

use super::*;
use std::collections::BTreeMap;

/// (peer, prefix, path-id) -> attribute bytes, as the initial Route Monitoring dump of the
/// client would report it: events until EndOfSnapshot go through the client's own
/// apply_snapshot; the snapshot maps are then flushed with the client's flush_peer_snapshot.
pub(crate) fn snapshot_views(events: &mut Vec<BgpEvent>) -> (BTreeMap<(IpAddr, String, u32), Vec<u8>>, BTreeMap<(IpAddr, String, u32), Vec<u8>>, Vec<BgpEvent>) {
    let mut snapshot: SnapshotMap = FnvHashMap::default();
    let mut snapshot_post: SnapshotMap = FnvHashMap::default();
    let mut rest = Vec::new();
    let mut in_snapshot = true;
    let mut down: std::collections::BTreeSet<IpAddr> = std::collections::BTreeSet::new();
    for ev in events.drain(..) {
        if !in_snapshot {
            rest.push(ev);
            continue;
        }
        match ev {
            BgpEvent::AdjRibIn(change) => apply_snapshot(&mut snapshot, change),
            BgpEvent::AdjRibInPost(change) => apply_snapshot(&mut snapshot_post, change),
            BgpEvent::EndOfSnapshot => in_snapshot = false,
            // The client ignores PeerUp / PeerDown while it drains the snapshot and afterwards
            // flushes the routes of the peers that Global.peers shows as established.  A peer
            // whose PeerDown event is already in the channel is no longer established there
            // (session_loop clears session_addrs before it emits the event), so its accumulated
            // routes are not flushed.
            BgpEvent::PeerDown(d) => {
                down.insert(d.peer_addr);
            }
            BgpEvent::PeerUp(u) => {
                down.remove(&u.peer_addr);
            }
            _ => {}
        }
    }
    let view = |m: &mut SnapshotMap, flags: u8| {
        let mut v = BTreeMap::new();
        let peers: Vec<IpAddr> = m.keys().copied().filter(|a| !down.contains(a)).collect();
        for addr in peers {
            let hdr = bmp::PerPeerHeader::new(flags, 0, Ipv4Addr::UNSPECIFIED, 0, addr, 0);
            for msg in flush_peer_snapshot(m, addr, &hdr, flags) {
                if let bmp::Message::RouteMonitoring { update: bgp::Message::Update(bgp::Update::Reach { entries, attr, .. }), .. } = msg {
                    for e in entries {
                        v.insert((addr, format!("{}", e.nlri), e.path_id), attr.iter().flat_map(|a| a.encode_to_bytes()).collect());
                    }
                }
            }
        }
        v
    };
    let pre = view(&mut snapshot, 0);
    let post = view(&mut snapshot_post, bmp::Message::PEER_FLAG_POST_POLICY);
    (pre, post, rest)
}
