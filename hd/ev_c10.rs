// C10: graceful-restart helper — stale routes live only while a timer or an
// End-of-RIB is pending.
//
// Part (i): fixpoint BFS of the pure `gr::GrState` machine against a
//           reference written from the statement.
// Part (ii): explicit-state BFS over LIVE sessions: the real
//           accept_connection + PeerSession::run (session_loop, apply_disconnect,
//           timers) on loopback TCP, the harness plays the remote speaker.

use super::super::*;
use super::common::*;
use crate::verif::vx::bfs::{self, BfsCfg, Model};
use crate::verif::vx::report::Report;
use std::collections::{BTreeMap, BTreeSet};
use std::net::{IpAddr, Ipv4Addr};

const PEER_ASN: u32 = 65001;
const PEER_ID: u32 = 0x0a0a0a01;

fn peer_ip() -> IpAddr {
    IpAddr::V4(Ipv4Addr::new(127, 0, 1, 1))
}

fn fname(f: &Family) -> &'static str {
    match *f {
        Family::IPV4 => "v4",
        Family::IPV6 => "v6",
        _ => "??",
    }
}
const FAMS: [Family; 2] = [Family::IPV4, Family::IPV6];

fn net(f: &Family, k: u8) -> packet::Nlri {
    match *f {
        Family::IPV6 => packet::Nlri::V6(packet::bgp::Ipv6Net { addr: std::net::Ipv6Addr::new(0x2001, 0xdb8, 1 + k as u16, 0, 0, 0, 0, 0), mask: 48 }),
        _ => packet::Nlri::V4(packet::bgp::Ipv4Net { addr: Ipv4Addr::new(10, 1 + k, 0, 0), mask: 24 }),
    }
}

const NO_LLGR: u32 = 0xffff_0007;

#[derive(Clone, Debug, PartialEq)]
enum Reason {
    TcpClose,
    /// NOTIFICATION Cease / administrative shutdown from the peer
    NotifCease,
    /// NOTIFICATION Cease / hard reset (RFC 8538) from the peer
    NotifHardReset,
    /// NOTIFICATION UPDATE error from the peer (non-Cease)
    NotifUpdateErr,
    /// local shutdown_peer API (CloseReason::AdminShutdown)
    LocalAdminShutdown,
    /// the peer sends a malformed UPDATE: the daemon answers with a NOTIFICATION (non-Cease)
    LocalUpdateError,
    /// the operator's hard reset: ResetPeer(soft = false) through the real gRPC handler
    LocalHardReset,
}

#[derive(Clone, Debug, PartialEq)]
enum FailStage {
    BeforeOpen,
    AfterOpen,
}

#[derive(Clone, Debug)]
struct EstCaps {
    gr: Vec<Family>,
    nbit: bool,
    llgr: Vec<Family>,
}

#[derive(Clone, Debug)]
enum Op {
    Est(EstCaps),
    Announce(Family, u8, bool, u32),
    Eor(Family),
    Drop(Reason),
    ReconnectFail(FailStage),
    FireGrTimer,
    FireLlgrTimer(Family),
    Disable,
    Enable,
}

fn fl(v: &[Family]) -> String {
    v.iter().map(fname).collect::<Vec<_>>().join("+")
}

fn op_name(o: &Op) -> String {
    match o {
        Op::Est(c) => format!("establish(gr={{{}}}{},llgr={{{}}})", fl(&c.gr), if c.nbit { ",N" } else { "" }, fl(&c.llgr)),
        Op::Announce(f, k, nl, pid) => format!("announce({},n{}{}{})", fname(f), k, if *nl { ",NO_LLGR" } else if *k == 2 { ",LLGR_STALE community" } else { "" }, if *pid != 0 { format!(",path-id {pid}") } else { String::new() }),
        Op::Eor(f) => format!("eor({})", fname(f)),
        Op::Drop(r) => format!("drop({:?})", r),
        Op::ReconnectFail(s) => format!("reconnect_fail({:?})", s),
        Op::FireGrTimer => "gr_timer_expires".into(),
        Op::FireLlgrTimer(f) => format!("llgr_timer_expires({})", fname(f)),
        Op::Disable => "disable_peer".into(),
        Op::Enable => "enable_peer".into(),
    }
}

fn op_kind(o: &Op) -> String {
    match o {
        Op::Est(_) => "establish".into(),
        Op::Announce(..) => "announce".into(),
        Op::Eor(_) => "eor".into(),
        Op::Drop(r) => format!("drop-{:?}", r),
        Op::ReconnectFail(s) => format!("reconnect-fail-{:?}", s),
        Op::FireGrTimer => "gr-timer".into(),
        Op::FireLlgrTimer(_) => "llgr-timer".into(),
        Op::Disable => "disable".into(),
        Op::Enable => "enable".into(),
    }
}

pub(crate) struct LiveModel {
    name: String,
    /// local (daemon) configuration of the neighbour
    local_gr: Vec<Family>,
    local_nbit: bool,
    local_llgr: Vec<Family>,
    /// add-path receive configured for IPv4 (the peer advertises send)
    addpath: bool,
    ops: Vec<Op>,
}

pub(crate) struct Sys {
    rt: tokio::runtime::Runtime,
    d: Daemon,
    conn: Option<Conn>,
    /// what the current / last session negotiated (reference view)
    neg_gr: Vec<Family>,
    neg_nbit: bool,
    neg_llgr: Vec<Family>,
    /// routes announced on the CURRENT session (family, k)
    fresh: BTreeSet<(u32, u8, u32)>,
    admin_down: bool,
    sessions: u32,
    broken: BTreeSet<String>,
    dead: bool,
}

fn fk(f: &Family) -> u32 {
    ((f.afi() as u32) << 8) | f.safi() as u32
}

struct RibView {
    /// per family: (prefix, stale, llgr_stale, no_llgr, remote path id)
    paths: BTreeMap<u32, Vec<(String, bool, bool, bool, u32)>>,
}

fn rib_view(tables: &TableHandle) -> RibView {
    let mut paths = BTreeMap::new();
    for f in FAMS {
        let mut v = Vec::new();
        for d in tables.collect_paths(table::TableQuery::AdjIn(peer_ip()), f, vec![], true) {
            for p in &d.paths {
                v.push((format!("{}", d.net), p.source.is_stale(), p.source.is_llgr_stale(), table::has_no_llgr_community(&p.attr), p.remote_path_id));
            }
        }
        v.sort();
        paths.insert(fk(&f), v);
    }
    RibView { paths }
}

struct CtxView {
    gr_kind: &'static str,
    gr_fp: String,
    pending_eor: Vec<Family>,
    gr_timer_armed: bool,
    llgr_armed: BTreeSet<u32>,
    act: crate::fsm::State,
    pas: crate::fsm::State,
}

fn ctx_view(d: &Daemon, rt: &tokio::runtime::Runtime) -> Option<CtxView> {
    rt.block_on(async {
        let g = d.global.read().await;
        let peer = g.peers.get(&peer_ip())?;
        let ctx = peer.context.lock().unwrap();
        let arb = ctx.conn_arbiter.lock().unwrap();
        Some(CtxView {
            gr_kind: crate::gr::verif_gr::gr_kind(&ctx.gr_state),
            gr_fp: crate::gr::verif_gr::fp_gr(&ctx.gr_state),
            pending_eor: crate::gr::verif_gr::gr_pending_eor(&ctx.gr_state),
            gr_timer_armed: ctx.gr_restart_timer.as_ref().is_some_and(|t| !t.is_closed()),
            llgr_armed: ctx.llgr_family_timers.iter().filter(|(_, t)| !t.is_closed()).map(|(f, _)| fk(f)).collect(),
            act: arb.state(crate::fsm::Role::Active),
            pas: arb.state(crate::fsm::Role::Passive),
        })
    })
}

impl LiveModel {
    fn add_peer(&self, d: &Daemon, rt: &tokio::runtime::Runtime) {
        let mut p = default_peer_params(peer_ip());
        p.passive = true;
        p.expected_remote_asn = PEER_ASN;
        p.holdtime = 90;
        p.families = FAMS.iter().map(|f| (*f, if self.addpath && *f == Family::IPV4 { 1u8 } else { 0u8 })).collect();
        if !self.local_gr.is_empty() {
            p.graceful_restart = Some(peer::GrPeerConfig { restart_time: 120, notification_enabled: self.local_nbit, families: self.local_gr.clone() });
        }
        if !self.local_llgr.is_empty() {
            p.llgr = Some(peer::LlgrPeerConfig { families: self.local_llgr.iter().map(|f| (*f, 3600u32)).collect() });
        }
        rt.block_on(async { d.global.write().await.add_peer(p, None).expect("add_peer") });
    }

    fn peer_caps(&self, c: &EstCaps) -> Vec<packet::Capability> {
        let mut caps: Vec<packet::Capability> = FAMS.iter().map(|f| packet::Capability::MultiProtocol(*f)).collect();
        caps.push(packet::Capability::FourOctetAsNumber(PEER_ASN));
        if self.addpath {
            caps.push(packet::Capability::AddPath(vec![(Family::IPV4, 2)]));
        }
        if !c.gr.is_empty() || c.nbit {
            caps.push(packet::Capability::GracefulRestart { flags: if c.nbit { 0x4 } else { 0 }, restart_time: 120, families: c.gr.iter().map(|f| (*f, 0x80)).collect() });
        }
        if !c.llgr.is_empty() {
            caps.push(packet::Capability::LongLivedGracefulRestart(c.llgr.iter().map(|f| (*f, 0u8, 3600u32)).collect()));
        }
        caps
    }
}

impl Model for LiveModel {
    type Sys = Sys;
    fn name(&self) -> String {
        self.name.clone()
    }
    fn n_ops(&self) -> usize {
        self.ops.len()
    }
    fn op_name(&self, op: usize) -> String {
        op_name(&self.ops[op])
    }
    fn init(&self) -> Sys {
        let rt = runtime();
        let d = Daemon::new(2);
        self.add_peer(&d, &rt);
        Sys { rt, d, conn: None, neg_gr: vec![], neg_nbit: false, neg_llgr: vec![], fresh: BTreeSet::new(), admin_down: false, sessions: 0, broken: BTreeSet::new(), dead: false }
    }

    fn step(&self, sys: &mut Sys, op: usize, out: &mut Vec<(String, String)>) -> bool {
        if sys.dead {
            return false;
        }
        let o = &self.ops[op];
        let kind = op_kind(o);
        let up = sys.conn.is_some();
        let pre_ctx = ctx_view(&sys.d, &sys.rt);
        let mut cur: Vec<(String, String)> = Vec::new();
        // reference facts about the session that ends in this step (if any)
        let mut ended: Option<(Reason, Vec<Family>, bool, Vec<Family>)> = None;
        match o {
            Op::Est(c) => {
                if up || sys.admin_down || sys.sessions >= 3 {
                    return false;
                }
                let caps = self.peer_caps(c);
                let res = sys.rt.block_on(async {
                    let Some(mut conn) = connect(&sys.d, peer_ip(), crate::fsm::Role::Passive).await? else {
                        return Ok::<_, String>(None);
                    };
                    if conn.establish(PEER_ASN, PEER_ID, 90, caps).await? {
                        Ok(Some(conn))
                    } else {
                        conn.wait_end(true).await;
                        Ok(None)
                    }
                });
                match res {
                    Err(e) => {
                        machinery(format!("establish: {e}"));
                        sys.dead = true;
                        return false;
                    }
                    Ok(None) => {
                        cur.push(("C10/establish-refused".into(), format!("{}: the daemon refused / aborted a regular session set-up", op_name(o))));
                    }
                    Ok(Some(conn)) => {
                        sys.conn = Some(conn);
                        sys.sessions += 1;
                        sys.neg_gr = self.local_gr.iter().filter(|f| c.gr.contains(f)).copied().collect();
                        sys.neg_nbit = self.local_nbit && c.nbit && !self.local_gr.is_empty() && (!c.gr.is_empty() || c.nbit);
                        sys.neg_llgr = self.local_llgr.iter().filter(|f| c.llgr.contains(f)).copied().collect();
                        sys.fresh.clear();
                    }
                }
            }
            Op::Announce(f, k, no_llgr, pid) => {
                if !up {
                    return false;
                }
                let mut attrs = vec![
                    packet::Attribute::new_with_value(packet::Attribute::ORIGIN, 0).unwrap(),
                    packet::Attribute::new_with_bin(packet::Attribute::AS_PATH, {
                        let mut b = vec![2u8, 1];
                        b.extend_from_slice(&PEER_ASN.to_be_bytes());
                        b
                    })
                    .unwrap(),
                ];
                if *no_llgr {
                    attrs.push(packet::Attribute::new_with_bin(packet::Attribute::COMMUNITY, NO_LLGR.to_be_bytes().to_vec()).unwrap());
                } else if *k == 2 {
                    // a route the neighbour itself holds as an LLGR helper: it arrives tagged LLGR_STALE
                    attrs.push(packet::Attribute::new_with_bin(packet::Attribute::COMMUNITY, 0xffff_0006u32.to_be_bytes().to_vec()).unwrap());
                }
                let nexthop = match *f {
                    Family::IPV6 => bgp::Nexthop::V6("2001:db8::1".parse().unwrap()),
                    _ => bgp::Nexthop::V4(Ipv4Addr::new(127, 0, 1, 1)),
                };
                let msg = bgp::Message::Update(bgp::Update::Reach { family: *f, entries: vec![packet::PathNlri { nlri: net(f, *k), path_id: *pid }], nexthop: Some(nexthop), attr: Arc::new(attrs) });
                let conn = sys.conn.as_mut().unwrap();
                let ok = sys.rt.block_on(async { conn.send(&msg).await && conn.barrier().await });
                if !ok {
                    cur.push(("C10/session-lost-on-announce".into(), format!("{}: the session ended while a plain UPDATE was processed", op_name(o))));
                    let mut c = sys.conn.take().unwrap();
                    sys.rt.block_on(c.wait_end(true));
                } else {
                    sys.fresh.insert((fk(f), *k, *pid));
                }
            }
            Op::Eor(f) => {
                if !up {
                    return false;
                }
                let msg = bgp::Message::eor(*f);
                let conn = sys.conn.as_mut().unwrap();
                let ok = sys.rt.block_on(async { conn.send(&msg).await && conn.barrier().await });
                if !ok {
                    cur.push(("C10/session-lost-on-eor".into(), format!("{}: the session ended while an End-of-RIB was processed", op_name(o))));
                    let mut c = sys.conn.take().unwrap();
                    sys.rt.block_on(c.wait_end(true));
                }
            }
            Op::Drop(reason) => {
                if !up {
                    return false;
                }
                let mut conn = sys.conn.take().unwrap();
                let d = &sys.d;
                sys.rt.block_on(async {
                    match reason {
                        Reason::TcpClose => conn.wait_end(true).await,
                        Reason::NotifCease => {
                            conn.send(&bgp::Message::Notification(packet::Notification::CeaseAdminShutdown)).await;
                            conn.wait_end(false).await;
                        }
                        Reason::NotifHardReset => {
                            conn.send(&bgp::Message::Notification(packet::Notification::CeaseHardReset)).await;
                            conn.wait_end(false).await;
                        }
                        Reason::NotifUpdateErr => {
                            conn.send(&bgp::Message::Notification(packet::Notification::UpdateMalformedAttributeList)).await;
                            conn.wait_end(false).await;
                        }
                        Reason::LocalAdminShutdown => {
                            {
                                let g = d.global.read().await;
                                if let Some(p) = g.peers.get(&peer_ip()) {
                                    p.context.lock().unwrap().force_down(CloseReason::AdminShutdown, false);
                                }
                            }
                            conn.wait_end(false).await;
                        }
                        Reason::LocalHardReset => {
                            use api::go_bgp_service_server::GoBgpService;
                            let svc = super::super::grpc::GrpcService::new(Arc::new(tokio::sync::Notify::new()), d.active_tx.clone(), d.global.clone(), d.tables.clone());
                            if svc.reset_peer(tonic::Request::new(api::ResetPeerRequest { address: peer_ip().to_string(), soft: false, ..Default::default() })).await.is_err() {
                                machinery("C10: ResetPeer failed".into());
                            }
                            conn.wait_end(false).await;
                        }
                        Reason::LocalUpdateError => {
                            // UPDATE whose withdrawn-routes length runs past the message
                            let mut b = vec![0xffu8; 16];
                            b.extend_from_slice(&[0, 23, 2, 0, 9, 0, 0]);
                            conn.send_bytes(&b).await;
                            conn.wait_end(false).await;
                        }
                    }
                });
                ended = Some((reason.clone(), sys.neg_gr.clone(), sys.neg_nbit, sys.neg_llgr.clone()));
                sys.fresh.clear();
            }
            Op::ReconnectFail(stage) => {
                if up || sys.admin_down {
                    return false;
                }
                let res = sys.rt.block_on(async {
                    let Some(mut conn) = connect(&sys.d, peer_ip(), crate::fsm::Role::Passive).await? else {
                        return Ok::<_, String>(());
                    };
                    if *stage == FailStage::AfterOpen {
                        // read the daemon's OPEN, send ours, then vanish before KEEPALIVE
                        let _ = conn.read_msg().await?;
                        let my_open = bgp::Message::Open(bgp::Open {
                            as_number: PEER_ASN,
                            holdtime: HoldTime::new(90).unwrap(),
                            router_id: PEER_ID,
                            capability: vec![packet::Capability::MultiProtocol(Family::IPV4), packet::Capability::FourOctetAsNumber(PEER_ASN)],
                        });
                        conn.send(&my_open).await;
                        let _ = conn.read_msg().await?; // the daemon's KEEPALIVE
                    }
                    conn.wait_end(true).await;
                    Ok(())
                });
                if let Err(e) = res {
                    machinery(format!("reconnect_fail: {e}"));
                    sys.dead = true;
                    return false;
                }
            }
            Op::FireGrTimer => {
                let Some(pc) = &pre_ctx else { return false };
                if !pc.gr_timer_armed {
                    return false;
                }
                let d = &sys.d;
                let handled = sys.rt.block_on(async {
                    let ctx = {
                        let g = d.global.read().await;
                        g.peers.get(&peer_ip()).map(|p| p.context.clone())
                    };
                    if let Some(ctx) = ctx {
                        // the path real expiry takes: the timer task's oneshot fires
                        ctx.lock().unwrap().fire_gr_timer();
                        let c2 = ctx.clone();
                        settled(|| crate::gr::verif_gr::gr_kind(&c2.lock().unwrap().gr_state) != "PeerRestarting").await
                    } else {
                        true
                    }
                });
                if !handled {
                    cur.push(("C10/timer-fired-but-not-handled/restart".into(), format!("{}: the restart timer's explicit fire (what expiry / force_down sends to the timer task) was not acted upon: GrState did not leave PeerRestarting", op_name(o))));
                }
            }
            Op::FireLlgrTimer(f) => {
                let Some(pc) = &pre_ctx else { return false };
                if !pc.llgr_armed.contains(&fk(f)) {
                    return false;
                }
                let d = &sys.d;
                let fam = *f;
                let handled = sys.rt.block_on(async {
                    let ctx = {
                        let g = d.global.read().await;
                        g.peers.get(&peer_ip()).map(|p| p.context.clone())
                    };
                    if let Some(ctx) = ctx {
                        let before = crate::gr::verif_gr::fp_gr(&ctx.lock().unwrap().gr_state);
                        if let Some(tx) = ctx.lock().unwrap().llgr_family_timers.remove(&fam) {
                            let _ = tx.send(());
                        }
                        let c2 = ctx.clone();
                        settled(|| crate::gr::verif_gr::fp_gr(&c2.lock().unwrap().gr_state) != before).await
                    } else {
                        true
                    }
                });
                if !handled {
                    cur.push(("C10/timer-fired-but-not-handled/llgr".into(), format!("{}: the LLGR timer's explicit fire (what expiry / force_down sends to the timer task) was not acted upon: the GR state did not change, the LLGR-stale routes stay with no timer left", op_name(o))));
                }
            }
            Op::Disable => {
                if sys.admin_down {
                    return false;
                }
                let mut conn = sys.conn.take();
                let d = &sys.d;
                sys.rt.block_on(async {
                    {
                        // the disable_peer API handler
                        let mut g = d.global.write().await;
                        if let Some(p) = g.peers.get_mut(&peer_ip()) {
                            if !p.admin_down {
                                p.admin_down = true;
                                p.context.lock().unwrap().force_down(CloseReason::AdminShutdown, true);
                            }
                        }
                    }
                    if let Some(c) = conn.as_mut() {
                        c.wait_end(false).await;
                    }
                    // let fired timer handlers run
                    for _ in 0..20 {
                        tokio::time::sleep(Duration::from_micros(200)).await;
                    }
                });
                if conn.is_some() {
                    ended = Some((Reason::LocalAdminShutdown, sys.neg_gr.clone(), sys.neg_nbit, sys.neg_llgr.clone()));
                }
                sys.admin_down = true;
                sys.fresh.clear();
            }
            Op::Enable => {
                if !sys.admin_down {
                    return false;
                }
                let d = &sys.d;
                sys.rt.block_on(async {
                    let mut g = d.global.write().await;
                    if let Some(p) = g.peers.get_mut(&peer_ip()) {
                        p.admin_down = false;
                    }
                });
                sys.admin_down = false;
            }
        }
        if take_machinery().is_some() {
            sys.dead = true;
            return false;
        }

        // ------------------------------------------------------------ oracle
        let rib = rib_view(&sys.d.tables);
        let Some(cx) = ctx_view(&sys.d, &sys.rt) else {
            sys.dead = true;
            machinery("peer disappeared from Global.peers".into());
            return false;
        };
        let established = sys.conn.is_some();
        for f in FAMS {
            let k = fk(&f);
            let paths = rib.paths.get(&k).cloned().unwrap_or_default();
            // routes that do not belong to the current session: every route while the peer is
            // down, and everything not (re-)announced on the current session otherwise
            let leftovers: Vec<_> = paths
                .iter()
                .filter(|p| !established || !sys.fresh.iter().any(|(fkk, kk, pid)| *fkk == k && format!("{}", net(&f, *kk)) == p.0 && *pid == p.4))
                .collect();
            if leftovers.iter().any(|p| !p.1 && !p.2) {
                cur.push((
                    format!("C10/kept-but-not-marked-stale/{kind}"),
                    format!("{}: family {} keeps routes of an ended session that are not marked stale: {:?}", op_name(o), fname(&f), leftovers),
                ));
            }
            let any_stale = paths.iter().any(|p| p.1 || p.2) || !leftovers.is_empty();
            let covered = cx.gr_timer_armed || cx.llgr_armed.contains(&k) || (established && cx.pending_eor.contains(&f));
            if any_stale && !covered {
                cur.push((
                    format!("C10/stale-without-timer-or-eor/{kind}"),
                    format!(
                        "{}: family {} still holds stale routes {:?} but no restart timer, no LLGR timer for it and no End-of-RIB is pending (GrState {}, session up: {})",
                        op_name(o), fname(&f), paths, cx.gr_fp, established
                    ),
                ));
            }
            // NO_LLGR routes are gone once the LLGR period has started for the family
            if paths.iter().any(|p| p.2 && p.3) {
                cur.push((format!("C10/no-llgr-route-kept/{kind}"), format!("{}: a NO_LLGR route of family {} is still present in the LLGR-stale period: {:?}", op_name(o), fname(&f), paths)));
            }
            // routes announced on the current session are never removed by a purge
            if established {
                for (fkk, kk, pid) in &sys.fresh {
                    if *fkk == k {
                        let n = format!("{}", net(&f, *kk));
                        if !paths.iter().any(|p| p.0 == n && !p.1 && p.4 == *pid) {
                            cur.push((format!("C10/fresh-route-purged/{kind}"), format!("{}: {} announced on the current session is missing or stale: {:?}", op_name(o), n, paths)));
                        }
                    }
                }
            }
        }
        if let Some((reason, ngr, nbit, nllgr)) = &ended {
            // which families may be retained at all, by the statement
            let eligible = match reason {
                Reason::TcpClose => Some(true),
                Reason::NotifCease => Some(*nbit),
                Reason::NotifHardReset => Some(false),
                Reason::LocalAdminShutdown => Some(false),
                Reason::LocalHardReset => Some(false),
                Reason::LocalUpdateError => Some(false),
                // a received non-Cease NOTIFICATION with the N-bit: RFC 8538 retains, the
                // statement's wording is ambiguous -> both accepted; without N-bit never.
                Reason::NotifUpdateErr => {
                    if *nbit {
                        None
                    } else {
                        Some(false)
                    }
                }
            };
            for f in FAMS {
                let k = fk(&f);
                let paths = rib.paths.get(&k).cloned().unwrap_or_default();
                let negotiated = ngr.contains(&f) || nllgr.contains(&f);
                if !negotiated && !paths.is_empty() {
                    cur.push((
                        format!("C10/non-negotiated-family-kept/{kind}"),
                        format!("{}: family {} was not negotiated for GR/LLGR but its routes survived the drop: {:?}", op_name(o), fname(&f), paths),
                    ));
                }
                if eligible == Some(false) && !paths.is_empty() {
                    cur.push((
                        format!("C10/helper-mode-on-ineligible-drop/{kind}"),
                        format!("{}: the drop must not enter helper mode, yet family {} keeps routes {:?} (GrState {})", op_name(o), fname(&f), paths, cx.gr_fp),
                    ));
                }
                if eligible == Some(true) && negotiated && ngr.contains(&f) && sys.fresh.is_empty() {
                    // retained and marked stale (not asserted for LLGR-only families: NO_LLGR routes go)
                }
            }
            if eligible == Some(false) && (cx.gr_kind != "Idle" || cx.gr_timer_armed || !cx.llgr_armed.is_empty()) {
                cur.push((
                    format!("C10/helper-state-on-ineligible-drop/{kind}"),
                    format!("{}: after an ineligible drop GrState is {} (restart timer armed: {}, LLGR timers: {:?})", op_name(o), cx.gr_fp, cx.gr_timer_armed, cx.llgr_armed),
                ));
            }
            if eligible == Some(true) && !ngr.is_empty() && !sys.admin_down && !cx.gr_timer_armed {
                cur.push((format!("C10/restart-timer-not-armed/{kind}"), format!("{}: GR-eligible drop with GR families {} but no restart timer is armed (GrState {})", op_name(o), fl(ngr), cx.gr_fp)));
            }
        }
        if let (Op::ReconnectFail(_), Some(pc)) = (o, &pre_ctx) {
            if pc.gr_timer_armed != cx.gr_timer_armed || pc.llgr_armed != cx.llgr_armed {
                cur.push((
                    format!("C10/failed-reconnect-changed-timers/{kind}"),
                    format!("{}: timers before: restart={} llgr={:?}; after: restart={} llgr={:?} (GrState {})", op_name(o), pc.gr_timer_armed, pc.llgr_armed, cx.gr_timer_armed, cx.llgr_armed, cx.gr_fp),
                ));
            }
        }
        // FSM slots are free whenever no session is up
        if !established && (cx.act != crate::fsm::State::Idle || cx.pas != crate::fsm::State::Idle) {
            cur.push((format!("C10/fsm-slot-leaked/{kind}"), format!("{}: no session is up but FSM slots are {:?}/{:?}", op_name(o), cx.act, cx.pas)));
        }

        let mut now = BTreeSet::new();
        for (sig, what) in cur {
            let clause = sig.split('/').nth(1).unwrap_or("").to_string();
            if !sys.broken.contains(&clause) && !now.contains(&clause) {
                out.push((sig, what));
            }
            now.insert(clause);
        }
        sys.broken = now;
        true
    }

    fn fingerprint(&self, sys: &Sys) -> Vec<u8> {
        let rib = rib_view(&sys.d.tables);
        let cx = ctx_view(&sys.d, &sys.rt);
        let c = match &cx {
            Some(c) => format!("{}|{}|{:?}|{:?}|{:?}", c.gr_fp, c.gr_timer_armed, c.llgr_armed, c.act, c.pas),
            None => "-".into(),
        };
        format!(
            "{:?}|{}|up={}|{:?}|{}|{:?}|{:?}|adm={}|s={}|{:?}|dead={}",
            rib.paths, c, sys.conn.is_some(), sys.neg_gr.iter().map(fk).collect::<Vec<_>>(), sys.neg_nbit, sys.neg_llgr.iter().map(fk).collect::<Vec<_>>(), sys.fresh, sys.admin_down, sys.sessions, sys.broken, sys.dead
        )
        .into_bytes()
    }

    fn observe(&self, sys: &Sys) -> u64 {
        let cx = ctx_view(&sys.d, &sys.rt);
        let k = cx.map(|c| c.gr_kind.len() as u64).unwrap_or(0);
        let rib = rib_view(&sys.d.tables);
        k * 100 + rib.paths.values().map(|v| v.len() as u64 + v.iter().filter(|p| p.1).count() as u64 * 7).sum::<u64>()
    }

    fn panic_sig(&self, msg: &str) -> Option<(String, String)> {
        // a panic inside a harness step kills a runtime mid-flight: treat as machinery unless it is in daemon code
        if msg.contains("/verif/") {
            machinery(format!("harness panic: {msg}"));
            None
        } else {
            Some((format!("C10/panic/{}", bfs::panic_loc(msg)), format!("the daemon panicked: {msg}")))
        }
    }
}

fn live_models(thorough: bool) -> Vec<LiveModel> {
    let (v4, v6) = (Family::IPV4, Family::IPV6);
    let mk = |name: &str, local_gr: Vec<Family>, local_nbit: bool, local_llgr: Vec<Family>, ests: Vec<EstCaps>, fams: Vec<Family>, reasons: Vec<Reason>, addpath: bool| {
        let mut ops: Vec<Op> = ests.into_iter().map(Op::Est).collect();
        for f in &fams {
            if addpath && *f == Family::IPV4 {
                ops.push(Op::Announce(*f, 0, false, 1));
                ops.push(Op::Announce(*f, 0, false, 2));
            } else {
                ops.push(Op::Announce(*f, 0, false, 0));
            }
            if !local_llgr.is_empty() {
                ops.push(Op::Announce(*f, 1, true, if addpath && *f == Family::IPV4 { 1 } else { 0 }));
                if *f == Family::IPV4 {
                    ops.push(Op::Announce(*f, 2, false, if addpath { 1 } else { 0 }));
                }
            }
            ops.push(Op::Eor(*f));
        }
        for r in reasons {
            ops.push(Op::Drop(r));
        }
        ops.push(Op::ReconnectFail(FailStage::BeforeOpen));
        ops.push(Op::ReconnectFail(FailStage::AfterOpen));
        ops.push(Op::FireGrTimer);
        for f in &local_llgr {
            ops.push(Op::FireLlgrTimer(*f));
        }
        ops.push(Op::Disable);
        ops.push(Op::Enable);
        LiveModel { name: name.into(), local_gr, local_nbit, local_llgr, addpath, ops }
    };
    let all_reasons = vec![Reason::TcpClose, Reason::NotifCease, Reason::NotifHardReset, Reason::NotifUpdateErr, Reason::LocalAdminShutdown, Reason::LocalUpdateError, Reason::LocalHardReset];
    let mut v = vec![
        // GR only, one family negotiated, no N-bit
        mk(
            "c10-gr-v4",
            vec![v4],
            false,
            vec![],
            vec![EstCaps { gr: vec![v4], nbit: false, llgr: vec![] }, EstCaps { gr: vec![], nbit: false, llgr: vec![] }],
            vec![v4],
            vec![Reason::TcpClose, Reason::NotifCease, Reason::LocalAdminShutdown],
            false,
        ),
    ];
    v.push(mk(
        "c10-gr-addpath",
        vec![v4],
        false,
        vec![],
        vec![EstCaps { gr: vec![v4], nbit: false, llgr: vec![] }],
        vec![v4],
        vec![Reason::TcpClose],
        true,
    ));
    {
        v.push(mk(
            "c10-gr-nbit-2fam",
            vec![v4, v6],
            true,
            vec![],
            vec![EstCaps { gr: vec![v4, v6], nbit: true, llgr: vec![] }, EstCaps { gr: vec![v4], nbit: false, llgr: vec![] }, EstCaps { gr: vec![], nbit: false, llgr: vec![] }],
            vec![v4, v6],
            all_reasons.clone(),
            false,
        ));
        v.push(mk(
            "c10-gr-llgr",
            vec![v4],
            true,
            vec![v4],
            vec![EstCaps { gr: vec![v4], nbit: true, llgr: vec![v4] }, EstCaps { gr: vec![], nbit: false, llgr: vec![v4] }, EstCaps { gr: vec![], nbit: false, llgr: vec![] }],
            vec![v4],
            all_reasons.clone(),
            false,
        ));
        v.push(mk(
            "c10-gr2-llgr1",
            vec![v4, v6],
            false,
            vec![v4],
            vec![EstCaps { gr: vec![v4, v6], nbit: false, llgr: vec![v4] }, EstCaps { gr: vec![v6], nbit: false, llgr: vec![] }],
            vec![v4, v6],
            vec![Reason::TcpClose, Reason::NotifCease],
            false,
        ));
    }
    let _ = thorough;
    v
}

// ---------------------------------------------------------------------------
// Part (i): pure GrState fixpoint.  The reference keeps, per family, the set of
// held route generations as (gr-stale, llgr-stale) flag pairs and applies the
// driver's table calls for every machine output.

struct PureModel {
    ops: Vec<PIn>,
}

#[derive(Clone, Debug)]
enum PIn {
    /// a session reaches Established having negotiated these GR / LLGR families
    Established(Vec<Family>, Vec<Family>),
    /// the session ends in a GR-eligible way
    DroppedEligible,
    /// the session ends in a way that must not enter helper mode
    DroppedIneligible,
    Eor(Family),
    Timer,
    LlgrTimer(Family),
}

struct PSys {
    g: crate::gr::GrState,
    /// per family: flag pairs (gr, llgr) of the route generations still held from ended sessions
    held: BTreeMap<u32, BTreeSet<(bool, bool)>>,
    gr_timer: bool,
    llgr_timers: BTreeSet<u32>,
    up: bool,
    neg_gr: Vec<Family>,
    neg_llgr: Vec<Family>,
    broken: BTreeSet<String>,
}

impl Model for PureModel {
    type Sys = PSys;
    fn name(&self) -> String {
        "c10-pure-grstate".into()
    }
    fn n_ops(&self) -> usize {
        self.ops.len()
    }
    fn op_name(&self, op: usize) -> String {
        match &self.ops[op] {
            PIn::Established(g, l) => format!("established(gr={{{}}},llgr={{{}}})", fl(g), fl(l)),
            PIn::DroppedEligible => "dropped(eligible)".into(),
            PIn::DroppedIneligible => "dropped(ineligible)".into(),
            PIn::Eor(f) => format!("eor({})", fname(f)),
            PIn::Timer => "timer".into(),
            PIn::LlgrTimer(f) => format!("llgr_timer({})", fname(f)),
        }
    }
    fn init(&self) -> PSys {
        PSys { g: crate::gr::GrState::new(), held: BTreeMap::new(), gr_timer: false, llgr_timers: BTreeSet::new(), up: false, neg_gr: vec![], neg_llgr: vec![], broken: BTreeSet::new() }
    }
    fn step(&self, s: &mut PSys, op: usize, out: &mut Vec<(String, String)>) -> bool {
        use crate::gr::{GrInput, GrOutput, GrParams, LlgrParams};
        let i = &self.ops[op];
        match i {
            PIn::Timer if !s.gr_timer || s.up => return false,
            PIn::LlgrTimer(f) if !s.llgr_timers.contains(&fk(f)) || s.up => return false,
            PIn::DroppedEligible | PIn::DroppedIneligible if !s.up => return false,
            PIn::Established(..) if s.up => return false,
            PIn::Eor(_) if !s.up => return false,
            _ => {}
        }
        let mut input = None;
        match i {
            PIn::Established(g, l) => {
                s.up = true;
                s.neg_gr = g.clone();
                s.neg_llgr = l.clone();
                // GrSessionEstablished handler: cancel_gr_timer() before the machine runs
                s.gr_timer = false;
                input = Some(GrInput::SessionEstablished { gr_families: g.clone() });
            }
            PIn::DroppedEligible => {
                s.up = false;
                // session_loop: families neither GR nor LLGR are dropped, GR families restaled
                for f in FAMS {
                    let k = fk(&f);
                    let e = s.held.entry(k).or_default();
                    if s.neg_gr.contains(&f) {
                        let mut n: BTreeSet<(bool, bool)> = e.iter().map(|(_, l)| (true, *l)).collect();
                        n.insert((true, false)); // the session's own routes
                        *e = n;
                    } else if s.neg_llgr.contains(&f) {
                        e.insert((false, false));
                    } else {
                        e.clear();
                    }
                }
                if s.neg_gr.is_empty() && s.neg_llgr.is_empty() {
                    // apply_disconnect non-GR branch: the machine is not consulted
                    s.g = crate::gr::GrState::new();
                    s.gr_timer = false;
                    s.llgr_timers.clear();
                } else {
                    input = Some(GrInput::SessionDropped {
                        gr: if s.neg_gr.is_empty() { None } else { Some(GrParams { families: s.neg_gr.clone(), restart_time: Duration::from_secs(120) }) },
                        llgr: if s.neg_llgr.is_empty() { None } else { Some(LlgrParams { families: s.neg_llgr.iter().map(|f| (*f, Duration::from_secs(3600))).collect() }) },
                    });
                }
            }
            PIn::DroppedIneligible => {
                s.up = false;
                s.held.clear();
                s.g = crate::gr::GrState::new();
                s.gr_timer = false;
                s.llgr_timers.clear();
            }
            PIn::Eor(f) => input = Some(GrInput::EorReceived(*f)),
            PIn::Timer => {
                s.gr_timer = false;
                input = Some(GrInput::TimerExpired);
            }
            PIn::LlgrTimer(f) => {
                s.llgr_timers.remove(&fk(f));
                input = Some(GrInput::LlgrTimerExpired(*f));
            }
        }
        if let Some(input) = input {
            for o in s.g.process(input) {
                match o {
                    GrOutput::StartTimer(_) => s.gr_timer = true,
                    GrOutput::StopTimer => s.gr_timer = false,
                    GrOutput::DeleteStaleRoutes(fs) => {
                        for f in fs {
                            if let Some(e) = s.held.get_mut(&fk(&f)) {
                                if s.up {
                                    e.retain(|(g, _)| !*g); // drop_stale_families
                                } else {
                                    e.clear(); // timer path: drop_families
                                }
                            }
                        }
                    }
                    GrOutput::StartLlgrTimers(fs) => {
                        if matches!(i, PIn::Timer) {
                            // gr_restart_timer_expired: GR-stale routes of families LLGR does not take over are purged
                            for (f, e) in s.held.iter_mut() {
                                if !fs.iter().any(|(lf, _)| fk(lf) == *f) {
                                    e.retain(|(g, _)| !*g);
                                }
                            }
                        }
                        for (f, _) in fs {
                            s.llgr_timers.insert(fk(&f));
                            if let Some(e) = s.held.get_mut(&fk(&f)) {
                                *e = e.iter().map(|(g, _)| (*g, true)).collect(); // restale_llgr marks every path of the peer
                            }
                        }
                    }
                    GrOutput::StopLlgrTimers => s.llgr_timers.clear(),
                    GrOutput::DeleteLlgrStaleRoutes(fs) => {
                        for f in fs {
                            if let Some(e) = s.held.get_mut(&fk(&f)) {
                                e.retain(|(_, l)| !*l);
                            }
                        }
                    }
                }
            }
        }
        let pending: BTreeSet<u32> = crate::gr::verif_gr::gr_pending_eor(&s.g).iter().map(fk).collect();
        let mut cur = Vec::new();
        for (f, gens) in &s.held {
            if gens.is_empty() {
                continue;
            }
            let covered = s.gr_timer || s.llgr_timers.contains(f) || (s.up && pending.contains(f));
            if !covered {
                let kind = match i {
                    PIn::Established(..) => "established",
                    PIn::DroppedEligible => "dropped",
                    PIn::DroppedIneligible => "dropped-ineligible",
                    PIn::Eor(_) => "eor",
                    PIn::Timer => "timer",
                    PIn::LlgrTimer(_) => "llgr-timer",
                };
                cur.push((
                    format!("C10/pure/stale-family-uncovered/{kind}"),
                    format!("{}: family {:#x} still holds routes of ended sessions (flags {:?}) but no timer is armed and no End-of-RIB is awaited (GrState {})", self.op_name(op), f, gens, crate::gr::verif_gr::fp_gr(&s.g)),
                ));
            }
        }
        let mut now = BTreeSet::new();
        for (sig, what) in cur {
            let clause = sig.split('/').nth(2).unwrap_or("").to_string();
            if !s.broken.contains(&clause) && !now.contains(&clause) {
                out.push((sig, what));
            }
            now.insert(clause);
        }
        s.broken = now;
        true
    }
    fn fingerprint(&self, s: &PSys) -> Vec<u8> {
        format!("{}|{:?}|{}|{:?}|{}|{:?}|{:?}|{:?}", crate::gr::verif_gr::fp_gr(&s.g), s.held, s.gr_timer, s.llgr_timers, s.up, s.neg_gr.iter().map(fk).collect::<Vec<_>>(), s.neg_llgr.iter().map(fk).collect::<Vec<_>>(), s.broken).into_bytes()
    }
    fn observe(&self, s: &PSys) -> u64 {
        crate::gr::verif_gr::gr_kind(&s.g).len() as u64 * 10 + s.held.values().map(|v| v.len() as u64).sum::<u64>()
    }
}

fn pure_model() -> PureModel {
    let (v4, v6) = (Family::IPV4, Family::IPV6);
    let mut ops = Vec::new();
    for g in [vec![], vec![v4], vec![v4, v6]] {
        for l in [vec![], vec![v4]] {
            ops.push(PIn::Established(g.clone(), l));
        }
    }
    ops.push(PIn::DroppedEligible);
    ops.push(PIn::DroppedIneligible);
    for f in [v4, v6] {
        ops.push(PIn::Eor(f));
        ops.push(PIn::LlgrTimer(f));
    }
    ops.push(PIn::Timer);
    PureModel { ops }
}

pub(crate) fn run(replay: Option<&str>) -> Report {
    let mut rep = Report::new("C10", "hd-c10");
    let pm = pure_model();
    if let Some(case) = replay {
        let Some((name, hist)) = bfs::decode_case(case) else {
            rep.machinery_error = Some("bad replay case".into());
            return rep;
        };
        if name == pm.name() {
            eprintln!("replay {}", bfs::render(&pm, &hist));
            rep.violations_from(bfs::replay(&pm, &hist, true));
        } else if let Some(m) = live_models(true).into_iter().chain(live_models(false)).find(|m| m.name == name) {
            eprintln!("replay {}", bfs::render(&m, &hist));
            rep.violations_from(bfs::replay(&m, &hist, true));
        } else {
            rep.machinery_error = Some(format!("unknown model {name}"));
        }
        rep.evaluations = 1;
        rep.machinery_error = rep.machinery_error.or(take_machinery());
        return rep;
    }
    let thorough = rep.thorough();
    rep.rule = "(i) fixpoint BFS of the pure GrState machine with the driver's timer/table bookkeeping as reference; (ii) explicit-state BFS over LIVE sessions (real accept_connection + PeerSession::run + apply_disconnect + timer tasks over loopback TCP, harness = remote speaker): establish with chosen GR/LLGR/N-bit capabilities, announce (plain / NO_LLGR), End-of-RIB, drop by 6 reasons, failed reconnects (before/after OPEN), restart / LLGR timer expiry via the code's own one-shot senders, disable/enable; oracle on every quiescent state; non-trivial = distinct canonical (RIB stale flags, GrState, timers, FSM slots, session) state".into();
    rep.notes.push("assume: loopback TCP delivers in order; quiescence is established by KEEPALIVE barriers on the session's receive counter and by task completion, never by sleeping".into());
    rep.notes.push("assume: hold-timer expiry as a drop reason is not enumerated (needs >= 3 s of real time per occurrence)".into());
    let st = bfs::bfs(&pm, &BfsCfg { max_depth: 30, max_secs: 300, ..Default::default() }, &mut rep);
    if !st.fixpoint {
        rep.caps_hit.push("c10-pure: no fixpoint within depth 30".into());
        rep.exhaustive = false;
    }
    let depth = if thorough { 30 } else { 8 };
    for m in live_models(thorough) {
        // the add-path scenario (partial re-announcement before End-of-RIB) needs 7 steps
        let d = if m.addpath { depth.max(7) } else { depth };
        let cfg = BfsCfg { max_depth: d, max_secs: if thorough { 2400 } else { 25 }, ..Default::default() };
        bfs::bfs(&m, &cfg, &mut rep);
        if let Some(e) = take_machinery() {
            rep.machinery_error = Some(e);
            break;
        }
    }
    rep
}
