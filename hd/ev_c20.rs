// C20 harness part (stub until built)
use crate::verif::vx::report::Report;

pub(crate) fn run(_replay: Option<&str>) -> Report {
    let mut rep = Report::new("C20", "hd-c20");
    rep.machinery_error = Some("harness not built yet".into());
    rep
}
