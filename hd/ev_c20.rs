// C20 — kernel FIB requests and next-hop tracking stay in step with the RIB.
//
// Explicit-state BFS over the real `TableManager` (1 and 2 shards) with the
// kernel request tap (`KernelHandle::verif_tap`) installed as kernel handle.
// A state is a history of daemon-level operations (route insert / replace /
// remove by peers A, B, the local source and the kernel source; session loss
// without and with graceful restart, reconnect with NEW per-family sources,
// stale purge, LLGR period, soft reset IN under a togglable import policy,
// next-hop reachability reports).  After every step the tap is drained and
// folded, and three oracle clauses are evaluated against the RIB:
//
//   fib  fold of all `Apply` requests per (table id, prefix) (an empty
//        next-hop list withdraws) == next-hop set of the reference best path
//        and the paths tied with it before the router-id step, for IPv4
//        prefixes in the main table and for VPNv4 prefixes (envelope stripped)
//        in every VRF table whose import targets match the best path;
//   nht  registrations - unregistrations per address == number of
//        peer-learned RIB entries using the address, never negative;
//   sel  paths whose next hop was reported unreachable are absent from
//        `collect_loc_rib_paths`, every other accepted path is present.
//
// The reference selection is written from property C02's decision order as a
// plain comparison chain over the paths dumped with `iter_reach_post`; it never
// calls the comparator, `ecmp_paths` or `can_import` of the code under test.

use crate::table_manager::TableManager;
use crate::verif::vx::bfs::{self, BfsCfg, Model};
use crate::verif::vx::report::{Report, Violation};
use rustybgp_kernel as kernel;
use rustybgp_packet::{self as packet, Attribute, Family, Nlri, bgp};
use rustybgp_table as table;
use std::cmp::Ordering as Cmp;
use std::collections::{BTreeMap, BTreeSet};
use std::fmt::Write as _;
use std::net::{IpAddr, Ipv4Addr};
use std::sync::{Arc, OnceLock};

// ---------------------------------------------------------------- universe

const A: u8 = 0;
const B: u8 = 1;
const L: u8 = 2;
const K: u8 = 3;
const PEER_NAMES: [&str; 4] = ["A", "B", "L", "K"];

const P1: u8 = 0;
const Q1: u8 = 1;
const VPN1: u8 = 2;
const VPN2: u8 = 3;
const PFX_NAMES: [&str; 4] = ["P1", "Q1", "VPN1", "VPN2"];

const X: u8 = 0;
const Y: u8 = 1;
const NL: u8 = 2;
const ATTR_NAMES: [&str; 3] = ["X", "Y", "Nl"];

const RT1: [u8; 8] = [0x00, 0x02, 0xfd, 0xe8, 0, 0, 0, 1];
const RT2: [u8; 8] = [0x00, 0x02, 0xfd, 0xe8, 0, 0, 0, 2];
const LLGR_STALE: u32 = 0xffff_0006;
const NO_LLGR: u32 = 0xffff_0007;

const FAMILIES: [Family; 2] = [Family::IPV4, Family::IPV4_VPN];

fn nh_addr(n: u8) -> Ipv4Addr {
    Ipv4Addr::new(192, 0, 2, 1 + n)
}
fn nh(n: u8) -> bgp::Nexthop {
    bgp::Nexthop::V4(nh_addr(n))
}
fn peer_addr(p: u8) -> IpAddr {
    IpAddr::V4(Ipv4Addr::new(10, 0, 0, 1 + p))
}

fn as_path_seq(n: usize) -> Attribute {
    let mut b = vec![Attribute::AS_PATH_TYPE_SEQ, n as u8];
    for i in 0..n {
        b.extend_from_slice(&(65100u32 + i as u32).to_be_bytes());
    }
    Attribute::new_with_bin(Attribute::AS_PATH, b).unwrap()
}

fn attr_content(i: u8) -> Vec<Attribute> {
    let origin = Attribute::new_with_value(Attribute::ORIGIN, 0).unwrap();
    let lp = |v| Attribute::new_with_value(Attribute::LOCAL_PREF, v).unwrap();
    let rt = |r: [u8; 8]| Attribute::new_with_bin(Attribute::EXTENDED_COMMUNITY, r.to_vec()).unwrap();
    match i {
        // X: the better vector; two peers announcing X tie on every step before router-id
        X => vec![origin, as_path_seq(1), lp(200), rt(RT1)],
        // Y: worse (LOCAL_PREF, AS_PATH length), carries another route target
        Y => vec![origin, as_path_seq(2), lp(100), rt(RT2)],
        // Nl: like X but carries NO_LLGR (dropped when the LLGR period starts)
        _ => vec![
            origin,
            as_path_seq(1),
            lp(200),
            Attribute::new_with_bin(Attribute::COMMUNITY, NO_LLGR.to_be_bytes().to_vec()).unwrap(),
            rt(RT1),
        ],
    }
}

/// P1 and Q1 are chosen so that a 2-shard TableManager stores them on
/// different shards (found by trying candidates on a scratch instance).
fn v4_prefixes() -> &'static [Nlri; 2] {
    static PFX: OnceLock<[Nlri; 2]> = OnceLock::new();
    PFX.get_or_init(|| {
        let mut by_shard: [Option<Nlri>; 2] = [None, None];
        for x in 1..=64u8 {
            let n = Nlri::V4(bgp::Ipv4Net { addr: Ipv4Addr::new(10, x, 0, 0), mask: 24 });
            let tm = TableManager::new(2);
            tm.insert_route(
                table::Source::local(),
                Family::IPV4,
                packet::PathNlri::new(n.clone()),
                Some(nh(0)),
                Arc::new(attr_content(X)),
                None,
                0,
            );
            for s in 0..2 {
                let cnt = tm.shards[s].lock().unwrap().rtable.state(Family::IPV4).num_destination;
                if cnt == 1 && by_shard[s].is_none() {
                    by_shard[s] = Some(n.clone());
                }
            }
            if by_shard[0].is_some() && by_shard[1].is_some() {
                break;
            }
        }
        [by_shard[0].clone().expect("prefix for shard 0"), by_shard[1].clone().expect("prefix for shard 1")]
    })
}

fn build_prefix(i: u8) -> (Family, Nlri) {
    match i {
        P1 => (Family::IPV4, v4_prefixes()[0].clone()),
        Q1 => (Family::IPV4, v4_prefixes()[1].clone()),
        _ => (
            Family::IPV4_VPN,
            Nlri::VpnV4(packet::vpn::VpnV4Nlri {
                labels: packet::mpls::MplsLabelStack::new(vec![packet::mpls::MplsLabel::new(100)]),
                rd: packet::rd::RouteDistinguisher::TwoOctetAs {
                    admin: 65000,
                    assigned: if i == VPN1 { 1 } else { 2 },
                },
                prefix: bgp::Ipv4Net { addr: Ipv4Addr::new(10, 99, 0, 0), mask: 24 },
            }),
        ),
    }
}

struct PfxTbl {
    pfx: Vec<(Family, Nlri, String)>,
    /// the VPN prefixes with the envelope stripped, as they appear inside a VRF table
    local: (Nlri, String),
}

fn pfx_tbl() -> &'static PfxTbl {
    static T: OnceLock<PfxTbl> = OnceLock::new();
    T.get_or_init(|| {
        let pfx = (0..4u8)
            .map(|i| {
                let (f, n) = build_prefix(i);
                let s = format!("{}", n);
                (f, n, s)
            })
            .collect();
        let l = Nlri::V4(bgp::Ipv4Net { addr: Ipv4Addr::new(10, 99, 0, 0), mask: 24 });
        let ls = format!("{}", l);
        PfxTbl { pfx, local: (l, ls) }
    })
}

fn prefix(i: u8) -> (Family, Nlri) {
    let e = &pfx_tbl().pfx[i as usize];
    (e.0, e.1.clone())
}

/// Rendering of an NLRI (table lookup for the universe's prefixes).
fn net_name(n: &Nlri) -> String {
    let t = pfx_tbl();
    for e in &t.pfx {
        if e.1 == *n {
            return e.2.clone();
        }
    }
    if t.local.0 == *n {
        return t.local.1.clone();
    }
    format!("{}", n)
}

// --------------------------------------------------------------------- ops

#[derive(Clone, Debug, PartialEq)]
enum Op {
    Ins { peer: u8, pfx: u8, attr: u8, nh: u8 },
    Rem { peer: u8, pfx: u8 },
    /// session ends; `stale`: graceful restart negotiated for all families
    Down { peer: u8, stale: bool },
    /// session ends with graceful restart negotiated for IPv4 only (VPNv4 dropped)
    DownMixed { peer: u8 },
    /// a new session reaches Established: NEW per-family sources
    Up { peer: u8 },
    /// restart timer expiry / End-of-RIB of the new session
    DropStale { peer: u8 },
    /// session ends with LLGR but no GR negotiated: the LLGR period starts at once
    DownLlgr { peer: u8 },
    /// restart timer expired with LLGR negotiated
    MarkLlgr { peer: u8 },
    /// LLGR timer expiry / End-of-RIB of the new session after the LLGR period
    DropLlgr { peer: u8 },
    SoftIn { peer: u8 },
    /// install / remove the pack's import policy
    Policy,
    Nh { n: u8, up: bool },
    /// restarting speaker: selection deferral for all families, from before the first route
    StartDeferral,
    EndDeferral,
}

fn op_str(o: &Op) -> String {
    let p = |x: &u8| PEER_NAMES[*x as usize];
    match o {
        Op::Ins { peer, pfx, attr, nh } => {
            if *peer == K {
                format!("insert(K,{},N{})", PFX_NAMES[*pfx as usize], nh + 1)
            } else {
                format!("insert({},{},{},N{})", p(peer), PFX_NAMES[*pfx as usize], ATTR_NAMES[*attr as usize], nh + 1)
            }
        }
        Op::Rem { peer, pfx } => format!("remove({},{})", p(peer), PFX_NAMES[*pfx as usize]),
        Op::Down { peer, stale } => format!("{}({})", if *stale { "down_stale" } else { "down_drop" }, p(peer)),
        Op::DownMixed { peer } => format!("down_mixed({})", p(peer)),
        Op::Up { peer } => format!("up({})", p(peer)),
        Op::DropStale { peer } => format!("drop_stale({})", p(peer)),
        Op::DownLlgr { peer } => format!("down_llgr({})", p(peer)),
        Op::MarkLlgr { peer } => format!("mark_llgr({})", p(peer)),
        Op::DropLlgr { peer } => format!("drop_llgr({})", p(peer)),
        Op::SoftIn { peer } => format!("soft_reset_in({})", p(peer)),
        Op::Policy => "policy_toggle".into(),
        Op::Nh { n, up } => format!("nexthop(N{},{})", n + 1, if *up { "up" } else { "down" }),
        Op::StartDeferral => "start_deferral".to_string(),
        Op::EndDeferral => "end_deferral".to_string(),
    }
}

fn op_kind(name: &str) -> String {
    name.split('(').next().unwrap_or(name).to_string()
}

#[derive(Clone, Copy, Debug, PartialEq)]
enum Pol {
    /// rewrites every next hop to N2.  NOTE: `PolicyTable::build_assignment`
    /// refuses next-hop actions in import policies, so the daemon can never
    /// install this assignment; it is in the universe because the property's
    /// quantifier names it.  Violations that need it carry `/import-nh-policy`.
    NhRewrite,
    /// rejects routes whose next hop is N1 (installable through the API)
    RejectN1,
}

struct C20Model {
    name: String,
    shards: usize,
    /// (table id, import route targets)
    vrfs: Vec<(u32, Vec<[u8; 8]>)>,
    /// role of peer B (peer A is always eBGP)
    b_role: table::PeerRole,
    pol: Pol,
    /// a fresh attribute Arc per insert (as separate UPDATEs do) instead of interned ones
    fresh: bool,
    ops: Vec<Op>,
    max_sessions: usize,
    /// per-session prefix limit of every peer session (IPv4 unicast)
    limit: Option<u32>,
}

struct Sess {
    v4: Arc<table::Source>,
    vpn: Arc<table::Source>,
}

pub(crate) struct Sys {
    tm: Arc<TableManager>,
    tap: kernel::VerifTap,
    sessions: [Vec<Sess>; 2],
    up: [bool; 2],
    stale_pending: [bool; 2],
    llgr_pending: [bool; 2],
    policy_on: bool,
    down: BTreeSet<u8>,
    pool: Vec<Arc<Vec<Attribute>>>,
    /// fold of Apply requests: (table id, 0 = main; prefix) -> next-hop set
    fib: BTreeMap<(u32, String), BTreeSet<IpAddr>>,
    /// fold of register - unregister per address
    nht: BTreeMap<IpAddr, i64>,
    /// oracle keys currently false (a key is reported on the step that breaks it)
    broken: BTreeSet<String>,
    applies: u64,
    /// next hop announced last per (peer, prefix) slot
    announced: BTreeMap<(u8, u8), u8>,
    /// VPN prefixes ever announced in this history
    vpn_seen: BTreeSet<u8>,
    deferring: bool,
    touched: bool,
    /// a deferral took place in this history (hidden table state must not be merged away)
    ever_deferred: bool,
    /// the current session's prefix-limit counter per peer
    limit_ctr: [Arc<std::sync::atomic::AtomicU64>; 2],
}

// ------------------------------------------------------ reference selection

struct RefPath {
    family: Family,
    net: Nlri,
    src: Arc<table::Source>,
    attr: Arc<Vec<Attribute>>,
    nh: Option<IpAddr>,
}

fn ref_local_pref(a: &[Attribute]) -> u32 {
    a.iter().find(|x| x.code() == Attribute::LOCAL_PREF).and_then(|x| x.value()).unwrap_or(100)
}
fn ref_origin(a: &[Attribute]) -> u32 {
    a.iter().find(|x| x.code() == Attribute::ORIGIN).and_then(|x| x.value()).unwrap_or(2)
}
/// AS_PATH length: a sequence counts its members, a set counts one, confederation segments zero.
fn ref_as_path_len(a: &[Attribute]) -> usize {
    let Some(b) = a.iter().find(|x| x.code() == Attribute::AS_PATH).and_then(|x| x.binary()) else {
        return 0;
    };
    let mut i = 0;
    let mut n = 0;
    while i + 2 <= b.len() {
        let (t, c) = (b[i], b[i + 1] as usize);
        match t {
            2 => n += c,
            1 => n += 1,
            _ => {}
        }
        i += 2 + 4 * c;
    }
    n
}
fn ref_cluster_len(a: &[Attribute]) -> usize {
    a.iter().find(|x| x.code() == Attribute::CLUSTER_LIST).and_then(|x| x.binary()).map(|b| b.len() / 4).unwrap_or(0)
}
fn ref_llgr_stale(p: &RefPath) -> bool {
    p.src.is_llgr_stale()
        || p.attr
            .iter()
            .find(|x| x.code() == Attribute::COMMUNITY)
            .and_then(|x| x.binary())
            .is_some_and(|b| b.chunks(4).any(|c| c == LLGR_STALE.to_be_bytes()))
}
fn ref_is_ebgp(p: &RefPath) -> bool {
    // the local and the kernel source carry the iBGP role in this code base
    matches!(p.src.role, table::PeerRole::Ebgp | table::PeerRole::RsClient)
}
fn ref_router_id(p: &RefPath) -> u32 {
    p.attr.iter().find(|x| x.code() == Attribute::ORIGINATOR_ID).and_then(|x| x.value()).unwrap_or(p.src.router_id)
}

/// Decision order of property C02 up to (excluding) the router-id step; Less = a is better.
fn ref_cmp_before_router_id(a: &RefPath, b: &RefPath) -> Cmp {
    ref_llgr_stale(a)
        .cmp(&ref_llgr_stale(b))
        .then(ref_local_pref(&b.attr).cmp(&ref_local_pref(&a.attr)))
        .then(ref_as_path_len(&a.attr).cmp(&ref_as_path_len(&b.attr)))
        .then(ref_origin(&a.attr).cmp(&ref_origin(&b.attr)))
        .then(ref_is_ebgp(b).cmp(&ref_is_ebgp(a)))
        .then(a.src.is_stale().cmp(&b.src.is_stale()))
        .then(ref_cluster_len(&a.attr).cmp(&ref_cluster_len(&b.attr)))
}

fn ref_imports(import: &[[u8; 8]], attr: &[Attribute]) -> bool {
    for a in attr {
        if a.code() == Attribute::EXTENDED_COMMUNITY {
            if let Some(b) = a.binary() {
                let mut i = 0;
                while i + 8 <= b.len() {
                    if import.iter().any(|rt| rt[..] == b[i..i + 8]) {
                        return true;
                    }
                    i += 8;
                }
            }
        }
    }
    false
}

fn local_prefix(n: &Nlri) -> Option<String> {
    match n {
        Nlri::VpnV4(v) => Some(net_name(&Nlri::V4(v.prefix))),
        _ => None,
    }
}

fn show_set(s: Option<&BTreeSet<IpAddr>>) -> String {
    match s {
        None => "nothing".into(),
        Some(s) if s.is_empty() => "nothing".into(),
        Some(s) => format!("{{{}}}", s.iter().map(|a| a.to_string()).collect::<Vec<_>>().join(",")),
    }
}

// ------------------------------------------------------------------- model

impl C20Model {
    fn mk_session(&self, peer: u8) -> Sess {
        let (role, asn) = if peer == A {
            (table::PeerRole::Ebgp, 65001)
        } else if self.b_role == table::PeerRole::Ebgp {
            (table::PeerRole::Ebgp, 65002)
        } else {
            (self.b_role, 65000)
        };
        let mk = || {
            Arc::new(table::Source::new(
                peer_addr(peer),
                IpAddr::V4(Ipv4Addr::new(10, 0, 0, 254)),
                asn,
                65000,
                Ipv4Addr::new(10, 0, 0, 1 + peer),
                role,
            ))
        };
        Sess { v4: mk(), vpn: mk() }
    }

    fn policy(&self) -> Arc<table::PolicyAssignment> {
        let stmt = match self.pol {
            Pol::NhRewrite => table::Statement {
                name: Arc::from("st"),
                conditions: vec![],
                disposition: None,
                actions: table::Actions {
                    nexthop: Some(table::NexthopAction::Address(IpAddr::V4(nh_addr(1)))),
                    ..Default::default()
                },
            },
            Pol::RejectN1 => table::Statement {
                name: Arc::from("st"),
                conditions: vec![table::Condition::Nexthop(vec![IpAddr::V4(nh_addr(0))])],
                disposition: Some(table::Disposition::Reject),
                actions: Default::default(),
            },
        };
        Arc::new(table::PolicyAssignment {
            name: Arc::from("global"),
            disposition: table::Disposition::Accept,
            policies: vec![Arc::new(table::Policy { name: Arc::from("pol"), statements: vec![Arc::new(stmt)] })],
            needs_rpki: false,
        })
    }

    fn source_for(&self, sys: &Sys, peer: u8, family: Family) -> Arc<table::Source> {
        match peer {
            A | B => {
                let s = sys.sessions[peer as usize].last().unwrap();
                if family == Family::IPV4 { s.v4.clone() } else { s.vpn.clone() }
            }
            L => table::Source::local(),
            _ => table::Source::kernel(),
        }
    }

    /// Drain the tap and fold it; `nht/negative` is checked at every point of the fold.
    fn fold_tap(&self, sys: &mut Sys, cur: &mut Vec<(String, String, String)>, opname: &str) {
        for r in sys.tap.drain() {
            match r {
                kernel::VerifRequest::Apply(c) => {
                    sys.applies += 1;
                    let key = match (&c.net, c.table_id) {
                        (Nlri::V4(_), t) => (t.unwrap_or(0), net_name(&c.net)),
                        // the kernel service ignores every other NLRI kind
                        _ => continue,
                    };
                    if c.nexthops.is_empty() {
                        sys.fib.remove(&key);
                    } else {
                        sys.fib.insert(key, c.nexthops.iter().map(|n| n.addr()).collect());
                    }
                }
                kernel::VerifRequest::RegisterNexthop(a) => {
                    *sys.nht.entry(a).or_insert(0) += 1;
                }
                kernel::VerifRequest::UnregisterNexthop(a) => {
                    let e = sys.nht.entry(a).or_insert(0);
                    *e -= 1;
                    if *e < 0 {
                        cur.push((
                            format!("nhtneg:{a}"),
                            "C20/nht/negative".into(),
                            format!("during {opname}: more unregister_nexthop than register_nexthop requests for {a} (balance {})", *e),
                        ));
                    }
                }
                kernel::VerifRequest::CreateVrf { .. } | kernel::VerifRequest::DeleteVrf { .. } => {}
            }
        }
        sys.nht.retain(|_, v| *v != 0);
    }

    fn dump_post(&self, sys: &Sys) -> Vec<RefPath> {
        let mut v = Vec::new();
        for sh in &sys.tm.shards {
            let t = sh.lock().unwrap();
            for f in FAMILIES {
                for r in t.rtable.iter_reach_post(f) {
                    v.push(RefPath { family: f, net: r.net.nlri, src: r.source, attr: r.attr, nh: r.nexthop.map(|n| n.addr()) });
                }
            }
        }
        v
    }

    /// Which (peer, prefix) slot a stored RIB entry belongs to.
    fn slot_of(&self, net: &Nlri, src: &table::Source) -> Option<(u8, u8)> {
        let peer = if src.is_local() {
            L
        } else if src.is_kernel() {
            K
        } else if src.remote_addr == peer_addr(A) {
            A
        } else {
            B
        };
        (0..4u8).find(|i| pfx_tbl().pfx[*i as usize].1 == *net).map(|p| (peer, p))
    }

    fn oracle(&self, sys: &mut Sys, opname: &str, cur: &mut Vec<(String, String, String)>) {
        let kind = op_kind(opname);
        let down: BTreeSet<IpAddr> = sys.down.iter().map(|n| IpAddr::V4(nh_addr(*n))).collect();

        // ---- every stored entry (pre-policy view) and the policy-accepted entries
        let mut all_cnt: BTreeMap<IpAddr, i64> = BTreeMap::new();
        // prefixes (rendered) that hold an entry whose stored next hop differs from the announced one
        let mut rewritten: BTreeSet<String> = BTreeSet::new();
        for sh in &sys.tm.shards {
            let t = sh.lock().unwrap();
            for f in FAMILIES {
                for r in t.rtable.iter_reach(f) {
                    if let Some(slot) = if sys.announced.is_empty() { None } else { self.slot_of(&r.net.nlri, &r.source) } {
                        if let Some(ann) = sys.announced.get(&slot) {
                            if r.nexthop.map(|n| n.addr()) != Some(IpAddr::V4(nh_addr(*ann))) {
                                rewritten.insert(net_name(&r.net.nlri));
                                if let Some(l) = local_prefix(&r.net.nlri) {
                                    rewritten.insert(l);
                                }
                            }
                        }
                    }
                    if r.source.is_local() || r.source.is_kernel() {
                        continue;
                    }
                    if let Some(n) = r.nexthop {
                        *all_cnt.entry(n.addr()).or_insert(0) += 1;
                    }
                }
            }
        }
        let tag = |hit: bool| if hit { "/import-nh-policy" } else { "" };
        let post = self.dump_post(sys);
        // eligible by the statement: accepted by import policy, next hop not reported unreachable
        let eligible: Vec<&RefPath> = post.iter().filter(|p| !p.nh.is_some_and(|a| down.contains(&a))).collect();

        // ---- clause sel: collect_loc_rib_paths == eligible
        let ident = |net: &Nlri, src: &Arc<table::Source>, nh: Option<IpAddr>| format!("{}|{:x}|{:?}", net, Arc::as_ptr(src) as usize, nh);
        let mut want: BTreeMap<String, (String, Option<IpAddr>)> = BTreeMap::new();
        for p in &eligible {
            want.insert(ident(&p.net, &p.src, p.nh), (net_name(&p.net), p.nh));
        }
        let mut got: BTreeMap<String, (String, Option<IpAddr>)> = BTreeMap::new();
        // the RIB's own first-ranked path per prefix
        let mut rib_first: BTreeMap<String, String> = BTreeMap::new();
        for f in FAMILIES {
            for c in sys.tm.collect_loc_rib_paths(f) {
                for (i, p) in c.current_paths.iter().enumerate() {
                    let a = p.nexthop.map(|n| n.addr());
                    let id = ident(&c.net, &p.source, a);
                    if i == 0 {
                        rib_first.insert(net_name(&c.net), id.clone());
                    }
                    got.insert(id, (net_name(&c.net), a));
                }
            }
        }
        for (k, (net, a)) in &got {
            if !want.contains_key(k) {
                let t = "";
                if a.is_some_and(|a| down.contains(&a)) {
                    cur.push((
                        format!("sel:{net}"),
                        format!("C20/nht-invalid-path-selected/{kind}{t}"),
                        format!("after {opname}: {net} has a selectable path via {} although that next hop was reported unreachable and not reachable again", a.unwrap()),
                    ));
                } else {
                    cur.push((
                        format!("sel:{net}"),
                        format!("C20/selection/unexpected-path/{kind}{t}"),
                        format!("after {opname}: collect_loc_rib_paths lists a path for {net} via {a:?} that is not an accepted RIB entry"),
                    ));
                }
            }
        }
        for (k, (net, a)) in &want {
            if !got.contains_key(k) {
                cur.push((
                    format!("sel:{net}"),
                    format!("C20/nht-valid-path-excluded/{kind}"),
                    format!("after {opname}: the accepted path for {net} via {a:?} is excluded from selection although its next hop is not reported unreachable"),
                ));
            }
        }

        // ---- clause fib
        // Per prefix two readings of "the current best path" are accepted: (a) the
        // best by the reference decision order, (b) the path the RIB itself ranks
        // first (a disagreement between the two is property C02's business).  The
        // tie relation "before the router-id step" is the reference one in both.
        let mut nets: BTreeMap<String, Vec<&RefPath>> = BTreeMap::new();
        for p in &eligible {
            nets.entry(net_name(&p.net)).or_default().push(p);
        }
        // key -> acceptable next-hop sets; `nothing_ok`: every contributing prefix has a reading that demands nothing
        let mut accept: BTreeMap<(u32, String), (Vec<BTreeSet<IpAddr>>, bool)> = BTreeMap::new();
        let mut llgr_involved: BTreeSet<(u32, String)> = BTreeSet::new();
        for (name, paths) in &nets {
            let mut best_a = paths[0];
            for p in paths.iter().skip(1) {
                let c = ref_cmp_before_router_id(p, best_a).then(ref_router_id(p).cmp(&ref_router_id(best_a)));
                if c == Cmp::Less {
                    best_a = p;
                }
            }
            let mut bests: Vec<&RefPath> = vec![best_a];
            if let Some(id) = rib_first.get(name) {
                if let Some(b) = paths.iter().find(|p| ident(&p.net, &p.src, p.nh) == *id) {
                    bests.push(b);
                }
            }
            let llgr = paths.iter().any(|p| ref_llgr_stale(p));
            let ties = |best: &RefPath| -> BTreeSet<IpAddr> {
                paths.iter().filter(|p| ref_cmp_before_router_id(p, best) == Cmp::Equal).filter_map(|p| p.nh).collect()
            };
            match &best_a.net {
                Nlri::V4(_) => {
                    let k = (0u32, name.clone());
                    if llgr {
                        llgr_involved.insert(k.clone());
                    }
                    let e = accept.entry(k).or_insert((Vec::new(), false));
                    for b in &bests {
                        e.0.push(ties(b));
                    }
                }
                n => {
                    let Some(local) = local_prefix(n) else { continue };
                    for (id, import) in &self.vrfs {
                        if *id == 0 {
                            continue;
                        }
                        let k = (*id, local.clone());
                        if llgr {
                            llgr_involved.insert(k.clone());
                        }
                        let e = accept.entry(k).or_insert((Vec::new(), true));
                        let mut some_reading_demands_nothing = false;
                        for b in &bests {
                            if ref_imports(import, &b.attr) {
                                e.0.push(ties(b));
                            } else {
                                some_reading_demands_nothing = true;
                            }
                        }
                        e.1 &= some_reading_demands_nothing;
                    }
                }
            }
        }
        let shared = sys.vpn_seen.len() > 1;
        // while selection is deferred nothing is installed; the FIB is compared again once the deferral has ended
        let keys: BTreeSet<(u32, String)> = if sys.deferring { BTreeSet::new() } else { accept.keys().chain(sys.fib.keys()).cloned().collect() };
        for k in keys {
            let o = sys.fib.get(&k).filter(|s| !s.is_empty());
            let (sets, nothing_ok) = match accept.get(&k) {
                Some((s, n)) => (s.clone(), *n || s.is_empty()),
                None => (Vec::new(), true),
            };
            let ok = match o {
                None => nothing_ok,
                Some(o) => sets.iter().any(|s| s == o),
            };
            if ok {
                continue;
            }
            let e = sets.first();
            let vrf = if k.0 == 0 {
                ""
            } else if shared {
                "vrf-shared-prefix-"
            } else {
                "vrf-"
            };
            let class = match (e, o) {
                (Some(_), None) => format!("{vrf}missing-install"),
                (None, Some(_)) => format!("{vrf}stale-route"),
                (Some(e), Some(o)) if e.len() > 1 || o.len() > 1 => format!("{vrf}ecmp-set-stale"),
                _ => format!("{vrf}nexthop-stale"),
            };
            let llgr = if llgr_involved.contains(&k) { "llgr-" } else { "" };
            let table = if k.0 == 0 { "main table".to_string() } else { format!("VRF table {}", k.0) };
            cur.push((
                format!("fib:{}:{}", k.0, k.1),
                format!("C20/fib/{llgr}{class}/{kind}"),
                format!(
                    "after {opname}: replaying the FIB requests leaves {} for {} in the {table}, but the RIB's best path and its ties before router-id give {}",
                    show_set(o),
                    k.1,
                    show_set(e)
                ),
            ));
        }

        // ---- clause nht: outstanding registrations == peer-learned entries using the address
        let mut accepted: BTreeMap<IpAddr, i64> = BTreeMap::new();
        for p in &post {
            if p.src.is_local() || p.src.is_kernel() {
                continue;
            }
            if let Some(a) = p.nh {
                *accepted.entry(a).or_insert(0) += 1;
            }
        }
        // two readings of "paths currently using it": every stored entry / policy-accepted entries
        if sys.nht != all_cnt && sys.nht != accepted {
            let addrs: BTreeSet<IpAddr> = all_cnt.keys().chain(sys.nht.keys()).cloned().collect();
            for a in addrs {
                let have = sys.nht.get(&a).copied().unwrap_or(0);
                let w = all_cnt.get(&a).copied().unwrap_or(0);
                if have != w {
                    let w2 = accepted.get(&a).copied().unwrap_or(0);
                    cur.push((
                        format!("nht:{a}"),
                        format!("C20/nht/refcount/{}/{kind}{}", if have > w { "over" } else { "under" }, tag(!rewritten.is_empty())),
                        format!(
                            "after {opname}: {have} next-hop tracking registrations outstanding for {a} but {w} peer-learned RIB entries use it ({w2} of them policy-accepted)"
                        ),
                    ));
                }
            }
        }
    }
}

impl Model for C20Model {
    type Sys = Sys;
    fn name(&self) -> String {
        self.name.clone()
    }
    fn n_ops(&self) -> usize {
        self.ops.len()
    }
    fn op_name(&self, op: usize) -> String {
        op_str(&self.ops[op])
    }

    fn init(&self) -> Sys {
        let tm = Arc::new(TableManager::new(self.shards));
        let (handle, mut tap) = kernel::KernelHandle::verif_tap();
        tm.kernel_handle.store(Some(Arc::new(handle)));
        for (i, (id, import)) in self.vrfs.iter().enumerate() {
            tm.add_vrf(
                format!("vrf{}", i + 1),
                packet::rd::RouteDistinguisher::TwoOctetAs { admin: 65000, assigned: 100 + i as u32 },
                import.iter().cloned().collect(),
                vec![],
                *id,
            )
            .expect("add_vrf");
        }
        tap.drain();
        Sys {
            tm,
            tap,
            sessions: [vec![self.mk_session(A)], vec![self.mk_session(B)]],
            up: [true, true],
            stale_pending: [false, false],
            llgr_pending: [false, false],
            policy_on: false,
            down: BTreeSet::new(),
            pool: (0..3).map(|i| Arc::new(attr_content(i))).collect(),
            fib: BTreeMap::new(),
            nht: BTreeMap::new(),
            broken: BTreeSet::new(),
            applies: 0,
            announced: BTreeMap::new(),
            vpn_seen: BTreeSet::new(),
            deferring: false,
            touched: false,
            ever_deferred: false,
            limit_ctr: [Default::default(), Default::default()],
        }
    }

    fn step(&self, sys: &mut Sys, op: usize, out: &mut Vec<(String, String)>) -> bool {
        let o = &self.ops[op];
        let name = op_str(o);
        let all_fams = FAMILIES.to_vec();
        match o {
            Op::Ins { peer, pfx, attr, nh: n } => {
                if *peer < 2 && !sys.up[*peer as usize] {
                    return false;
                }
                let (family, nlri) = prefix(*pfx);
                // shadow state only where it can matter (keeps the other packs' state spaces canonical)
                if self.pol == Pol::NhRewrite {
                    sys.announced.insert((*peer, *pfx), *n);
                }
                if *pfx >= VPN1 && self.ops.iter().any(|o| matches!(o, Op::Ins { pfx: VPN2, .. })) {
                    sys.vpn_seen.insert(*pfx);
                }
                if *peer == K {
                    let Nlri::V4(net) = nlri else { return false };
                    sys.tm.inject_kernel_route(kernel::KernelRoute {
                        dst: IpAddr::V4(net.addr),
                        prefix_len: net.mask,
                        nexthop: Some(IpAddr::V4(nh_addr(*n))),
                        metric: 0,
                        protocol: kernel::Protocol::Static,
                    });
                } else {
                    let src = self.source_for(sys, *peer, family);
                    let a = if self.fresh { Arc::new(attr_content(*attr)) } else { sys.pool[*attr as usize].clone() };
                    let limit = if *peer < 2 && family == Family::IPV4 { self.limit.map(|m| (m, sys.limit_ctr[*peer as usize].clone())) } else { None };
                    let limited = limit.is_some();
                    let exceeded = sys.tm.insert_route(src, family, packet::PathNlri::new(nlri), Some(nh(*n)), a, limit, 0);
                    assert!(limited || !exceeded, "prefix limit without a limit");
                    if exceeded {
                        // what the driver does: Cease / maximum-prefixes, the session ends without graceful restart
                        let i = *peer as usize;
                        sys.tm.unregister_peer(peer_addr(*peer), &all_fams, &[]);
                        sys.stale_pending[i] = false;
                        sys.llgr_pending[i] = false;
                        sys.up[i] = false;
                    }
                }
            }
            Op::Rem { peer, pfx } => {
                if *peer < 2 && !sys.up[*peer as usize] {
                    return false;
                }
                let (family, nlri) = prefix(*pfx);
                if *peer == K {
                    let Nlri::V4(net) = nlri else { return false };
                    sys.tm.withdraw_kernel_route(IpAddr::V4(net.addr), net.mask);
                } else {
                    let src = self.source_for(sys, *peer, family);
                    sys.tm.remove_route(src, family, packet::PathNlri::new(nlri), None, 0);
                }
            }
            Op::Down { peer, stale } => {
                let i = *peer as usize;
                if !sys.up[i] {
                    return false;
                }
                if *stale {
                    sys.tm.unregister_peer(peer_addr(*peer), &[], &all_fams);
                    sys.stale_pending[i] = true;
                } else {
                    sys.tm.unregister_peer(peer_addr(*peer), &all_fams, &[]);
                    sys.stale_pending[i] = false;
                    sys.llgr_pending[i] = false;
                }
                sys.up[i] = false;
            }
            Op::DownMixed { peer } => {
                let i = *peer as usize;
                if !sys.up[i] {
                    return false;
                }
                sys.tm.unregister_peer(peer_addr(*peer), &[Family::IPV4_VPN], &[Family::IPV4]);
                sys.stale_pending[i] = true;
                sys.up[i] = false;
            }
            Op::Up { peer } => {
                let i = *peer as usize;
                if sys.up[i] || sys.sessions[i].len() >= self.max_sessions {
                    return false;
                }
                let s = self.mk_session(*peer);
                sys.sessions[i].push(s);
                sys.limit_ctr[i] = Default::default();
                sys.up[i] = true;
            }
            Op::DropStale { peer } => {
                let i = *peer as usize;
                if !sys.stale_pending[i] || sys.llgr_pending[i] {
                    return false;
                }
                sys.tm.drop_stale_families(peer_addr(*peer), &all_fams);
                sys.stale_pending[i] = false;
            }
            Op::DownLlgr { peer } => {
                let i = *peer as usize;
                if !sys.up[i] || sys.stale_pending[i] || sys.llgr_pending[i] {
                    return false;
                }
                sys.tm.unregister_peer(peer_addr(*peer), &[], &[]);
                sys.tm.mark_llgr_stale(peer_addr(*peer), &all_fams);
                sys.llgr_pending[i] = true;
                sys.up[i] = false;
            }
            Op::MarkLlgr { peer } => {
                // the GR restart timer expired while the peer is still away
                let i = *peer as usize;
                if sys.up[i] || !sys.stale_pending[i] || sys.llgr_pending[i] {
                    return false;
                }
                sys.tm.mark_llgr_stale(peer_addr(*peer), &all_fams);
                sys.llgr_pending[i] = true;
            }
            Op::DropLlgr { peer } => {
                let i = *peer as usize;
                if !sys.llgr_pending[i] {
                    return false;
                }
                sys.tm.drop_llgr_stale_families(peer_addr(*peer), &all_fams);
                sys.llgr_pending[i] = false;
                sys.stale_pending[i] = false;
            }
            Op::SoftIn { peer } => {
                sys.tm.soft_reset_in(peer_addr(*peer));
            }
            Op::Policy => {
                sys.policy_on = !sys.policy_on;
                sys.tm.import_policy.store(if sys.policy_on { Some(self.policy()) } else { None });
            }
            Op::Nh { n, up } => {
                // reachability reports are transitions
                if *up == !sys.down.contains(n) {
                    return false;
                }
                if *up {
                    sys.down.remove(n);
                } else {
                    sys.down.insert(*n);
                }
                sys.tm.update_nexthop_validity(IpAddr::V4(nh_addr(*n)), *up);
            }
            Op::StartDeferral => {
                if sys.touched || sys.deferring {
                    return false;
                }
                sys.tm.start_deferral_families(&all_fams);
                sys.deferring = true;
                sys.ever_deferred = true;
            }
            Op::EndDeferral => {
                if !sys.deferring {
                    return false;
                }
                sys.tm.end_deferral_families(&all_fams);
                sys.deferring = false;
            }
        }
        sys.touched = true;
        let mut cur: Vec<(String, String, String)> = Vec::new();
        self.fold_tap(sys, &mut cur, &name);
        self.oracle(sys, &name, &mut cur);
        // root cause only: a key is reported on the step that breaks it
        let mut now = BTreeSet::new();
        for (key, sig, what) in cur {
            // a negative balance that follows from an already reported count mismatch is inherited damage
            let inherited = key.starts_with("nhtneg:") && sys.broken.contains(&key.replacen("nhtneg:", "nht:", 1));
            if !sys.broken.contains(&key) && !now.contains(&key) && !inherited {
                out.push((sig, what));
            }
            now.insert(key);
        }
        for (a, v) in &sys.nht {
            if *v < 0 {
                now.insert(format!("nhtneg:{a}"));
            }
        }
        sys.broken = now;
        true
    }

    fn fingerprint(&self, sys: &Sys) -> Vec<u8> {
        let mut s = String::new();
        let mut srcs: Vec<usize> = Vec::new();
        for v in &sys.sessions {
            for x in v {
                srcs.push(Arc::as_ptr(&x.v4) as usize);
                srcs.push(Arc::as_ptr(&x.vpn) as usize);
            }
            srcs.push(0);
        }
        srcs.push(Arc::as_ptr(&table::Source::local()) as usize);
        srcs.push(Arc::as_ptr(&table::Source::kernel()) as usize);
        let sid = |p: usize| srcs.iter().position(|x| *x == p).unwrap_or(99);
        let ah = |a: &Arc<Vec<Attribute>>| {
            let mut b = Vec::new();
            for x in a.iter() {
                b.extend_from_slice(&x.encode_to_bytes());
                b.push(0xfe);
            }
            bfs::hash128(&b) as u32
        };
        for (i, sh) in sys.tm.shards.iter().enumerate() {
            let t = sh.lock().unwrap();
            for f in FAMILIES {
                // every entry, rank order kept inside a destination, destinations sorted
                let mut per: BTreeMap<String, String> = BTreeMap::new();
                for r in t.rtable.iter_reach(f) {
                    let e = per.entry(net_name(&r.net.nlri)).or_default();
                    let _ = write!(e, "({},{},{:?},{})", sid(Arc::as_ptr(&r.source) as usize), ah(&r.attr), r.nexthop.map(|n| n.addr()), r.source.is_stale() as u8 + 2 * r.source.is_llgr_stale() as u8);
                }
                let mut post: BTreeMap<String, String> = BTreeMap::new();
                for r in t.rtable.iter_reach_post(f) {
                    let e = post.entry(net_name(&r.net.nlri)).or_default();
                    let _ = write!(e, "({},{},{:?})", sid(Arc::as_ptr(&r.source) as usize), ah(&r.attr), r.nexthop.map(|n| n.addr()));
                }
                let mut elig: BTreeMap<String, String> = BTreeMap::new();
                for c in t.rtable.collect_loc_rib_paths(&f) {
                    let e = elig.entry(net_name(&c.net)).or_default();
                    for p in c.current_paths.iter() {
                        let _ = write!(e, "({},{:?})", sid(Arc::as_ptr(&p.source) as usize), p.nexthop.map(|n| n.addr()));
                    }
                }
                let _ = write!(s, "S{i}F{:?}R{:?}P{:?}E{:?}", f, per, post, elig);
            }
        }
        for v in &sys.sessions {
            for x in v {
                let _ = write!(s, "s{}{}{}{}", x.v4.is_stale() as u8, x.v4.is_llgr_stale() as u8, x.vpn.is_stale() as u8, x.vpn.is_llgr_stale() as u8);
            }
            s.push('|');
        }
        let _ = write!(
            s,
            "u{:?}sp{:?}lp{:?}pol{}d{:?}fib{:?}nht{:?}B{:?}an{:?}vs{:?}",
            sys.up, sys.stale_pending, sys.llgr_pending, sys.policy_on, sys.down, sys.fib, sys.nht, sys.broken, sys.announced, sys.vpn_seen
        );
        let _ = write!(s, "df{}{}{}lc{:?}", sys.deferring as u8, sys.touched as u8, sys.ever_deferred as u8, sys.limit_ctr.iter().map(|c| c.load(std::sync::atomic::Ordering::Relaxed)).collect::<Vec<_>>());
        s.into_bytes()
    }

    fn observe(&self, sys: &Sys) -> u64 {
        bfs::hash128(format!("{:?}{:?}", sys.fib, sys.nht).as_bytes()) as u64
    }
}

// ------------------------------------------------------------------- packs

fn ins(peer: u8, pfx: u8, attr: u8, nh: u8) -> Op {
    Op::Ins { peer, pfx, attr, nh }
}
fn rem(peer: u8, pfx: u8) -> Op {
    Op::Rem { peer, pfx }
}
fn nhv(n: u8, up: bool) -> Op {
    Op::Nh { n, up }
}

fn full_alphabet(vpn: bool) -> Vec<Op> {
    let mut v = Vec::new();
    let pfxs: Vec<u8> = if vpn { vec![P1, Q1, VPN1] } else { vec![P1, Q1] };
    for peer in [A, B, L] {
        for &p in &pfxs {
            for a in [X, Y] {
                for n in [0, 1] {
                    v.push(ins(peer, p, a, n));
                }
            }
        }
    }
    for p in [P1, Q1] {
        for n in [0, 1] {
            v.push(ins(K, p, X, n));
        }
    }
    for peer in [A, B, L, K] {
        for &p in &pfxs {
            if peer == K && p >= VPN1 {
                continue;
            }
            v.push(rem(peer, p));
        }
    }
    for peer in [A, B] {
        v.push(Op::Down { peer, stale: false });
        v.push(Op::Down { peer, stale: true });
        if vpn {
            v.push(Op::DownMixed { peer });
        }
        v.push(Op::Up { peer });
        v.push(Op::DropStale { peer });
        v.push(Op::SoftIn { peer });
    }
    v.push(Op::Policy);
    for n in [0, 1] {
        v.push(nhv(n, false));
        v.push(nhv(n, true));
    }
    v
}

fn packs(thorough: bool) -> Vec<(C20Model, usize)> {
    use table::PeerRole::{Ebgp, Ibgp};
    let d = if thorough { 7 } else { 5 };
    let one_vrf = vec![(10u32, vec![RT1])];
    let two_vrfs = vec![(10u32, vec![RT1]), (20u32, vec![RT2])];
    let mut out: Vec<(C20Model, usize)> = Vec::new();
    let mut mk = |name: &str, shards: usize, vrfs: &Vec<(u32, Vec<[u8; 8]>)>, b_role, pol, fresh: bool, ops: Vec<Op>, depth: usize| {
        out.push((
            C20Model { name: format!("c20-{name}-s{shards}"), shards, vrfs: vrfs.clone(), b_role, pol, fresh, ops, max_sessions: 3, limit: if name.starts_with("limit") { Some(1) } else { None } },
            depth,
        ));
    };
    let none: Vec<(u32, Vec<[u8; 8]>)> = vec![];
    let shard_cfgs: &[usize] = &[1, 2];
    for &sh in shard_cfgs {
        // ties between two eBGP peers, the local source, replace/remove, reachability flips
        mk(
            "ecmp",
            sh,
            &none,
            Ebgp,
            Pol::RejectN1,
            false,
            vec![
                ins(A, P1, X, 0), ins(A, P1, X, 1), ins(A, P1, Y, 0), ins(B, P1, X, 1), ins(B, P1, X, 0), ins(B, P1, Y, 1),
                ins(A, Q1, X, 0), ins(B, Q1, X, 1), ins(L, P1, X, 1),
                rem(A, P1), rem(B, P1), rem(A, Q1), rem(B, Q1), rem(L, P1),
                nhv(0, false), nhv(0, true), nhv(1, false), nhv(1, true),
            ],
            d,
        );
        // session loss without / with graceful restart, reconnect, stale purge
        mk(
            "sess",
            sh,
            &none,
            Ebgp,
            Pol::RejectN1,
            false,
            vec![
                ins(A, P1, X, 0), ins(A, Q1, X, 0), ins(A, P1, Y, 1), ins(B, P1, X, 1), ins(B, Q1, Y, 1), ins(B, P1, X, 0),
                rem(A, P1), rem(B, P1),
                Op::Down { peer: A, stale: false }, Op::Down { peer: A, stale: true }, Op::Up { peer: A }, Op::DropStale { peer: A },
                Op::Down { peer: B, stale: true }, Op::Up { peer: B }, Op::DropStale { peer: B },
                nhv(0, false), nhv(0, true),
            ],
            d,
        );
        // restarting speaker: routes and reachability reports arrive while selection is deferred
        mk(
            "restart",
            sh,
            &none,
            Ebgp,
            Pol::RejectN1,
            false,
            vec![
                Op::StartDeferral, Op::EndDeferral,
                ins(A, P1, X, 0), ins(B, P1, X, 1), ins(A, Q1, X, 0),
                rem(A, P1),
                nhv(0, false), nhv(0, true), nhv(1, false),
            ],
            d + 1,
        );
        // a per-session prefix limit of 1 that trips (the session then ends without graceful restart)
        mk(
            "limit1",
            sh,
            &none,
            Ebgp,
            Pol::RejectN1,
            false,
            vec![
                ins(A, P1, X, 0), ins(A, Q1, X, 1), ins(A, P1, Y, 1), ins(B, P1, X, 1),
                rem(A, P1), rem(A, Q1),
                Op::Down { peer: A, stale: true }, Op::Up { peer: A }, Op::DropStale { peer: A },
                nhv(1, false), nhv(1, true),
            ],
            d + 1,
        );
        // eBGP vs iBGP vs local vs kernel source, import policy that rejects next hop N1, soft reset
        mk(
            "polrej",
            sh,
            &none,
            Ibgp,
            Pol::RejectN1,
            false,
            vec![
                ins(A, P1, X, 0), ins(A, P1, X, 1), ins(A, Q1, Y, 0), ins(B, P1, X, 0), ins(B, P1, Y, 1), ins(L, P1, X, 0), ins(K, P1, X, 0), ins(K, P1, X, 1),
                rem(A, P1), rem(B, P1), rem(L, P1), rem(K, P1),
                Op::Policy, Op::SoftIn { peer: A }, Op::SoftIn { peer: B },
                Op::Down { peer: A, stale: true }, Op::Up { peer: A }, Op::DropStale { peer: A },
            ],
            d,
        );
        // the property's "import-policy next-hop changes" (not installable through the daemon's loader)
        mk(
            "polnh",
            sh,
            &none,
            Ebgp,
            Pol::NhRewrite,
            false,
            vec![
                ins(A, P1, X, 0), ins(A, Q1, Y, 0), ins(A, P1, Y, 1), ins(B, P1, X, 0), ins(B, P1, X, 1), ins(L, P1, X, 0),
                rem(A, P1), rem(B, P1), rem(A, Q1),
                Op::Policy, Op::SoftIn { peer: A }, Op::SoftIn { peer: B },
                Op::Down { peer: A, stale: true }, Op::Up { peer: A }, Op::DropStale { peer: A }, Op::Down { peer: B, stale: false },
                nhv(1, false), nhv(1, true),
            ],
            d,
        );
        // one VRF importing RT1 (carried by X only)
        mk(
            "vrf",
            sh,
            &one_vrf,
            Ebgp,
            Pol::RejectN1,
            false,
            vec![
                ins(A, VPN1, X, 0), ins(A, VPN1, Y, 0), ins(A, VPN1, Y, 1), ins(B, VPN1, X, 1), ins(B, VPN1, Y, 1), ins(L, VPN1, X, 1),
                rem(A, VPN1), rem(B, VPN1), rem(L, VPN1), ins(A, P1, X, 0), rem(A, P1),
                Op::Down { peer: A, stale: false }, Op::Down { peer: A, stale: true }, Op::DownMixed { peer: A }, Op::Up { peer: A }, Op::DropStale { peer: A },
                nhv(0, false), nhv(0, true),
            ],
            d,
        );
    }
    // two VRFs (RT1 / RT2): the best path moves between import sets
    mk(
        "vrf2",
        2,
        &two_vrfs,
        Ibgp,
        Pol::RejectN1,
        false,
        vec![
            ins(A, VPN1, X, 0), ins(A, VPN1, Y, 0), ins(B, VPN1, X, 1), ins(B, VPN1, Y, 1), ins(B, VPN1, Y, 0),
            rem(A, VPN1), rem(B, VPN1), Op::Policy, Op::SoftIn { peer: A },
            Op::Down { peer: A, stale: true }, Op::Up { peer: A }, Op::DropStale { peer: A }, Op::Down { peer: B, stale: false },
            nhv(0, false), nhv(0, true),
        ],
        d,
    );
    // two VPN prefixes (different RD) that map to the same prefix inside the VRF
    mk(
        "vrfrd",
        1,
        &one_vrf,
        Ebgp,
        Pol::RejectN1,
        false,
        vec![
            ins(A, VPN1, X, 0), ins(A, VPN2, X, 0), ins(B, VPN1, X, 1), ins(B, VPN2, X, 1), ins(A, VPN2, Y, 0),
            rem(A, VPN1), rem(A, VPN2), rem(B, VPN1), rem(B, VPN2), Op::Down { peer: A, stale: false }, Op::Up { peer: A },
        ],
        d,
    );
    // LLGR period (restart timer expiry with LLGR, NO_LLGR routes, LLGR purge)
    mk(
        "llgr",
        1,
        &none,
        Ebgp,
        Pol::RejectN1,
        false,
        vec![
            ins(A, P1, X, 0), ins(A, Q1, NL, 0), ins(A, P1, NL, 1), ins(B, P1, X, 1), ins(B, P1, Y, 1), rem(A, P1), rem(B, P1),
            Op::Down { peer: A, stale: true }, Op::DownLlgr { peer: A }, Op::MarkLlgr { peer: A }, Op::DropLlgr { peer: A }, Op::Up { peer: A }, Op::DropStale { peer: A },
            nhv(0, false), nhv(0, true),
        ],
        d,
    );
    // separate UPDATEs: a fresh attribute Arc per insert
    mk(
        "fresh",
        2,
        &none,
        Ebgp,
        Pol::RejectN1,
        true,
        vec![
            ins(A, P1, X, 0), ins(A, P1, X, 1), ins(B, P1, X, 1), ins(B, P1, X, 0), ins(B, P1, Y, 1), ins(A, Q1, X, 0),
            rem(A, P1), rem(B, P1), Op::SoftIn { peer: A }, Op::Policy,
            Op::Down { peer: B, stale: true }, Op::Up { peer: B }, Op::DropStale { peer: B }, nhv(1, false), nhv(1, true),
        ],
        d,
    );
    // the whole alphabet of the design at a small depth (cross-pack interactions)
    mk("full", 2, &one_vrf, Ibgp, Pol::RejectN1, false, full_alphabet(true), if thorough { 4 } else { 3 });
    // (depth 0 = not explored in this tier; kept in the list so that a replay finds the model)
    mk("fullnh", 2, &one_vrf, Ebgp, Pol::NhRewrite, false, full_alphabet(true), if thorough { 4 } else { 0 });
    out
}

pub(crate) fn run(replay: Option<&str>) -> Report {
    let mut rep = Report::new("C20", "hd-c20");
    let thorough = rep.thorough();
    let models = packs(thorough);
    if let Some(case) = replay {
        let Some((name, hist)) = bfs::decode_case(case) else {
            rep.machinery_error = Some("bad replay case".into());
            return rep;
        };
        let Some((m, _)) = models.iter().find(|(m, _)| m.name == name) else {
            rep.machinery_error = Some(format!("unknown model {name}"));
            return rep;
        };
        eprintln!("replay {}", bfs::render(m, &hist));
        // verbose replay: show the request stream and the RIB after every step
        let mut sys = m.init();
        for (i, &op) in hist.iter().enumerate() {
            let mut out = Vec::new();
            let en = m.step(&mut sys, op as usize, &mut out);
            eprintln!("  step {i}: {} enabled={en}", m.op_name(op as usize));
            eprintln!("    fib fold   = {:?}", sys.fib);
            eprintln!("    nht fold   = {:?}", sys.nht);
            for p in m.dump_post(&sys) {
                eprintln!(
                    "    rib {} from {} via {:?} lp={} aspath={} stale={} llgr={}",
                    p.net,
                    p.src.remote_addr,
                    p.nh,
                    ref_local_pref(&p.attr),
                    ref_as_path_len(&p.attr),
                    p.src.is_stale(),
                    ref_llgr_stale(&p)
                );
            }
            for (sig, what) in &out {
                eprintln!("    VIOLATION {sig}: {what}");
            }
        }
        let vs: Vec<Violation> = bfs::replay(m, &hist, false);
        rep.evaluations = 1;
        rep.violations_from(vs);
        return rep;
    }
    let pfx = v4_prefixes();
    rep.rule = format!(
        "explicit-state BFS over real TableManager histories with the kernel request tap; state = history, canonical fingerprint = per-shard RIB dump (entry order, sources interned, attribute content, next hop, stale flags, accepted and selectable views) + session/policy/reachability flags + folded FIB and NHT request streams + broken oracle keys; {} packs (factorisation of the design's alphabet by concern, each complete to its depth, plus the whole alphabet at depth {}); non-trivial = distinct canonical state other than the initial one",
        models.iter().filter(|(_, d)| *d > 0).count(),
        if thorough { 4 } else { 3 }
    );
    rep.notes.push(format!("prefixes: P1={} (shard 0 of 2) Q1={} (shard 1 of 2) VPN1=65000:1:10.99.0.0/24 VPN2=65000:2:10.99.0.0/24", pfx[0], pfx[1]));
    rep.notes.push("assume: the local and the kernel source rank as iBGP in the eBGP-over-iBGP step (their Source carries PeerRole::Ibgp)".into());
    rep.notes.push("assume: kernel FIB observed at the KernelHandle request channel (Apply/Register/Unregister), not at Netlink; route metric is not compared".into());
    rep.notes.push("assume: packs with policy 'import-nh-policy' install an import assignment with a next-hop action by hand; PolicyTable::build_assignment refuses it, so those histories are not reachable through the daemon's API".into());
    // The packs are independent searches: run them side by side (small packs have
    // narrow frontiers that cannot keep 16 workers busy) and merge the reports in
    // pack order, so that the result does not depend on the thread schedule.
    let budget: u64 = if thorough { 1500 } else { 55 };
    let w = bfs::workers();
    let mut parts: Vec<Option<Report>> = Vec::new();
    std::thread::scope(|sc| {
        let mut handles = Vec::new();
        for (m, depth) in &models {
            if *depth == 0 {
                continue;
            }
            let workers = if m.ops.len() > 30 { w } else { (w / 4).max(1) };
            let cfg = BfsCfg { max_depth: *depth, max_secs: budget, workers, ..Default::default() };
            let h = std::thread::Builder::new()
                .stack_size(32 << 20)
                .spawn_scoped(sc, move || {
                    let mut r = Report::new("C20", "hd-c20");
                    bfs::bfs(m, &cfg, &mut r);
                    r
                })
                .expect("spawn pack thread");
            handles.push(h);
        }
        for h in handles {
            parts.push(h.join().ok());
        }
    });
    for p in parts {
        match p {
            Some(r) => rep.merge(r),
            None => rep.machinery_error = Some("a pack thread panicked outside the subject".into()),
        }
    }
    // Canonical-form self check (DESIGN 9): on the smallest packs the search
    // without de-duplication must find exactly the same violation signatures as
    // the de-duplicated one at the same depth; determinism: two runs, same counts.
    for name in ["c20-vrfrd-s1", "c20-llgr-s1"] {
        let Some((m, _)) = models.iter().find(|(m, _)| m.name == name) else { continue };
        let depth = if thorough { 5 } else { 4 };
        let mut with = Report::new("C20", "selfcheck");
        let mut with2 = Report::new("C20", "selfcheck");
        let mut without = Report::new("C20", "selfcheck");
        let a = bfs::bfs(m, &BfsCfg { max_depth: depth, ..Default::default() }, &mut with);
        let b = bfs::bfs(m, &BfsCfg { max_depth: depth, ..Default::default() }, &mut with2);
        let c = bfs::bfs(m, &BfsCfg { max_depth: depth, dedup: false, max_states: usize::MAX, ..Default::default() }, &mut without);
        let s1: Vec<&String> = with.violations.keys().collect();
        let s2: Vec<&String> = without.violations.keys().collect();
        if s1 != s2 {
            rep.machinery_error = Some(format!("{name}: canonical-form self check failed: signatures with de-duplication {s1:?}, without {s2:?}"));
        }
        if (a.states, a.transitions) != (b.states, b.transitions) {
            rep.machinery_error = Some(format!("{name}: determinism self check failed: {}/{} vs {}/{} states/transitions", a.states, a.transitions, b.states, b.transitions));
        }
        rep.traces_validated += c.transitions;
        rep.notes.push(format!(
            "selfcheck {name} depth {depth}: dedup states={} transitions={} sigs={}; no-dedup histories={} sigs={} (equal); second run identical",
            a.states, a.transitions, s1.len(), c.transitions, s2.len()
        ));
    }
    rep
}
