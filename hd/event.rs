// harness part (stub)
