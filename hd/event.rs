// In-crate harness parts that need the private items of crate::event
// (included as crate::event::verif_event).  One sub-module per property;
// each sub-module reaches event's private items with `use super::super::*;`.

#[allow(dead_code, unused_imports, unused_variables, clippy::all)]
pub(crate) mod common {
    include!(concat!(env!("OSRG_RUSTYBGP_VERIF_DIR"), "/hd/ev_common.rs"));
}
#[allow(dead_code, unused_imports, unused_variables, clippy::all)]
pub(crate) mod c01 {
    include!(concat!(env!("OSRG_RUSTYBGP_VERIF_DIR"), "/hd/ev_c01.rs"));
}
#[allow(dead_code, unused_imports, unused_variables, clippy::all)]
pub(crate) mod c05 {
    include!(concat!(env!("OSRG_RUSTYBGP_VERIF_DIR"), "/hd/ev_c05.rs"));
}
#[allow(dead_code, unused_imports, unused_variables, clippy::all)]
pub(crate) mod c09 {
    include!(concat!(env!("OSRG_RUSTYBGP_VERIF_DIR"), "/hd/ev_c09.rs"));
}
#[allow(dead_code, unused_imports, unused_variables, clippy::all)]
pub(crate) mod c10 {
    include!(concat!(env!("OSRG_RUSTYBGP_VERIF_DIR"), "/hd/ev_c10.rs"));
}
#[allow(dead_code, unused_imports, unused_variables, clippy::all)]
pub(crate) mod c11 {
    include!(concat!(env!("OSRG_RUSTYBGP_VERIF_DIR"), "/hd/ev_c11.rs"));
}
#[allow(dead_code, unused_imports, unused_variables, clippy::all)]
pub(crate) mod c16 {
    include!(concat!(env!("OSRG_RUSTYBGP_VERIF_DIR"), "/hd/ev_c16.rs"));
}
#[allow(dead_code, unused_imports, unused_variables, clippy::all)]
pub(crate) mod c18 {
    include!(concat!(env!("OSRG_RUSTYBGP_VERIF_DIR"), "/hd/ev_c18.rs"));
}
#[allow(dead_code, unused_imports, unused_variables, clippy::all)]
pub(crate) mod c20 {
    include!(concat!(env!("OSRG_RUSTYBGP_VERIF_DIR"), "/hd/ev_c20.rs"));
}
#[allow(dead_code, unused_imports, unused_variables, clippy::all)]
pub(crate) mod c19 {
    include!(concat!(env!("OSRG_RUSTYBGP_VERIF_DIR"), "/hd/ev_c19.rs"));
}
#[allow(dead_code, unused_imports, unused_variables, clippy::all)]
pub(crate) mod c06 {
    include!(concat!(env!("OSRG_RUSTYBGP_VERIF_DIR"), "/hd/ev_c06.rs"));
}
#[allow(dead_code, unused_imports, unused_variables, clippy::all)]
pub(crate) mod c15 {
    include!(concat!(env!("OSRG_RUSTYBGP_VERIF_DIR"), "/hd/ev_c15.rs"));
}
#[allow(dead_code, unused_imports, unused_variables, clippy::all)]
pub(crate) mod c08 {
    include!(concat!(env!("OSRG_RUSTYBGP_VERIF_DIR"), "/hd/ev_c08.rs"));
}
#[allow(dead_code, unused_imports, unused_variables, clippy::all)]
pub(crate) mod c18bmp {
    include!(concat!(env!("OSRG_RUSTYBGP_VERIF_DIR"), "/hd/ev_c18bmp.rs"));
}
#[allow(dead_code, unused_imports, unused_variables, clippy::all)]
pub(crate) mod c01s {
    include!(concat!(env!("OSRG_RUSTYBGP_VERIF_DIR"), "/hd/ev_c01s.rs"));
}
#[allow(dead_code, unused_imports, unused_variables, clippy::all)]
pub(crate) mod c14api {
    include!(concat!(env!("OSRG_RUSTYBGP_VERIF_DIR"), "/hd/ev_c14api.rs"));
}
#[allow(dead_code, unused_imports, unused_variables, clippy::all)]
pub(crate) mod drv {
    include!(concat!(env!("OSRG_RUSTYBGP_VERIF_DIR"), "/hd/ev_drv.rs"));
}
