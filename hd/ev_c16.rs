// C16 harness part (stub until built)
use crate::verif::vx::report::Report;

pub(crate) fn run(_replay: Option<&str>) -> Report {
    let mut rep = Report::new("C16", "hd-c16");
    rep.machinery_error = Some("harness not built yet".into());
    rep
}
