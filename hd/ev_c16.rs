// C16: only configured or dynamically permitted neighbours get a session, set
// up exactly as configured; both ends negotiate mirror-image parameters.
//
// Part (i): explicit-state BFS over connect / disconnect / enable / disable /
//           delete histories against the real accept_connection + session
//           tasks over loopback TCP (source addresses 127.x.y.z).
// Part (ii): bounded-exhaustive enumeration of capability-list pairs through
//           PeerCodec::negotiate (both directions, each side seeing the other's
//           list through encode -> decode), PeerFsm's effective add-path
//           send-max and PeerSession::negotiate_gr / negotiate_llgr.

use super::super::*;
use super::common::*;
use crate::verif::vx::bfs::{self, BfsCfg, Model};
use crate::verif::vx::enumr;
use crate::verif::vx::report::{Report, Violation};
use std::collections::{BTreeMap, BTreeSet};
use std::net::{IpAddr, Ipv4Addr};

const A_STATIC: IpAddr = IpAddr::V4(Ipv4Addr::new(127, 0, 1, 1));
const A_INPFX: IpAddr = IpAddr::V4(Ipv4Addr::new(127, 0, 2, 5));
const A_OUT: IpAddr = IpAddr::V4(Ipv4Addr::new(127, 0, 3, 1));
const ADDRS: [IpAddr; 3] = [A_STATIC, A_INPFX, A_OUT];
const ANAME: [&str; 3] = ["static", "in-prefix", "other"];

#[derive(Clone, Debug)]
enum Op {
    Connect(crate::fsm::Role, usize),
    Disconnect(crate::fsm::Role, usize),
    /// the neighbour answers the daemon's OPEN with one the message decoder itself refuses
    /// (unsupported version): the session ends without the FSM having seen a message
    BadOpen(crate::fsm::Role, usize),
    Enable,
    Disable,
    Delete,
    /// hard reset_peer API: Cease to every live session, the neighbour stays configured
    Reset,
    /// UpdatePeer API declaring the static neighbour's configuration with the hold time toggled
    /// (a parameter that needs the running sessions torn down)
    Update,
    /// UpdatePeer API re-declaring the configuration in force (nothing to tear down)
    UpdateSame,
    /// UpdatePeerGroup API re-declaring group `i` with the parameters it has
    UpdateGroup(usize),
}

fn rname(r: crate::fsm::Role) -> &'static str {
    match r {
        crate::fsm::Role::Active => "active",
        crate::fsm::Role::Passive => "passive",
    }
}

fn op_name(o: &Op) -> String {
    match o {
        Op::Connect(r, a) => format!("connect({},{})", rname(*r), ANAME[*a]),
        Op::Disconnect(r, a) => format!("disconnect({},{})", rname(*r), ANAME[*a]),
        Op::BadOpen(r, a) => format!("unacceptable_open({},{})", rname(*r), ANAME[*a]),
        Op::Enable => "enable(static)".into(),
        Op::Disable => "disable(static)".into(),
        Op::Delete => "delete(static)".into(),
        Op::Reset => "hard_reset(static)".into(),
        Op::Update => "update_peer(static, other hold time)".into(),
        Op::UpdateSame => "update_peer(static, same parameters)".into(),
        Op::UpdateGroup(i) => format!("update_peer_group(group {i}, same parameters)"),
    }
}

#[derive(Clone)]
struct GroupCfg {
    name: &'static str,
    prefix: &'static str,
    as_number: u32,
    local_asn: u32,
    rs_client: bool,
    rr_client: bool,
    holdtime: Option<u64>,
    gr: bool,
}

#[derive(Clone)]
struct Cfg {
    name: &'static str,
    static_admin_down: bool,
    static_remote_as: u32,
    static_hold: u64,
    static_rs: bool,
    static_prefix_limit: Option<u32>,
    groups: Vec<GroupCfg>,
    confed: Option<(u32, Vec<u32>)>,
}

struct Expect {
    roles: Vec<table::PeerRole>,
    holds: Vec<u64>,
    open_as: Vec<u32>,
    gr: Vec<bool>,
    limits: Vec<usize>,
}

struct Live {
    stream: Option<TcpStream>,
    join: Option<tokio::task::JoinHandle<()>>,
    /// the arbiter this session was registered with (a close request is delivered through it)
    arb: Arc<std::sync::Mutex<ConnArbiter>>,
}

pub(crate) struct Sys {
    rt: tokio::runtime::Runtime,
    d: Daemon,
    live: BTreeMap<(u8, usize), Live>,
    // reference
    peers: BTreeMap<usize, (bool /*admin_down*/, bool /*dynamic*/)>,
    /// hold time / number of prefix limits the static neighbour is configured with now
    static_hold: u64,
    static_limits: usize,
    broken: BTreeSet<String>,
    dead: bool,
}

pub(crate) struct AcceptModel {
    cfg: Cfg,
    ops: Vec<Op>,
}

fn rk(r: crate::fsm::Role) -> u8 {
    match r {
        crate::fsm::Role::Active => 0,
        crate::fsm::Role::Passive => 1,
    }
}

impl AcceptModel {
    fn groups_matching(&self, a: usize) -> Vec<&GroupCfg> {
        self.cfg
            .groups
            .iter()
            .filter(|g| {
                let net: packet::IpNet = g.prefix.parse().unwrap();
                net.contains(&ADDRS[a])
            })
            .collect()
    }

    fn role_for(&self, remote_as: u32, local_asn: u32, rs: bool, rr: bool) -> table::PeerRole {
        let local = if local_asn != 0 { local_asn } else { 65000 };
        if rs {
            table::PeerRole::RsClient
        } else if remote_as == local {
            if rr {
                table::PeerRole::IbgpRrClient
            } else {
                table::PeerRole::Ibgp
            }
        } else if self.cfg.confed.as_ref().is_some_and(|(_, m)| m.contains(&remote_as)) {
            table::PeerRole::ConfedEbgp
        } else {
            table::PeerRole::Ebgp
        }
    }

    /// What the statement allows for a session of address `a` (several answers
    /// when overlapping dynamic prefixes both match: any matching group is fine).
    fn expect(&self, a: usize, dynamic: bool, static_hold: u64, static_limits: usize) -> Expect {
        let mut e = Expect { roles: vec![], holds: vec![], open_as: vec![], gr: vec![], limits: vec![] };
        let open_as = |remote_as: u32| -> u32 {
            match &self.cfg.confed {
                // RFC 5065: peers outside the confederation see the confederation id
                Some((id, members)) if !members.contains(&remote_as) => *id,
                _ => 65000,
            }
        };
        if !dynamic {
            e.roles.push(self.role_for(self.cfg.static_remote_as, 0, self.cfg.static_rs, false));
            e.holds.push(static_hold);
            e.open_as.push(open_as(self.cfg.static_remote_as));
            e.gr.push(false);
            e.limits.push(static_limits);
        } else {
            for g in self.groups_matching(a) {
                e.roles.push(self.role_for(g.as_number, g.local_asn, g.rs_client, g.rr_client));
                e.holds.push(g.holdtime.unwrap_or(PeerParams::DEFAULT_HOLD_TIME));
                e.open_as.push(if g.local_asn != 0 { g.local_asn } else { open_as(g.as_number) });
                e.gr.push(g.gr);
                e.limits.push(0);
            }
        }
        e
    }
}

impl Model for AcceptModel {
    type Sys = Sys;
    fn name(&self) -> String {
        format!("c16-{}", self.cfg.name)
    }
    fn n_ops(&self) -> usize {
        self.ops.len()
    }
    fn op_name(&self, op: usize) -> String {
        op_name(&self.ops[op])
    }

    fn init(&self) -> Sys {
        let rt = runtime();
        let d = Daemon::new(1);
        let cfg = self.cfg.clone();
        rt.block_on(async {
            let mut g = d.global.write().await;
            if let Some((id, members)) = &cfg.confed {
                g.confederation = Some(ConfederationConfig { id: *id, members: members.iter().copied().collect() });
            }
            let mut p = default_peer_params(A_STATIC);
            p.passive = true;
            p.expected_remote_asn = cfg.static_remote_as;
            p.holdtime = cfg.static_hold;
            p.rs_client = cfg.static_rs;
            p.admin_down = cfg.static_admin_down;
            p.families = [(Family::IPV4, 0u8), (Family::IPV6, 0u8)].into_iter().collect();
            if let Some(l) = cfg.static_prefix_limit {
                p.prefix_limits.insert(Family::IPV4, l);
            }
            g.add_peer(p, None).expect("add_peer");
            for gc in &cfg.groups {
                g.peer_group.insert(
                    gc.name.to_string(),
                    PeerGroup {
                        as_number: gc.as_number,
                        dynamic_peers: vec![DynamicPeer { prefix: gc.prefix.parse().unwrap() }],
                        route_server_client: gc.rs_client,
                        holdtime: gc.holdtime,
                        local_asn: gc.local_asn,
                        passive: true,
                        route_reflector: RouteReflectorConfig { route_reflector_client: gc.rr_client, route_reflector_cluster_id: None },
                        multihop_ttl: None,
                        ttl_security: None,
                        auth_password: None,
                        connect_retry_time: None,
                        families: [(Family::IPV4, 0u8)].into_iter().collect(),
                        send_max: FnvHashMap::default(),
                        graceful_restart: if gc.gr { Some(peer::GrPeerConfig { restart_time: 90, notification_enabled: false, families: vec![Family::IPV4] }) } else { None },
                        llgr: None,
                    },
                );
            }
        });
        let mut peers = BTreeMap::new();
        peers.insert(0usize, (self.cfg.static_admin_down, false));
        Sys { rt, d, live: BTreeMap::new(), peers, static_hold: self.cfg.static_hold, static_limits: self.cfg.static_prefix_limit.is_some() as usize, broken: BTreeSet::new(), dead: false }
    }

    fn step(&self, sys: &mut Sys, op: usize, out: &mut Vec<(String, String)>) -> bool {
        if sys.dead {
            return false;
        }
        let o = &self.ops[op];
        let mut cur: Vec<(String, String)> = Vec::new();
        match o {
            Op::Connect(role, a) => {
                let key = (rk(*role), *a);
                if sys.live.contains_key(&key) && !sys.peers.contains_key(a) {
                    return false;
                }
                // reference verdict
                let (want, dynamic) = match sys.peers.get(a) {
                    Some((admin_down, dynamic)) => (!*admin_down && !sys.live.contains_key(&key), *dynamic),
                    None => (!self.groups_matching(*a).is_empty(), true),
                };
                let d = &sys.d;
                let role_c = *role;
                let addr = ADDRS[*a];
                let res = sys.rt.block_on(async move {
                    // same socket set-up as common::connect, but the session is inspected before it is spawned
                    let (mut client, server) = socket_pair(addr).await?;
                    let session = accept_connection(&d.global, &d.tables, server, role_c).await;
                    match session {
                        None => {
                            // nothing may have been written to the socket before it was dropped
                            use tokio::io::AsyncReadExt;
                            let mut buf = [0u8; 64];
                            let n = match tokio::time::timeout(WAIT, client.read(&mut buf)).await {
                                Ok(Ok(n)) => n,
                                Ok(Err(_)) => 0,
                                Err(_) => return Err("refused connection was not closed".to_string()),
                            };
                            Ok::<_, String>((None, n, None))
                        }
                        Some(session) => {
                            let facts = (session.export_ctx.role, session.prefix_counters.len(), session.export_ctx.local_asn, session.conn_arbiter.clone());
                            let global = d.global.clone();
                            let active_tx = d.active_tx.clone();
                            let join = tokio::spawn(async move { session.run(global, active_tx).await });
                            // the daemon's OPEN as seen on the wire
                            let mut conn = Conn { stream: Some(client), rx: bytes::BytesMut::new(), codec: bgp::PeerCodec::new(), join: Some(join), counter_rx: Default::default(), daemon_open: None, open_notification: None, from: addr, limits: Vec::new() };
                            // an accepted connection must send its OPEN; a session that neither
                            // sends one nor closes is a verdict (no-open-sent), not a machinery error
                            let open = match tokio::time::timeout(Duration::from_secs(8), conn.read_msg()).await {
                                Ok(Ok(Some(bgp::ParsedMessage::Open(o)))) => Some(o),
                                Ok(Err(e)) => return Err(e),
                                _ => None,
                            };
                            Ok((Some((conn, facts)), 0, open))
                        }
                    }
                });
                let (got, bytes_before_close, open) = match res {
                    Ok(x) => x,
                    Err(e) => {
                        machinery(format!("connect: {e}"));
                        sys.dead = true;
                        return false;
                    }
                };
                if got.is_some() != want {
                    cur.push((
                        format!("C16/admission/{}/{}", if want { "refused-but-permitted" } else { "accepted-but-not-permitted" }, ANAME[*a]),
                        format!("{}: accept_connection returned {} (peers {:?}, live {:?})", op_name(o), if got.is_some() { "a session" } else { "None" }, sys.peers, sys.live.keys().collect::<Vec<_>>()),
                    ));
                }
                if got.is_none() && bytes_before_close > 0 {
                    cur.push(("C16/bytes-written-before-refusal".into(), format!("{}: {} bytes reached the peer although the connection was refused", op_name(o), bytes_before_close)));
                }
                if let Some((conn, (role_got, n_limits, _local_asn, arb))) = got {
                    if want {
                        let e = self.expect(*a, dynamic, sys.static_hold, sys.static_limits);
                        if !e.roles.contains(&role_got) {
                            cur.push((format!("C16/session-role/{}", ANAME[*a]), format!("{}: session role {:?}, configuration implies one of {:?}", op_name(o), role_got, e.roles)));
                        }
                        if !e.limits.contains(&n_limits) {
                            cur.push((format!("C16/session-prefix-limits/{}", ANAME[*a]), format!("{}: {} prefix-limit counters, configuration implies {:?}", op_name(o), n_limits, e.limits)));
                        }
                        match &open {
                            None => cur.push(("C16/no-open-sent".into(), format!("{}: the session did not send an OPEN", op_name(o)))),
                            Some(op_) => {
                                if !e.holds.contains(&(op_.holdtime.seconds() as u64)) {
                                    cur.push((format!("C16/session-holdtime/{}", ANAME[*a]), format!("{}: OPEN hold time {}, configuration implies one of {:?}", op_name(o), op_.holdtime.seconds(), e.holds)));
                                }
                                if !e.open_as.contains(&op_.as_number) {
                                    cur.push((format!("C16/session-local-as/{}", ANAME[*a]), format!("{}: OPEN carries AS {}, configuration implies one of {:?}", op_name(o), op_.as_number, e.open_as)));
                                }
                                let has_gr = op_.capability.iter().any(|c| matches!(c, packet::Capability::GracefulRestart { .. }));
                                if !e.gr.contains(&has_gr) {
                                    cur.push((format!("C16/session-capabilities/gr/{}", ANAME[*a]), format!("{}: OPEN advertises GR = {}, configuration implies {:?}", op_name(o), has_gr, e.gr)));
                                }
                                let want_v6 = !dynamic;
                                let has_v6 = op_.capability.iter().any(|c| matches!(c, packet::Capability::MultiProtocol(f) if *f == Family::IPV6));
                                let has_v4 = op_.capability.iter().any(|c| matches!(c, packet::Capability::MultiProtocol(f) if *f == Family::IPV4));
                                if !has_v4 || has_v6 != want_v6 {
                                    cur.push((format!("C16/session-capabilities/families/{}", ANAME[*a]), format!("{}: OPEN advertises v4={} v6={}, configured families imply v4=true v6={}", op_name(o), has_v4, has_v6, want_v6)));
                                }
                            }
                        }
                    }
                    let Conn { stream, join, .. } = conn;
                    if let Some(old) = sys.live.insert(key, Live { stream, join, arb }) {
                        // the reference said "refuse" but the daemon accepted a second connection of the
                        // same direction: keep the system consistent by closing the older one
                        drop(old);
                    }
                    sys.peers.entry(*a).or_insert((false, true));
                }
            }
            Op::Disconnect(role, a) => {
                let key = (rk(*role), *a);
                let Some(mut l) = sys.live.remove(&key) else { return false };
                sys.rt.block_on(async {
                    l.stream = None;
                    if let Some(j) = l.join.take() {
                        if tokio::time::timeout(WAIT, j).await.is_err() {
                            machinery("session task did not end after disconnect".into());
                        }
                    }
                });
                let still = sys.live.keys().any(|(_, aa)| aa == a);
                if !still && sys.peers.get(a).is_some_and(|(_, dynamic)| *dynamic) {
                    sys.peers.remove(a);
                }
            }
            Op::UpdateGroup(gi) => {
                let Some(gc) = self.cfg.groups.get(*gi).cloned() else { return false };
                let d = &sys.d;
                let res: Result<(), String> = sys.rt.block_on(async {
                    use api::go_bgp_service_server::GoBgpService;
                    let svc = super::super::grpc::GrpcService::new(Arc::new(tokio::sync::Notify::new()), d.active_tx.clone(), d.global.clone(), d.tables.clone());
                    let pg = api::PeerGroup {
                        conf: Some(api::PeerGroupConf { peer_group_name: gc.name.to_string(), peer_asn: gc.as_number, local_asn: gc.local_asn, ..Default::default() }),
                        route_server: Some(api::RouteServer { route_server_client: gc.rs_client, ..Default::default() }),
                        route_reflector: Some(api::RouteReflector { route_reflector_client: gc.rr_client, ..Default::default() }),
                        timers: gc.holdtime.map(|h| api::Timers { config: Some(api::TimersConfig { hold_time: h, ..Default::default() }), ..Default::default() }),
                        transport: Some(api::Transport { passive_mode: true, ..Default::default() }),
                        ..Default::default()
                    };
                    svc.update_peer_group(tonic::Request::new(api::UpdatePeerGroupRequest { peer_group: Some(pg), ..Default::default() })).await.map(|_| ()).map_err(|e| e.to_string())
                });
                if let Err(e) = res {
                    cur.push(("C16/admin-api-refused/update_peer_group".into(), format!("{}: the API call failed: {e}", op_name(o))));
                }
                // nothing about who may connect has changed: checked by the following connects
            }
            Op::BadOpen(role, a) => {
                let key = (rk(*role), *a);
                let Some(mut l) = sys.live.remove(&key) else { return false };
                let ended = sys.rt.block_on(async {
                    use tokio::io::AsyncWriteExt;
                    // OPEN, version 3, AS 65001, hold 90, id 10.0.0.9, no optional parameters
                    let mut open = vec![0xffu8; 16];
                    open.extend_from_slice(&[0, 29, 1, 3, 0xfd, 0xe9, 0, 90, 10, 0, 0, 9, 0]);
                    let wrote = match l.stream.as_mut() {
                        Some(st) => st.write_all(&open).await.is_ok(),
                        None => false,
                    };
                    let mut ended = false;
                    if let Some(j) = l.join.take() {
                        ended = tokio::time::timeout(WAIT, j).await.is_ok();
                    }
                    l.stream = None;
                    wrote && ended
                });
                if !ended {
                    machinery("session task did not end after an OPEN with an unsupported version".into());
                }
                let still = sys.live.keys().any(|(_, aa)| aa == a);
                if !still && sys.peers.get(a).is_some_and(|(_, dynamic)| *dynamic) {
                    sys.peers.remove(a);
                }
            }
            Op::Enable | Op::Disable | Op::Delete | Op::Reset | Op::Update | Op::UpdateSame => {
                if !sys.peers.get(&0).is_some_and(|(_, dynamic)| !*dynamic) {
                    return false; // the configured neighbour is gone (a dynamic one may have taken its address)
                }
                let admin_down = sys.peers[&0].0;
                match o {
                    Op::Enable if !admin_down => return false,
                    Op::Disable if admin_down => return false,
                    _ => {}
                }
                let d = &sys.d;
                let which = o.clone();
                let new_hold = match o {
                    Op::Update => {
                        if sys.static_hold == self.cfg.static_hold {
                            self.cfg.static_hold + 15
                        } else {
                            self.cfg.static_hold
                        }
                    }
                    _ => sys.static_hold,
                };
                let cfg = self.cfg.clone();
                // the operator's API: the real gRPC handlers
                let res: Result<(), String> = sys.rt.block_on(async {
                    use api::go_bgp_service_server::GoBgpService;
                    let svc = super::super::grpc::GrpcService::new(Arc::new(tokio::sync::Notify::new()), d.active_tx.clone(), d.global.clone(), d.tables.clone());
                    let address = A_STATIC.to_string();
                    match which {
                        Op::Enable => svc.enable_peer(tonic::Request::new(api::EnablePeerRequest { address })).await.map(|_| ()).map_err(|e| e.to_string()),
                        Op::Disable => svc.disable_peer(tonic::Request::new(api::DisablePeerRequest { address, ..Default::default() })).await.map(|_| ()).map_err(|e| e.to_string()),
                        Op::Reset => svc.reset_peer(tonic::Request::new(api::ResetPeerRequest { address, soft: false, ..Default::default() })).await.map(|_| ()).map_err(|e| e.to_string()),
                        Op::Delete => svc.delete_peer(tonic::Request::new(api::DeletePeerRequest { address, ..Default::default() })).await.map(|_| ()).map_err(|e| e.to_string()),
                        _ => {
                            let fam = |afi: i32, safi: i32| api::AfiSafi { config: Some(api::AfiSafiConfig { family: Some(api::Family { afi, safi }), enabled: true }), ..Default::default() };
                            let peer = api::Peer {
                                conf: Some(api::PeerConf { neighbor_address: address, peer_asn: cfg.static_remote_as, admin_down, ..Default::default() }),
                                timers: Some(api::Timers { config: Some(api::TimersConfig { hold_time: new_hold, ..Default::default() }), ..Default::default() }),
                                transport: Some(api::Transport { passive_mode: true, ..Default::default() }),
                                route_server: Some(api::RouteServer { route_server_client: cfg.static_rs, ..Default::default() }),
                                afi_safis: vec![fam(api::family::Afi::Ip as i32, api::family::Safi::Unicast as i32), fam(api::family::Afi::Ip6 as i32, api::family::Safi::Unicast as i32)],
                                ..Default::default()
                            };
                            svc.update_peer(tonic::Request::new(api::UpdatePeerRequest { peer: Some(peer), ..Default::default() })).await.map(|_| ()).map_err(|e| e.to_string())
                        }
                    }
                });
                if let Err(e) = res {
                    cur.push((format!("C16/admin-api-refused/{}", op_name(o).split('(').next().unwrap_or("")), format!("{}: the API call on the configured neighbour failed: {e}", op_name(o))));
                }
                if matches!(o, Op::Update | Op::UpdateSame) {
                    // UpdatePeer declares the full configuration: what the API message cannot
                    // carry (the prefix limits of this configuration) is no longer configured
                    sys.static_limits = 0;
                }
                let teardown = match o {
                    Op::Update => true,
                    // the first re-declaration drops the prefix limits only: no session parameter changes
                    Op::UpdateSame => false,
                    _ => true,
                };
                sys.static_hold = new_hold;
                match o {
                    Op::Enable => {
                        sys.peers.insert(0, (false, false));
                    }
                    Op::Disable | Op::Delete | Op::Reset | Op::Update if teardown => {
                        // live sessions of the static peer are shut down
                        let keys: Vec<(u8, usize)> = sys.live.keys().filter(|(_, a)| *a == 0).copied().collect();
                        for k in keys {
                            let mut l = sys.live.remove(&k).unwrap();
                            // the close request travels through the arbiter the session was registered
                            // with: force_down takes the sender out of it.  Still there = never asked.
                            let asked = {
                                let a = l.arb.lock().unwrap();
                                if k.0 == 0 { a.active_close_tx.is_none() } else { a.passive_close_tx.is_none() }
                            };
                            if !asked {
                                cur.push((
                                    format!("C16/admin-op-did-not-reach-session/{}", op_name(o).split('(').next().unwrap_or("")),
                                    format!("{}: a live {} session of the neighbour was never asked to close: it keeps running under the configuration it was set up from", op_name(o), if k.0 == 0 { "active" } else { "passive" }),
                                ));
                                if let Some(j) = l.join.take() {
                                    j.abort();
                                }
                                sys.dead = true;
                                continue;
                            }
                            sys.rt.block_on(async {
                                if let Some(j) = l.join.take() {
                                    if tokio::time::timeout(WAIT, j).await.is_err() {
                                        machinery("session task did not end after disable/delete".into());
                                    }
                                }
                                l.stream = None;
                            });
                        }
                        if matches!(o, Op::Disable) {
                            sys.peers.insert(0, (true, false));
                        } else if matches!(o, Op::Delete) {
                            sys.peers.remove(&0);
                        }
                    }
                    _ => {}
                }
            }
        }
        if take_machinery().is_some() {
            sys.dead = true;
            return false;
        }
        // ---- state invariants
        let (keys, slots): (BTreeSet<IpAddr>, BTreeMap<IpAddr, (bool, bool)>) = sys.rt.block_on(async {
            let g = sys.d.global.read().await;
            let keys = g.peers.keys().copied().collect();
            let slots = g
                .peers
                .iter()
                .map(|(a, p)| {
                    let ctx = p.context.lock().unwrap();
                    let arb = ctx.conn_arbiter.lock().unwrap();
                    (*a, (arb.active_close_tx.is_some(), arb.passive_close_tx.is_some()))
                })
                .collect();
            (keys, slots)
        });
        let want_keys: BTreeSet<IpAddr> = sys.peers.keys().map(|a| ADDRS[*a]).collect();
        if keys != want_keys {
            let class = if keys.len() > want_keys.len() { "leftover-neighbour-state" } else { "neighbour-state-missing" };
            cur.push((format!("C16/peer-table/{class}"), format!("{}: Global.peers = {:?}, expected {:?}", op_name(o), keys, want_keys)));
        }
        let fsm_states: BTreeMap<IpAddr, (crate::fsm::State, crate::fsm::State)> = sys.rt.block_on(async {
            let g = sys.d.global.read().await;
            g.peers
                .iter()
                .map(|(a, p)| {
                    let ctx = p.context.lock().unwrap();
                    let arb = ctx.conn_arbiter.lock().unwrap();
                    (*a, (arb.state(crate::fsm::Role::Active), arb.state(crate::fsm::Role::Passive)))
                })
                .collect()
        });
        for (a, (sa, sp)) in &fsm_states {
            let ai = ADDRS.iter().position(|x| x == a).unwrap_or(9);
            for (r, st) in [(0u8, sa), (1u8, sp)] {
                if !sys.live.contains_key(&(r, ai)) && *st != crate::fsm::State::Idle {
                    cur.push(("C16/fsm-slot-leaked".into(), format!("{}: {} has no live {} connection but its FSM slot is in {:?}", op_name(o), a, if r == 0 { "active" } else { "passive" }, st)));
                }
            }
        }
        for (a, (act, pas)) in &slots {
            let ai = ADDRS.iter().position(|x| x == a).unwrap_or(9);
            let want = (sys.live.contains_key(&(0, ai)), sys.live.contains_key(&(1, ai)));
            if (*act, *pas) != want {
                cur.push(("C16/connection-slots".into(), format!("{}: close-channel slots of {} are {:?}, live connections {:?}", op_name(o), a, (act, pas), want)));
            }
        }
        let mut now = BTreeSet::new();
        for (sig, what) in cur {
            let clause = sig.split('/').nth(1).unwrap_or("").to_string();
            if !sys.broken.contains(&clause) && !now.contains(&clause) {
                out.push((sig, what));
            }
            now.insert(clause);
        }
        sys.broken = now;
        true
    }

    fn fingerprint(&self, sys: &Sys) -> Vec<u8> {
        // the daemon's own per-neighbour state is part of the state (a leaked FSM slot changes the future)
        let real: Vec<String> = sys.rt.block_on(async {
            let g = sys.d.global.read().await;
            let mut v: Vec<String> = g
                .peers
                .iter()
                .map(|(a, p)| {
                    let ctx = p.context.lock().unwrap();
                    let arb = ctx.conn_arbiter.lock().unwrap();
                    format!("{a}:{}:{:?}:{:?}:{}:{}", p.admin_down, arb.state(crate::fsm::Role::Active), arb.state(crate::fsm::Role::Passive), arb.active_close_tx.is_some(), arb.passive_close_tx.is_some())
                })
                .collect();
            v.sort();
            // the peer groups as the daemon holds them (an API call may change what the harness does not mirror)
            let mut gs: Vec<String> = g.peer_group.iter().map(|(n, pg)| format!("group {n}:{}:{:?}:{}:{}", pg.as_number, pg.holdtime, pg.route_server_client, pg.dynamic_peers.iter().map(|d| d.prefix.to_string()).collect::<Vec<_>>().join(","))).collect();
            gs.sort();
            v.extend(gs);
            v
        });
        format!("{:?}|{:?}|{:?}|{}|{:?}|{}|{}", sys.peers, sys.live.keys().collect::<Vec<_>>(), sys.broken, sys.dead, real, sys.static_hold, sys.static_limits).into_bytes()
    }

    fn observe(&self, sys: &Sys) -> u64 {
        sys.peers.len() as u64 * 16 + sys.live.len() as u64
    }

    fn panic_sig(&self, msg: &str) -> Option<(String, String)> {
        if msg.contains("/verif/") {
            machinery(format!("harness panic: {msg}"));
            None
        } else {
            Some((format!("C16/panic/{}", bfs::panic_loc(msg)), format!("the daemon panicked: {msg}")))
        }
    }
}

fn accept_models() -> Vec<AcceptModel> {
    let ops = || {
        let mut v = Vec::new();
        for r in [crate::fsm::Role::Passive, crate::fsm::Role::Active] {
            for a in 0..3 {
                v.push(Op::Connect(r, a));
            }
        }
        for r in [crate::fsm::Role::Passive, crate::fsm::Role::Active] {
            for a in 0..3 {
                v.push(Op::Disconnect(r, a));
            }
        }
        for r in [crate::fsm::Role::Passive, crate::fsm::Role::Active] {
            v.push(Op::BadOpen(r, 0));
            v.push(Op::BadOpen(r, 1));
        }
        v.extend([Op::Disable, Op::Enable, Op::Delete, Op::Reset, Op::Update, Op::UpdateSame, Op::UpdateGroup(0)]);
        v
    };
    let g = |name: &'static str, prefix: &'static str, as_number: u32, local_asn: u32, rs: bool, rr: bool, hold: Option<u64>, gr: bool| GroupCfg { name, prefix, as_number, local_asn, rs_client: rs, rr_client: rr, holdtime: hold, gr };
    vec![
        AcceptModel {
            cfg: Cfg { name: "static-only", static_admin_down: false, static_remote_as: 65001, static_hold: 30, static_rs: false, static_prefix_limit: Some(5), groups: vec![], confed: None },
            ops: ops(),
        },
        AcceptModel {
            cfg: Cfg {
                name: "admin-down+rs-group",
                static_admin_down: true,
                static_remote_as: 65001,
                static_hold: 30,
                static_rs: true,
                static_prefix_limit: None,
                groups: vec![g("g1", "127.0.2.0/24", 65002, 0, true, false, Some(45), true)],
                confed: None,
            },
            ops: ops(),
        },
        AcceptModel {
            cfg: Cfg {
                name: "overlap+rr+confed",
                static_admin_down: false,
                static_remote_as: 65003,
                static_hold: 90,
                static_rs: false,
                static_prefix_limit: None,
                groups: vec![g("g1", "127.0.2.0/24", 65000, 65000, false, true, None, false), g("g2", "127.0.0.0/8", 65009, 0, false, false, Some(60), false)],
                confed: Some((64999, vec![65000, 65003])),
            },
            ops: ops(),
        },
        // iBGP inside a confederation whose member list names the local member AS too:
        // a static iBGP neighbour and a dynamic route-reflector-client group, no overlap
        AcceptModel {
            cfg: Cfg {
                name: "ibgp-in-confed",
                static_admin_down: false,
                static_remote_as: 65000,
                static_hold: 90,
                static_rs: false,
                static_prefix_limit: None,
                groups: vec![g("g1", "127.0.2.0/24", 65000, 65000, false, true, None, false)],
                confed: Some((64999, vec![65000, 65003])),
            },
            ops: ops(),
        },
    ]
}

// ---------------------------------------------------------------------------
// Part (ii): capability pairs

#[derive(Clone, Debug)]
struct CapSide {
    /// per family: None = absent, Some(None) = MP only, Some(Some(mode)) = MP + add-path mode
    fam: [Option<Option<u8>>; 2],
    /// a second, conflicting add-path entry for family 0 (duplicate handling)
    dup: Option<u8>,
    as4: bool,
    extmsg: bool,
    gr: Option<(u8, Vec<usize>)>,
    llgr: Option<Vec<(usize, u32)>>,
    unknown: bool,
    /// an ADD-PATH tuple for family 1 although that family has no Multiprotocol capability in this
    /// OPEN (RFC 7911 3: to be ignored; it must not put the family in force)
    ap_orphan: bool,
    /// order of the capabilities in the OPEN (RFC 5492: any order, repeats allowed):
    /// 0 = MP first, 1 = reversed (ADD-PATH precedes the MP capabilities), 2 = MP capabilities repeated at the end
    order: u8,
}

const CF: [Family; 2] = [Family::IPV4, Family::IPV6];

fn caps_of(s: &CapSide, asn: u32) -> Vec<packet::Capability> {
    let mut v = Vec::new();
    let mut ap = Vec::new();
    for (i, f) in s.fam.iter().enumerate() {
        if let Some(m) = f {
            v.push(packet::Capability::MultiProtocol(CF[i]));
            if let Some(mode) = m {
                ap.push((CF[i], *mode));
            }
        }
    }
    if let Some(m) = s.dup {
        ap.push((CF[0], m));
    }
    if s.ap_orphan && s.fam[1].is_none() {
        ap.push((CF[1], 3));
    }
    if !ap.is_empty() {
        v.push(packet::Capability::AddPath(ap));
    }
    if s.as4 {
        v.push(packet::Capability::FourOctetAsNumber(asn));
    }
    if s.extmsg {
        v.push(packet::Capability::ExtendedMessage);
    }
    if let Some((flags, fams)) = &s.gr {
        v.push(packet::Capability::GracefulRestart { flags: *flags, restart_time: 120, families: fams.iter().map(|i| (CF[*i], 0x80)).collect() });
    }
    if let Some(l) = &s.llgr {
        v.push(packet::Capability::LongLivedGracefulRestart(l.iter().map(|(i, t)| (CF[*i], 0u8, *t)).collect()));
    }
    if s.unknown {
        v.push(packet::Capability::Unknown { code: 200, bin: vec![1, 2, 3] });
    }
    match s.order {
        1 => v.reverse(),
        2 => {
            let mps: Vec<packet::Capability> = v.iter().filter(|c| matches!(c, packet::Capability::MultiProtocol(_))).cloned().collect();
            v.extend(mps);
        }
        _ => {}
    }
    v
}

/// The menu is factorised: `negotiate` never reads GR/LLGR capabilities and
/// negotiate_gr/negotiate_llgr read nothing else, so codec/FSM lists and GR/LLGR
/// lists are enumerated as two independent products (complete within each).
fn sides(thorough: bool) -> Vec<CapSide> {
    let fam_opts: Vec<Option<Option<u8>>> = if thorough {
        vec![None, Some(None), Some(Some(0)), Some(Some(1)), Some(Some(2)), Some(Some(3)), Some(Some(4))]
    } else {
        vec![None, Some(None), Some(Some(1)), Some(Some(2)), Some(Some(3)), Some(Some(4))]
    };
    let mut out = Vec::new();
    for f0 in &fam_opts {
        for f1 in [None, Some(None), Some(Some(3u8))] {
            for dup in [None, Some(1u8), Some(2u8)] {
                if dup.is_some() && !matches!(f0, Some(Some(_))) {
                    continue;
                }
                for (as4, extmsg) in [(true, true), (true, false), (false, true), (false, false)] {
                    for unknown in [false, true] {
                        // one GR capability rides along in the "unknown" variants to show it does not disturb the rest
                        let gr = if unknown { Some((0x4u8, vec![0usize])) } else { None };
                        // the order variants matter where a per-family capability (ADD-PATH) accompanies MP
                        let orders: &[u8] = if matches!(f0, Some(Some(_))) || matches!(f1, Some(Some(_))) { &[0, 1, 2] } else { &[0] };
                        for &order in orders {
                            out.push(CapSide { fam: [f0.clone(), f1.clone()], dup, as4, extmsg, gr: gr.clone(), llgr: None, unknown, ap_orphan: false, order });
                        }
                        if f1.is_none() && dup.is_none() && as4 && !unknown {
                            out.push(CapSide { fam: [f0.clone(), f1.clone()], dup, as4, extmsg, gr: gr.clone(), llgr: None, unknown, ap_orphan: true, order: 0 });
                        }
                    }
                }
            }
        }
    }
    out
}

fn gr_sides(thorough: bool) -> Vec<CapSide> {
    let grs: Vec<Option<(u8, Vec<usize>)>> = vec![None, Some((0, vec![0])), Some((0x4, vec![0, 1])), Some((0x8, vec![])), Some((0xc, vec![1]))];
    let llgrs: Vec<Option<Vec<(usize, u32)>>> = if thorough { vec![None, Some(vec![(0, 100)]), Some(vec![(0, 0), (1, 50)]), Some(vec![(1, 0)])] } else { vec![None, Some(vec![(0, 100)]), Some(vec![(0, 0), (1, 50)])] };
    let mut out = Vec::new();
    for gr in &grs {
        for llgr in &llgrs {
            out.push(CapSide { fam: [Some(None), Some(None)], dup: None, as4: true, extmsg: true, gr: gr.clone(), llgr: llgr.clone(), unknown: false, ap_orphan: false, order: 0 });
        }
    }
    out
}

fn through_wire(caps: &[packet::Capability], asn: u32) -> Result<Vec<packet::Capability>, String> {
    let msg = bgp::Message::Open(bgp::Open { as_number: asn, holdtime: HoldTime::new(90).unwrap(), router_id: 0x0a000001, capability: caps.to_vec() });
    let mut buf = bytes::BytesMut::new();
    bgp::PeerCodec::new().encode_to(&msg, &mut buf).map_err(|e| format!("encode: {e:?}"))?;
    match bgp::PeerCodec::new().try_parse(&mut buf) {
        Ok(Some(bgp::ParsedMessage::Open(o))) => Ok(o.capability),
        Ok(_) => Err("not an OPEN after decode".into()),
        Err(e) => Err(format!("decode: {e:?}")),
    }
}

fn fsm_effective_max(local: &[packet::Capability], remote: &[packet::Capability]) -> FnvHashMap<Family, usize> {
    let send_max: FnvHashMap<Family, usize> = CF.iter().map(|f| (*f, 2usize)).collect();
    let mut fsm = crate::fsm::PeerFsm::new(10, 65000, local.to_vec(), 90, 0, send_max);
    let r = crate::fsm::Role::Active;
    fsm.process(r, crate::fsm::Input::Connected(false));
    fsm.process(r, crate::fsm::Input::MessageReceived(bgp::Message::Open(bgp::Open { as_number: 65001, holdtime: HoldTime::new(90).unwrap(), router_id: 20, capability: remote.to_vec() })));
    for o in fsm.process(r, crate::fsm::Input::MessageReceived(bgp::Message::Keepalive)) {
        if let crate::fsm::PeerFsmOutput::Connection(_, crate::fsm::Output::SessionEstablished { effective_max, .. }) = o {
            return effective_max;
        }
    }
    FnvHashMap::default()
}

fn gr_sets(local: &[packet::Capability], remote: &[packet::Capability], rt: &tokio::runtime::Runtime) -> (BTreeSet<u32>, BTreeSet<u32>, bool) {
    let fk = |f: &Family| ((f.afi() as u32) << 8) | f.safi() as u32;
    rt.block_on(async {
        let ctx = Arc::new(std::sync::Mutex::new(PeerContext {
            conn_arbiter: Arc::new(std::sync::Mutex::new(ConnArbiter::new(crate::fsm::PeerFsm::new(10, 65000, vec![], 90, 0, FnvHashMap::default())))),
            active_connect_cancel_tx: None,
            active_connect_join_handle: None,
            gr_state: crate::gr::GrState::new(),
            gr_restart_timer: None,
            llgr_family_timers: FnvHashMap::default(),
            rtc_state: crate::rtc::RtcState::new(),
            rtc_eor_timer: None,
        }));
        let mut s = PeerSession::new_for_test(A_STATIC, ctx, make_tables(1));
        s.local_cap = local.to_vec();
        let gr = s.negotiate_gr(remote);
        let llgr = s.negotiate_llgr(remote);
        (
            gr.as_ref().map(|g| g.families.iter().map(fk).collect()).unwrap_or_default(),
            llgr.map(|l| l.families.iter().map(|(f, _)| fk(f)).collect()).unwrap_or_default(),
            gr.map(|g| g.notification_enabled).unwrap_or(false),
        )
    })
}

fn check_pair(l: &CapSide, r: &CapSide, rt: &tokio::runtime::Runtime, gr_part: bool) -> Vec<(String, String)> {
    let mut out = Vec::new();
    let lc = caps_of(l, 65000);
    let rc = caps_of(r, 65001);
    // each side sees the other's list through the wire
    let (lw, rw) = match (through_wire(&lc, 65000), through_wire(&rc, 65001)) {
        (Ok(a), Ok(b)) => (a, b),
        (a, b) => {
            // an OPEN the codec cannot carry is C04's subject; only mode-4 add-path (invalid) may be rejected here
            let _ = (a, b);
            return out;
        }
    };
    let desc = format!("local {:?} / remote {:?}", l, r);
    if gr_part {
        // GR / LLGR in force iff both advertised the family
        let (gl, ll, nl) = gr_sets(&lc, &rw, rt);
        let (gr_, lr, nr) = gr_sets(&rc, &lw, rt);
        if gl != gr_ || ll != lr || nl != nr {
            out.push(("C16/gr-not-mirrored".into(), format!("{desc}: GR {:?}/{:?} LLGR {:?}/{:?} N-bit {nl}/{nr}", gl, gr_, ll, lr)));
        }
        let key = |i: &usize| ((CF[*i].afi() as u32) << 8) | CF[*i].safi() as u32;
        let want_gr: BTreeSet<u32> = match (&l.gr, &r.gr) {
            (Some((_, a)), Some((_, b))) => a.iter().filter(|x| b.contains(x)).map(key).collect(),
            _ => BTreeSet::new(),
        };
        if gl != want_gr {
            out.push(("C16/gr-in-force".into(), format!("{desc}: GR families in force {:?}, both advertised {:?}", gl, want_gr)));
        }
        // LLGR: in force iff both list the family (a zero stale time from both sides disables it: accepted either way)
        let want_llgr: BTreeSet<u32> = match (&l.llgr, &r.llgr) {
            (Some(a), Some(b)) => a.iter().filter(|(x, _)| b.iter().any(|(y, _)| y == x)).map(|(x, _)| key(x)).collect(),
            _ => BTreeSet::new(),
        };
        if !ll.is_subset(&want_llgr) {
            out.push(("C16/llgr-in-force/spurious".into(), format!("{desc}: LLGR families in force {:?}, both advertised {:?}", ll, want_llgr)));
        }
        let want_n = matches!((&l.gr, &r.gr), (Some((a, _)), Some((b, _))) if a & 4 != 0 && b & 4 != 0) && !gl.is_empty();
        if nl != want_n && !gl.is_empty() {
            out.push(("C16/gr-nbit-in-force".into(), format!("{desc}: N-bit in force {nl}, both advertised {want_n}")));
        }
        return out;
    }
    let at_l = bgp::PeerCodec::negotiate(&lc, &rw);
    let at_r = bgp::PeerCodec::negotiate(&rc, &lw);
    let fams = |c: &bgp::PeerCodec| -> BTreeSet<u32> { c.families_iter().map(|f| ((f.afi() as u32) << 8) | f.safi() as u32).collect() };
    if fams(&at_l) != fams(&at_r) {
        out.push(("C16/negotiate/families-not-mirrored".into(), format!("{desc}: families {:?} vs {:?}", fams(&at_l), fams(&at_r))));
    }
    let dup_involved = l.dup.is_some() || r.dup.is_some();
    for (i, f) in CF.iter().enumerate() {
        let both = l.fam[i].is_some() && r.fam[i].is_some();
        if at_l.has_family(*f) != both {
            out.push((format!("C16/negotiate/family-in-force/{}", if both { "missing" } else { "spurious" }), format!("{desc}: family {i} advertised by both = {both}, negotiated = {}", at_l.has_family(*f))));
        }
        if let (Some(a), Some(b)) = (at_l.family_state(*f), at_r.family_state(*f)) {
            if a.addpath_tx != b.addpath_rx || a.addpath_rx != b.addpath_tx {
                out.push((
                    format!("C16/negotiate/addpath-not-mirrored{}", if dup_involved && i == 0 { "/duplicate-entries" } else { "" }),
                    format!("{desc}: family {i}: local tx={} rx={} / remote tx={} rx={}", a.addpath_tx, a.addpath_rx, b.addpath_tx, b.addpath_rx),
                ));
            }
            if !(dup_involved && i == 0) {
                let lm = l.fam[i].clone().flatten().unwrap_or(0);
                let rm = r.fam[i].clone().flatten().unwrap_or(0);
                // a direction is in force iff the sender advertised send (2) and the receiver receive (1);
                // mode values above 3 are invalid: accepted either way
                if lm <= 3 && rm <= 3 {
                    let want_tx = lm & 2 != 0 && rm & 1 != 0;
                    if a.addpath_tx != want_tx {
                        out.push(("C16/negotiate/addpath-direction".into(), format!("{desc}: family {i}: local mode {lm}, remote mode {rm}: send direction in force = {}, expected {want_tx}", a.addpath_tx)));
                    }
                }
            }
            // the FSM's effective send-max must agree with the codec
            let em = fsm_effective_max(&lc, &rw);
            let fsm_tx = em.get(f).copied().unwrap_or(1) > 1;
            if fsm_tx != a.addpath_tx {
                out.push((
                    format!("C16/fsm-vs-codec/addpath-send{}", if dup_involved && i == 0 { "/duplicate-entries" } else { "" }),
                    format!("{desc}: family {i}: PeerFsm effective send-max > 1 is {fsm_tx}, codec addpath_tx is {}", a.addpath_tx),
                ));
            }
        }
    }
    if at_l.extended_length != (l.extmsg && r.extmsg) || at_l.extended_length != at_r.extended_length {
        out.push(("C16/negotiate/extended-message".into(), format!("{desc}: local {} remote {} expected {}", at_l.extended_length, at_r.extended_length, l.extmsg && r.extmsg)));
    }
    if at_l.two_byte_as == (l.as4 && r.as4) || at_l.two_byte_as != at_r.two_byte_as {
        out.push(("C16/negotiate/four-octet-as".into(), format!("{desc}: local two_byte_as {} remote {}, both advertised AS4 = {}", at_l.two_byte_as, at_r.two_byte_as, l.as4 && r.as4)));
    }
    out
}

/// Part (iii): the prefix test accept_connection applies to decide whether an unknown address
/// belongs to a dynamic-neighbour prefix (`IpNet::contains`), for EVERY prefix length of both
/// address families: the prefix itself, the prefix with each single bit flipped, the first and the
/// last address of the prefix and their outside neighbours, against integer masking.
fn prefix_membership(rep: &mut Report) {
    let mut n = 0u64;
    let mut bad: BTreeMap<String, String> = BTreeMap::new();
    // IPv4
    let base4: u32 = 0xac_5a_c3_96; // 172.90.195.150: mixed bit pattern in every octet
    for len in 0..=32u32 {
        let mask: u32 = if len == 0 { 0 } else { u32::MAX << (32 - len) };
        let net = base4 & mask;
        let prefix: packet::IpNet = format!("{}/{}", Ipv4Addr::from(net), len).parse().unwrap();
        let mut probes: Vec<u32> = vec![net, net | !mask, net.wrapping_sub(1), (net | !mask).wrapping_add(1), base4];
        for b in 0..32 {
            probes.push(net ^ (1u32 << b));
            probes.push(base4 ^ (1u32 << b));
        }
        for a in probes {
            let want = a & mask == net;
            let got = prefix.contains(&IpAddr::V4(Ipv4Addr::from(a)));
            n += 1;
            if want != got {
                bad.entry(format!("C16/dynamic-prefix-match/v4/{}", if got { "outside-address-admitted" } else { "inside-address-refused" })).or_insert_with(|| format!("{} {} {}/{} (len % 8 = {})", Ipv4Addr::from(a), if got { "is treated as inside" } else { "is treated as outside" }, Ipv4Addr::from(net), len, len % 8));
            }
        }
    }
    // IPv6
    let base6: u128 = 0x2001_0db8_a5c3_965a_3c69_f00f_55aa_c3a5;
    for len in 0..=128u32 {
        let mask: u128 = if len == 0 { 0 } else { u128::MAX << (128 - len) };
        let net = base6 & mask;
        let prefix: packet::IpNet = format!("{}/{}", std::net::Ipv6Addr::from(net), len).parse().unwrap();
        let mut probes: Vec<u128> = vec![net, net | !mask, net.wrapping_sub(1), (net | !mask).wrapping_add(1), base6];
        for b in 0..128 {
            probes.push(net ^ (1u128 << b));
            probes.push(base6 ^ (1u128 << b));
        }
        for a in probes {
            let want = a & mask == net;
            let got = prefix.contains(&IpAddr::V6(std::net::Ipv6Addr::from(a)));
            n += 1;
            if want != got {
                bad.entry(format!("C16/dynamic-prefix-match/v6/{}", if got { "outside-address-admitted" } else { "inside-address-refused" })).or_insert_with(|| format!("{} {} {}/{} (len % 8 = {})", std::net::Ipv6Addr::from(a), if got { "is treated as inside" } else { "is treated as outside" }, std::net::Ipv6Addr::from(net), len, len % 8));
            }
        }
        // the other family never matches
        if prefix.contains(&IpAddr::V4(Ipv4Addr::new(32, 1, 13, 184))) {
            bad.entry("C16/dynamic-prefix-match/cross-family".into()).or_insert_with(|| format!("an IPv4 address is inside {}/{}", std::net::Ipv6Addr::from(net), len));
        }
    }
    rep.evaluations += n;
    rep.distinct_nontrivial += n;
    for (sig, what) in bad {
        rep.violation(Violation { sig, what: format!("dynamic-neighbour prefix test: {what}"), case: "prefix-membership".into() });
    }
    rep.notes.push(format!("c16-dynamic-prefix-match: {n} (prefix, address) pairs: every prefix length of IPv4 and IPv6 x (prefix, broadcast, their outside neighbours, every single-bit flip) against integer masking"));
}

pub(crate) fn run(replay: Option<&str>) -> Report {
    let mut rep = Report::new("C16", "hd-c16");
    let ms = accept_models();
    if let Some(case) = replay {
        if case == "prefix-membership" {
            prefix_membership(&mut rep);
            return rep;
        }
        if let Some(rest) = case.strip_prefix("caps#") {
            let mut it = rest.split('#');
            let thorough = it.next() == Some("t");
            let li: usize = it.next().and_then(|s| s.parse().ok()).unwrap_or(0);
            let ri: usize = it.next().and_then(|s| s.parse().ok()).unwrap_or(0);
            let grp = it.next() == Some("gr");
            let ss = if grp { gr_sides(thorough) } else { sides(thorough) };
            let rt = runtime();
            for (sig, what) in check_pair(&ss[li.min(ss.len() - 1)], &ss[ri.min(ss.len() - 1)], &rt, grp) {
                eprintln!("  {sig}: {what}");
                rep.violation(Violation { sig, what, case: case.to_string() });
            }
            rep.evaluations = 1;
            return rep;
        }
        let Some((name, hist)) = bfs::decode_case(case) else {
            rep.machinery_error = Some("bad replay case".into());
            return rep;
        };
        let Some(m) = ms.iter().find(|m| m.name() == name) else {
            rep.machinery_error = Some(format!("unknown model {name}"));
            return rep;
        };
        eprintln!("replay {}", bfs::render(m, &hist));
        rep.violations_from(bfs::replay(m, &hist, true));
        rep.evaluations = 1;
        rep.machinery_error = take_machinery();
        return rep;
    }
    let thorough = rep.thorough();
    let depth = if thorough { 12 } else { 6 };
    rep.rule = format!("(i) explicit-state BFS depth {depth} over connect(passive|active, static|in-dynamic-prefix|other address) / disconnect / enable / disable / delete against the real accept_connection + session tasks on loopback (4 configurations: static only with prefix limit; admin-down static + route-server dynamic group with GR and hold time; overlapping dynamic prefixes + RR client group + confederation; iBGP static neighbour + RR-client group inside a confederation whose member list names the local member AS); admission verdict, no bytes before refusal, role / hold time / local AS / capabilities / limits of the session as seen in its OPEN, Global.peers and connection slots after every step; (ii) all pairs of capability lists from a {} -element menu (per-family absent / MP / add-path modes incl. invalid 4, conflicting duplicate add-path entries, an add-path entry for a family without Multiprotocol capability, three capability orders incl. ADD-PATH before MP and repeated MP, AS4, extended message, GR flag/family lists, LLGR lists, unknown capability) through encode->decode and PeerCodec::negotiate in both directions, PeerFsm effective send-max, PeerSession::negotiate_gr/llgr (codec/FSM lists and GR/LLGR lists as two independent complete products); non-trivial = distinct canonical state / distinct pair", sides(thorough).len() + gr_sides(thorough).len());
    for m in &ms {
        let cfg = BfsCfg { max_depth: depth, max_secs: if thorough { 1200 } else { 90 }, ..Default::default() };
        bfs::bfs(m, &cfg, &mut rep);
        if let Some(e) = take_machinery() {
            rep.machinery_error = Some(e);
            return rep;
        }
    }
    // part (ii)
    let tflag = if thorough { "t" } else { "q" };
    let before = rep.evaluations;
    for grp in [false, true] {
        let ss = if grp { gr_sides(thorough) } else { sides(thorough) };
        let n = ss.len() as u64;
        let total = n * n;
        enumr::par_range(total, &mut rep, |i, local| {
            thread_local! { static RT: tokio::runtime::Runtime = runtime(); }
            let (li, ri) = ((i / n) as usize, (i % n) as usize);
            let vs = RT.with(|rt| check_pair(&ss[li], &ss[ri], rt, grp));
            local.evaluations += 1;
            for (sig, what) in vs {
                local.violation(Violation { sig, what, case: format!("caps#{tflag}#{li}#{ri}#{}", if grp { "gr" } else { "codec" }) });
            }
            if i % 20_011 == 0 {
                local.samples.push(format!("caps pair: {:?} <-> {:?}", ss[li], ss[ri]));
            }
        });
        rep.notes.push(format!("c16-capability-pairs[{}]: {} lists per side, {} ordered pairs, all evaluated", if grp { "gr/llgr" } else { "codec/fsm" }, n, total));
    }
    rep.distinct_nontrivial += rep.evaluations - before;
    prefix_membership(&mut rep);
    rep
}
