// C06, daemon level: the NlriChange stream that TableManager fans out to the
// peer channels (distribute_update and the multi-step shard operations such as
// mark_llgr_stale) folded by a consumer must reproduce
// TableManager::collect_loc_rib_paths.  Explicit-state BFS over the real
// TableManager (2 shards) observed through a registered peer channel.

use super::super::*;
use super::common::*;
use crate::verif::vx::bfs::{self, BfsCfg, Model};
use crate::verif::vx::report::Report;
use std::collections::{BTreeMap, BTreeSet};
use std::net::{IpAddr, Ipv4Addr};

#[derive(Clone, Debug)]
enum Op {
    Insert { peer: u8, pfx: u8, attr: u8 },
    Remove { peer: u8, pfx: u8 },
    /// session of A ends: unregister_peer with drop (false) or stale (true) families
    Down { stale: bool },
    /// LLGR-only session loss: families neither dropped nor GR-staled, the LLGR period starts at once
    DownLlgrOnly,
    Reconnect,
    DropStale,
    MarkLlgr,
    DropLlgrStale,
    Nh { up: bool },
    /// restarting speaker: selection deferral from before the first route
    StartDeferral,
    EndDeferral,
    /// the observing session comes up now (late-observer model): it starts from a dump of the RIB
    Attach,
}

fn op_name(o: &Op) -> String {
    let p = |x: &u8| ["A", "B", "L"][*x as usize];
    match o {
        Op::Insert { peer, pfx, attr } => format!("insert_route({},P{},{})", p(peer), pfx + 1, ["X", "Y", "N"][*attr as usize]),
        Op::Remove { peer, pfx } => format!("remove_route({},P{})", p(peer), pfx + 1),
        Op::Down { stale } => format!("unregister_peer(A,{})", if *stale { "stale" } else { "drop" }),
        Op::DownLlgrOnly => "unregister_peer(A,llgr-only)+mark_llgr_stale(A)".into(),
        Op::Reconnect => "reconnect(A)".into(),
        Op::DropStale => "drop_stale_families(A)".into(),
        Op::MarkLlgr => "mark_llgr_stale(A)".into(),
        Op::DropLlgrStale => "drop_llgr_stale_families(A)".into(),
        Op::Nh { up } => format!("update_nexthop_validity(N1,{})", if *up { "up" } else { "down" }),
        Op::StartDeferral => "start_deferral".into(),
        Op::EndDeferral => "end_deferral".into(),
        Op::Attach => "observer_registers".into(),
    }
}

fn addr(n: u8) -> IpAddr {
    IpAddr::V4(Ipv4Addr::new(10, 6, 0, n))
}

fn mk_src(peer: u8) -> Arc<table::Source> {
    Arc::new(table::Source::new(
        addr(1 + peer),
        IpAddr::V4(Ipv4Addr::new(10, 6, 0, 254)),
        65001 + peer as u32,
        65000,
        Ipv4Addr::new(10, 6, 0, 1 + peer),
        // both external, so that A's and B's paths can tie on every step before LLGR / router-id
        table::PeerRole::Ebgp,
    ))
}

fn attrs(i: u8) -> Vec<packet::Attribute> {
    let lp = |v| packet::Attribute::new_with_value(packet::Attribute::LOCAL_PREF, v).unwrap();
    let base = vec![packet::Attribute::new_with_value(packet::Attribute::ORIGIN, 0).unwrap(), packet::Attribute::empty_as_path()];
    match i {
        0 => [base, vec![lp(200)]].concat(),
        1 => [base, vec![lp(100)]].concat(),
        // ties with X, but carries NO_LLGR
        _ => [base, vec![lp(200), packet::Attribute::new_with_bin(packet::Attribute::COMMUNITY, 0xffff_0007u32.to_be_bytes().to_vec()).unwrap()]].concat(),
    }
}

fn nh() -> bgp::Nexthop {
    bgp::Nexthop::V4(Ipv4Addr::new(192, 0, 2, 1))
}

type Snap = (usize, Vec<u8>, Option<IpAddr>);

fn snap(p: &table::Path, with_id: bool) -> (u32, Snap) {
    let mut b = Vec::new();
    for a in p.attr.iter() {
        b.extend_from_slice(&a.encode_to_bytes());
    }
    (if with_id { p.local_path_id } else { 0 }, (Arc::as_ptr(&p.source) as usize, b, p.nexthop.map(|n| n.addr())))
}

pub(crate) struct Sys {
    tables: TableHandle,
    /// None until the observing session registers (late-observer model)
    obs: Option<mpsc::UnboundedReceiver<ToPeerEvent>>,
    a: Vec<Arc<table::Source>>,
    a_up: bool,
    b: Arc<table::Source>,
    pool: Vec<Arc<Vec<packet::Attribute>>>,
    nets: Vec<packet::Nlri>,
    nh_down: bool,
    deferring: bool,
    touched: bool,
    /// a deferral has taken place in this history (kept in the fingerprint: whether the table really
    /// left the deferral is hidden state that must not be merged away)
    ever_deferred: bool,
    best: BTreeMap<String, (u32, Snap)>,
    all: BTreeMap<String, Vec<(u32, Snap)>>,
    broken: BTreeSet<String>,
}

pub(crate) struct TmModel {
    ops: Vec<Op>,
    nets: Vec<packet::Nlri>,
    late: bool,
}

impl Model for TmModel {
    type Sys = Sys;
    fn name(&self) -> String {
        if self.late { "c06-tablemanager-late-observer".into() } else { "c06-tablemanager".into() }
    }
    fn n_ops(&self) -> usize {
        self.ops.len()
    }
    fn op_name(&self, op: usize) -> String {
        op_name(&self.ops[op])
    }
    fn init(&self) -> Sys {
        let tables = make_tables(2);
        let obs = if self.late { None } else { Some(tables.register_peer(addr(99), FnvHashSet::default(), |_| {})) };
        Sys {
            tables,
            obs,
            a: vec![mk_src(0)],
            a_up: true,
            b: mk_src(1),
            pool: (0..3).map(|i| Arc::new(attrs(i))).collect(),
            nets: self.nets.clone(),
            nh_down: false,
            deferring: false,
            touched: false,
            ever_deferred: false,
            best: BTreeMap::new(),
            all: BTreeMap::new(),
            broken: BTreeSet::new(),
        }
    }
    fn step(&self, sys: &mut Sys, op: usize, out: &mut Vec<(String, String)>) -> bool {
        let o = &self.ops[op];
        let f = Family::IPV4;
        let src = |sys: &Sys, peer: u8| match peer {
            0 => sys.a.last().unwrap().clone(),
            1 => sys.b.clone(),
            _ => table::Source::local(),
        };
        let a_addr = addr(1);
        match o {
            Op::Insert { peer, pfx, attr } => {
                if *peer == 0 && !sys.a_up {
                    return false;
                }
                sys.tables.insert_route(src(sys, *peer), f, packet::PathNlri::new(sys.nets[*pfx as usize].clone()), Some(nh()), sys.pool[*attr as usize].clone(), None, 0);
            }
            Op::Remove { peer, pfx } => {
                if *peer == 0 && !sys.a_up {
                    return false;
                }
                sys.tables.remove_route(src(sys, *peer), f, packet::PathNlri::new(sys.nets[*pfx as usize].clone()), None, 0);
            }
            Op::Down { stale } => {
                if !sys.a_up {
                    return false;
                }
                if *stale {
                    sys.tables.unregister_peer(a_addr, &[], &[f]);
                } else {
                    sys.tables.unregister_peer(a_addr, &[f], &[]);
                }
                sys.a_up = false;
            }
            Op::DownLlgrOnly => {
                if !sys.a_up {
                    return false;
                }
                sys.tables.unregister_peer(a_addr, &[], &[]);
                sys.tables.mark_llgr_stale(a_addr, &[f]);
                sys.a_up = false;
            }
            Op::Reconnect => {
                if sys.a_up || sys.a.len() >= 3 {
                    return false;
                }
                sys.a.push(mk_src(0));
                sys.a_up = true;
            }
            Op::DropStale => sys.tables.drop_stale_families(a_addr, &[f]),
            Op::MarkLlgr => {
                if sys.a_up {
                    return false;
                }
                sys.tables.mark_llgr_stale(a_addr, &[f]);
            }
            Op::DropLlgrStale => sys.tables.drop_llgr_stale_families(a_addr, &[f]),
            Op::Nh { up } => {
                if *up != sys.nh_down {
                    return false;
                }
                sys.nh_down = !*up;
                sys.tables.update_nexthop_validity(nh().addr(), *up);
            }
            Op::Attach => {
                // (a session that comes up while selection is deferred is not sent the deferred routes:
                // what it must see then is C11's subject, not modelled here)
                if sys.obs.is_some() || sys.deferring {
                    return false;
                }
                sys.obs = Some(sys.tables.register_peer(addr(99), FnvHashSet::default(), |_| {}));
                // what a session is sent when it comes up: the current Loc-RIB
                sys.best.clear();
                sys.all.clear();
                for c in sys.tables.collect_loc_rib_paths(f) {
                    let key = format!("{}", c.net);
                    sys.best.insert(key.clone(), snap(c.new_best().unwrap(), false));
                    sys.all.insert(key, c.current_paths.iter().map(|p| snap(p, true)).collect());
                }
            }
            Op::StartDeferral => {
                if sys.touched || sys.deferring {
                    return false;
                }
                sys.tables.start_deferral_families(&[f]);
                sys.deferring = true;
                sys.ever_deferred = true;
            }
            Op::EndDeferral => {
                if !sys.deferring {
                    return false;
                }
                sys.tables.end_deferral_families(&[f]);
                sys.deferring = false;
            }
        }
        sys.touched = true;
        // fold what the peer channel delivered
        while let Some(Ok(ev)) = sys.obs.as_mut().map(|o| o.try_recv()) {
            if let ToPeerEvent::NlriChange(c) = ev {
                let key = format!("{}", c.net);
                if c.best_changed {
                    match c.new_best() {
                        Some(p) => {
                            sys.best.insert(key.clone(), snap(p, false));
                        }
                        None => {
                            sys.best.remove(&key);
                        }
                    }
                }
                if c.any_changed {
                    if c.current_paths.is_empty() {
                        sys.all.remove(&key);
                    } else {
                        sys.all.insert(key, c.current_paths.iter().map(|p| snap(p, true)).collect());
                    }
                }
            }
        }
        let mut want_best = BTreeMap::new();
        let mut want_all = BTreeMap::new();
        for c in sys.tables.collect_loc_rib_paths(f) {
            let key = format!("{}", c.net);
            want_best.insert(key.clone(), snap(c.new_best().unwrap(), false));
            want_all.insert(key, c.current_paths.iter().map(|p| snap(p, true)).collect::<Vec<_>>());
        }
        let kind = op_name(o).split('(').next().unwrap_or("").to_string();
        let mut cur = Vec::new();
        // consumers key what they hold by destination id: two live prefixes must never share one,
        // whatever shard they are on
        let mut ids: BTreeMap<u32, String> = BTreeMap::new();
        for c in sys.tables.collect_loc_rib_paths(f) {
            if let Some(other) = ids.insert(c.dest_id, format!("{}", c.net)) {
                cur.push((format!("C06/tm-dest-id-shared/{kind}"), format!("after {}: the live prefixes {} and {} are both announced under destination id {:#x}", op_name(o), other, c.net, c.dest_id)));
                break;
            }
        }
        // while selection is deferred the notifications are held back; the fold is compared again afterwards
        // (and there is nothing to compare before the observer has registered)
        if sys.deferring || sys.obs.is_none() {
            want_best = sys.best.clone();
            want_all = sys.all.clone();
        }
        if want_best != sys.best {
            cur.push((
                format!("C06/tm-best-fold-mismatch/{kind}"),
                format!("after {}: a non-add-path consumer of the peer channel holds best paths for {:?}, the RIB has {:?} (or different content)", op_name(o), sys.best.keys().collect::<Vec<_>>(), want_best.keys().collect::<Vec<_>>()),
            ));
        }
        if want_all != sys.all {
            cur.push((
                format!("C06/tm-addpath-fold-mismatch/{kind}"),
                format!("after {}: an add-path consumer of the peer channel holds {:?}, the RIB has {:?}", op_name(o), sys.all.iter().map(|(k, v)| (k.clone(), v.len())).collect::<Vec<_>>(), want_all.iter().map(|(k, v)| (k.clone(), v.len())).collect::<Vec<_>>()),
            ));
        }
        let mut now = BTreeSet::new();
        for (sig, what) in cur {
            let clause = sig.split('/').nth(1).unwrap_or("").to_string();
            if !sys.broken.contains(&clause) && !now.contains(&clause) {
                out.push((sig, what));
            }
            now.insert(clause);
        }
        sys.broken = now;
        true
    }
    fn fingerprint(&self, sys: &Sys) -> Vec<u8> {
        let mut srcs: Vec<usize> = sys.a.iter().map(|s| Arc::as_ptr(s) as usize).collect();
        srcs.push(Arc::as_ptr(&sys.b) as usize);
        srcs.push(Arc::as_ptr(&table::Source::local()) as usize);
        let sid = |p: usize| srcs.iter().position(|x| *x == p).unwrap_or(99);
        let mut rib: Vec<String> = Vec::new();
        for d in sys.tables.collect_paths(table::TableQuery::Global, Family::IPV4, vec![], true) {
            rib.push(format!("{}:{:?}", d.net, d.paths.iter().map(|p| (sid(Arc::as_ptr(&p.source) as usize), bfs::hash128(&p.attr.iter().flat_map(|a| a.encode_to_bytes()).collect::<Vec<u8>>()) as u32, p.stale, p.source.is_llgr_stale(), p.filtered)).collect::<Vec<_>>()));
        }
        rib.sort();
        let v = |m: &BTreeMap<String, (u32, Snap)>| m.iter().map(|(k, (i, s))| format!("{k}:{i}:{}:{}", sid(s.0), bfs::hash128(&s.1) as u32)).collect::<Vec<_>>();
        let va: Vec<String> = sys.all.iter().map(|(k, l)| format!("{k}:{:?}", l.iter().map(|(i, s)| (*i, sid(s.0), bfs::hash128(&s.1) as u32)).collect::<Vec<_>>())).collect();
        let loc: Vec<String> = sys.tables.collect_loc_rib_paths(Family::IPV4).iter().map(|c| format!("{}:{:?}", c.net, c.current_paths.iter().map(|p| (p.local_path_id, sid(Arc::as_ptr(&p.source) as usize))).collect::<Vec<_>>())).collect();
        let mut loc = loc;
        loc.sort();
        format!("{:?}|{:?}|{:?}|{:?}|{}|{}|{}|{:?}|{}{}", rib, loc, v(&sys.best), va, sys.a_up, sys.a.len(), sys.nh_down, sys.broken, sys.deferring as u8, sys.touched as u8 + 2 * sys.obs.is_some() as u8 + 4 * sys.ever_deferred as u8).into_bytes()
    }
    fn observe(&self, sys: &Sys) -> u64 {
        sys.best.len() as u64 * 8 + sys.all.values().map(|v| v.len() as u64).sum::<u64>()
    }
}

fn model(late: bool) -> TmModel {
    // two prefixes on different shards
    let probe = TableManager::new(2);
    let mut s0 = None;
    let mut s1 = None;
    for k in 0..40u8 {
        let n = packet::Nlri::V4(packet::bgp::Ipv4Net { addr: Ipv4Addr::new(10, 60, k, 0), mask: 24 });
        probe.insert_route(mk_src(1), Family::IPV4, packet::PathNlri::new(n.clone()), Some(nh()), Arc::new(attrs(0)), None, 0);
        let in0 = probe.shards[0].lock().unwrap().rtable.iter_reach(Family::IPV4).any(|r| r.net.nlri == n);
        if in0 && s0.is_none() {
            s0 = Some(n);
        } else if !in0 && s1.is_none() {
            s1 = Some(n);
        }
    }
    let nets = vec![s0.expect("prefix on shard 0"), s1.expect("prefix on shard 1")];
    let mut ops = Vec::new();
    for pfx in 0..2u8 {
        ops.push(Op::Insert { peer: 0, pfx, attr: 0 });
        ops.push(Op::Remove { peer: 0, pfx });
    }
    ops.push(Op::Insert { peer: 0, pfx: 0, attr: 2 });
    ops.push(Op::Insert { peer: 0, pfx: 0, attr: 1 });
    ops.push(Op::Insert { peer: 1, pfx: 0, attr: 1 });
    ops.push(Op::Insert { peer: 1, pfx: 0, attr: 0 });
    ops.push(Op::Remove { peer: 1, pfx: 0 });
    ops.push(Op::Insert { peer: 2, pfx: 1, attr: 1 });
    ops.extend([Op::Down { stale: true }, Op::Down { stale: false }, Op::DownLlgrOnly, Op::Reconnect, Op::DropStale, Op::MarkLlgr, Op::DropLlgrStale, Op::Nh { up: false }, Op::Nh { up: true }, Op::StartDeferral, Op::EndDeferral]);
    if late {
        // a restart during which nobody listens yet, then the first session
        ops = vec![Op::StartDeferral, Op::EndDeferral, Op::Attach, Op::Insert { peer: 0, pfx: 0, attr: 0 }, Op::Insert { peer: 1, pfx: 1, attr: 1 }, Op::Remove { peer: 0, pfx: 0 }, Op::Down { stale: false }];
    }
    TmModel { ops, nets, late }
}

pub(crate) fn run(replay: Option<&str>) -> Report {
    let mut rep = Report::new("C06", "hd-c06tm");
    let m = model(false);
    if let Some(case) = replay {
        let late = model(true);
        let m = if case.contains("late-observer") { &late } else { &m };
        let Some((_, hist)) = bfs::decode_case(case) else {
            rep.machinery_error = Some("bad replay case".into());
            return rep;
        };
        eprintln!("replay {}", bfs::render(m, &hist));
        rep.violations_from(bfs::replay(m, &hist, true));
        rep.evaluations = 1;
        return rep;
    }
    let depth = if rep.thorough() { 30 } else { 7 };
    rep.rule = format!("explicit-state BFS depth {depth} over the real TableManager (2 shards; insert/remove from 2 peers + local, session down with stale/drop families, reconnect with a new Source, stale purge, LLGR mark (restale_llgr + drop_no_llgr) and purge, next-hop validity flips) observed through a registered peer channel; fold of the delivered NlriChange stream (best_changed / any_changed consumers) == collect_loc_rib_paths after every step");
    bfs::bfs(&m, &BfsCfg { max_depth: depth, max_secs: if rep.thorough() { 900 } else { 30 }, ..Default::default() }, &mut rep);
    bfs::bfs(&model(true), &BfsCfg { max_depth: depth.min(12), max_secs: 60, ..Default::default() }, &mut rep);
    rep
}
