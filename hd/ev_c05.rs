// C05 (end-to-end part): a malformed UPDATE never installs a route; the session
// resets only if it must.
//
// Technique: bounded-exhaustive replay.  The corpus of the packet-level check
// (/verif/hx/src/c05.rs: hand-built valid UPDATEs x corruption menu, included
// below as module `pk`, together with its INDEPENDENT RFC 4271 / RFC 7606
// reference receiver and its oracle `judge`) is written, byte for byte, to a
// LIVE passive session: the real accept_connection + PeerSession::run over
// loopback TCP, the harness plays the remote speaker (ev_common.rs).
//
// Per case (own daemon instance, neighbour configured for the role, IPv4+IPv6
// unicast, 2- or 4-octet AS by omitting / advertising the capability):
//   1. establish;
//   2. PRE-INSTALL, with a valid UPDATE carrying marker attributes, every prefix
//      the case UPDATE announces or withdraws (as located by the reference) plus
//      one canary prefix per family; barrier; all of them must be in Adj-RIB-In;
//   3. write the case's bytes; barrier (a KEEPALIVE counted by the session's
//      receive counter = everything before it has been processed);
//   4. observe: session still up?  NOTIFICATION on the wire?  session task
//      panicked?  Adj-RIB-In of the peer (both families) through
//      TableManager::collect_paths(AdjIn).
// The RIB observation is turned into the packet-level observation vocabulary
//   route with other than the marker attributes  -> "Reach"  (installed by this UPDATE)
//   pre-installed prefix that is gone             -> "Unreach" (withdrawn)
//   pre-installed prefix still with the marker    -> nothing happened to it
// and handed to `pk::judge` with the reference's expectation; its clauses map to
//   faulty-attr-believed / not-treated-as-withdraw / missing-mandatory-accepted
//                                        -> C05/e2e/faulty-route-installed/<attr>:<class>
//   not-treated-as-withdraw(silently-ignored) -> C05/e2e/previous-route-not-withdrawn/<attr>:<class>
//   withdrawal-lost                      -> C05/e2e/withdrawal-not-applied/<legacy|mp>:<attr>:<class>
//   needless-reset                       -> C05/e2e/needless-reset/<attr>:<class>
//   ibgp-only-attr-believed              -> C05/e2e/ibgp-only-attr-installed/<role>:<attr>
// plus the end-to-end-only clauses
//   C05/e2e/reset-without-notification/<..>  session ended (allowed) but no NOTIFICATION was sent
//   C05/e2e/routes-kept-after-reset/<..>     session reset but routes of the peer survive
//   C05/e2e/panic/<file:line>                the session task panicked
// Timeouts are MACHINERY errors, never verdicts.

use super::super::*;
use super::common::*;
use crate::verif::vx::enumr;
use crate::verif::vx::report::{hex, unhex, Report, Violation};
use std::collections::{BTreeMap, BTreeSet};
use std::net::{IpAddr, Ipv4Addr, Ipv6Addr};

#[allow(dead_code, unused_imports, unused_variables, unreachable_pub, clippy::all)]
mod vx {
    pub(crate) use crate::verif::vx::*;
}
#[allow(dead_code, unused_imports, unused_variables, unreachable_pub, clippy::all)]
mod mkmsg {
    include!(concat!(env!("OSRG_RUSTYBGP_VERIF_DIR"), "/hx/src/mkmsg.rs"));
}
#[allow(dead_code, unused_imports, unused_variables, unreachable_pub, clippy::all)]
mod wire {
    include!(concat!(env!("OSRG_RUSTYBGP_VERIF_DIR"), "/hx/src/wire.rs"));
}
/// the packet-level C05 module: corpus, reference receiver, oracle
#[allow(dead_code, unused_imports, unused_variables, unreachable_pub, clippy::all)]
mod pk {
    include!(concat!(env!("OSRG_RUSTYBGP_VERIF_DIR"), "/hx/src/c05.rs"));
}
use pk::{Expect, Obs, ObsMsg, Pfx, Role};

const PEER_IP: IpAddr = IpAddr::V4(Ipv4Addr::new(127, 0, 1, 1));
const LOCAL_AS: u32 = 65000; // ev_common::make_global
const PEER_AS: u32 = 65001; // first AS of the corpus' AS_PATH
const CONFED_ID: u32 = 64900;
const PEER_ID: u32 = 0x0a0a0a01;
/// second AS of the marker AS_PATH of pre-installed routes (fits 2 octets)
const MARKER_AS: u32 = 64512;
const MARKER_MED: u32 = 4242;

fn canaries() -> Vec<Pfx> {
    let mut v6 = [0u8; 16];
    v6[..6].copy_from_slice(&[0x20, 0x01, 0x0d, 0xb8, 0xff, 0xff]);
    let mut v4 = [0u8; 16];
    v4[..3].copy_from_slice(&[203, 0, 113]);
    vec![Pfx { afi: 1, safi: 1, len: 24, addr: v4 }, Pfx { afi: 2, safi: 1, len: 48, addr: v6 }]
}

fn nlri_of(p: &Pfx) -> packet::Nlri {
    if p.afi == 1 {
        packet::Nlri::V4(packet::bgp::Ipv4Net { addr: Ipv4Addr::new(p.addr[0], p.addr[1], p.addr[2], p.addr[3]), mask: p.len })
    } else {
        packet::Nlri::V6(packet::bgp::Ipv6Net { addr: Ipv6Addr::from(p.addr), mask: p.len })
    }
}

fn family_of(p: &Pfx) -> Family {
    if p.afi == 1 { Family::IPV4 } else { Family::IPV6 }
}

fn marker_as_path() -> Vec<u8> {
    let mut b = vec![2u8, 2];
    b.extend_from_slice(&PEER_AS.to_be_bytes());
    b.extend_from_slice(&MARKER_AS.to_be_bytes());
    b
}

fn marker_attrs() -> Vec<packet::Attribute> {
    vec![
        packet::Attribute::new_with_value(packet::Attribute::ORIGIN, 2).unwrap(),
        packet::Attribute::new_with_bin(packet::Attribute::AS_PATH, marker_as_path()).unwrap(),
        packet::Attribute::new_with_value(packet::Attribute::MULTI_EXIT_DESC, MARKER_MED).unwrap(),
    ]
}

fn is_marker(attr: &[packet::Attribute]) -> bool {
    let m = marker_as_path();
    attr.iter().any(|a| a.code() == packet::Attribute::AS_PATH && a.binary() == Some(&m))
}

/// One route of the peer's Adj-RIB-In.
struct Route {
    pfx: Pfx,
    marker: bool,
    /// (code, value) as the packet-level oracle represents attributes
    attrs: Vec<(u8, pk::Repr)>,
}

/// Adj-RIB-In of the peer, both families, as (prefix, attributes) in the
/// vocabulary of the packet-level module (conversion through its public
/// `observe_messages`).
fn adj_in(tables: &TableHandle) -> Vec<Route> {
    let mut out = Vec::new();
    for f in [Family::IPV4, Family::IPV6] {
        for d in tables.collect_paths(table::TableQuery::AdjIn(PEER_IP), f, vec![], true) {
            for p in &d.paths {
                let msg = bgp::Message::Update(bgp::Update::Reach { family: f, entries: vec![packet::PathNlri { path_id: 0, nlri: d.net.clone() }], nexthop: None, attr: p.attr.clone() });
                for o in pk::observe_messages(&[msg]) {
                    if let ObsMsg::Reach { pfx, attrs, .. } = o {
                        for x in pfx {
                            out.push(Route { pfx: x, marker: is_marker(&p.attr), attrs: attrs.clone() });
                        }
                    }
                }
            }
        }
    }
    out.sort_by(|a, b| a.pfx.cmp(&b.pfx));
    out
}

/// For an iBGP neighbour the daemon injects LOCAL_PREF 100 into announcements that carry none
/// (rx_update, inject_local_pref_if_absent).  That default is the daemon's own value, not the
/// attribute from the wire (the corpus only ever sends 200 / 9), so it must not be read as
/// "the faulty LOCAL_PREF was believed" when the received one was discarded.
fn without_injected_default(mut routes: Vec<Route>, role: Role) -> Vec<Route> {
    if matches!(role, Role::Ibgp) {
        for r in routes.iter_mut() {
            r.attrs.retain(|(c, v)| !(*c == 5 && *v == pk::Repr::U32(100)));
        }
    }
    routes
}

struct Outcome {
    /// the session was still Established after the case UPDATE (barrier counted)
    up: bool,
    /// NOTIFICATION read from the wire
    notif: Option<(u8, u8, String)>,
    /// the daemon's transmit counter counted a NOTIFICATION (it is incremented after a successful write)
    notif_counted: bool,
    panicked: Option<String>,
    /// Adj-RIB-In after the barrier (session up) / after the session task ended (reset)
    routes: Vec<Route>,
    /// prefixes confirmed installed (with the marker) before the case UPDATE
    pre: Vec<Pfx>,
    /// the role accept_connection derived from the configuration
    daemon_role: String,
}

fn role_cfg(role: Role) -> (u32, bool, bool) {
    // (peer AS, rs_client, confederation)
    match role {
        Role::Ebgp => (PEER_AS, false, false),
        Role::RsClient => (PEER_AS, true, false),
        Role::Ibgp => (LOCAL_AS, false, false),
        Role::ConfedEbgp => (PEER_AS, false, true),
    }
}

/// Err = machinery problem (never a verdict).
async fn drive(bytes: &[u8], two_byte: bool, role: Role, exp: &Expect) -> Result<Outcome, String> {
    let d = Daemon::new(1);
    let (peer_as, rs, confed) = role_cfg(role);
    let daemon_role = {
        let mut g = d.global.write().await;
        if confed {
            g.confederation = Some(ConfederationConfig { id: CONFED_ID, members: [PEER_AS].into_iter().collect() });
        }
        let mut p = default_peer_params(PEER_IP);
        p.passive = true;
        p.expected_remote_asn = peer_as;
        p.rs_client = rs;
        p.holdtime = 90;
        p.families = [(Family::IPV4, 0u8), (Family::IPV6, 0u8)].into_iter().collect();
        g.add_peer(p, None).map_err(|_| "add_peer failed".to_string())?;
        format!("{:?}", g.peers.get(&PEER_IP).unwrap().peer_role(&g))
    };
    let mut caps = vec![packet::Capability::MultiProtocol(Family::IPV4), packet::Capability::MultiProtocol(Family::IPV6)];
    if !two_byte {
        caps.push(packet::Capability::FourOctetAsNumber(peer_as));
    }
    let Some(mut conn) = connect(&d, PEER_IP, crate::fsm::Role::Passive).await? else {
        return Err("the daemon refused the connection of the configured neighbour".into());
    };
    if !conn.establish(peer_as, PEER_ID, 90, caps).await? {
        conn.wait_end(true).await;
        return Err(format!("session set-up failed (role {}, as width {})", role.name(), if two_byte { 2 } else { 4 }));
    }
    if conn.codec.two_byte_as != two_byte {
        return Err(format!("negotiated AS width is not the wanted one (two_byte_as={})", conn.codec.two_byte_as));
    }

    // ---- pre-install -------------------------------------------------------
    let mut pre: BTreeSet<Pfx> = canaries().into_iter().collect();
    for p in exp.announced.iter().chain(exp.withdrawn.iter()) {
        if p.safi == 1 && (p.afi == 1 || p.afi == 2) {
            pre.insert(p.clone());
        }
    }
    let attrs = Arc::new(marker_attrs());
    for (fam, nh) in [(Family::IPV4, bgp::Nexthop::V4(Ipv4Addr::new(127, 0, 1, 1))), (Family::IPV6, bgp::Nexthop::V6("2001:db8::99".parse().unwrap()))] {
        let entries: Vec<packet::PathNlri> = pre.iter().filter(|p| family_of(p) == fam).map(|p| packet::PathNlri { path_id: 0, nlri: nlri_of(p) }).collect();
        // keep every pre-install UPDATE far below 4096 bytes
        for chunk in entries.chunks(100) {
            let msg = bgp::Message::Update(bgp::Update::Reach { family: fam, entries: chunk.to_vec(), nexthop: Some(nh), attr: attrs.clone() });
            if !conn.send(&msg).await {
                return Err("pre-install: could not send".into());
            }
        }
    }
    if !conn.barrier().await {
        return Err("pre-install: the session ended while valid UPDATEs were processed".into());
    }
    let before = adj_in(&d.tables);
    for p in &pre {
        if !before.iter().any(|r| r.pfx == *p && r.marker) {
            return Err(format!("pre-install: {} is not in the Adj-RIB-In after a valid UPDATE (role {})", p.show(), role.name()));
        }
    }
    if before.len() != pre.len() {
        return Err(format!("pre-install: Adj-RIB-In holds {} routes, {} were announced", before.len(), pre.len()));
    }

    // ---- the case ----------------------------------------------------------
    if !conn.send_bytes(bytes).await {
        return Err("could not write the case's bytes".into());
    }
    let up = conn.barrier().await;
    if let Some(e) = take_machinery() {
        return Err(e);
    }
    let counter_tx = {
        let g = d.global.read().await;
        g.peers.get(&PEER_IP).map(|p| p.counter_tx.clone())
    };
    let mut out = Outcome { up, notif: None, notif_counted: false, panicked: None, routes: Vec::new(), pre: pre.into_iter().collect(), daemon_role };
    if up {
        out.routes = without_injected_default(adj_in(&d.tables), role);
        conn.wait_end(true).await;
    } else {
        // what did the daemon say before it went away?
        for _ in 0..10_000 {
            match conn.read_msg().await {
                Ok(Some(bgp::ParsedMessage::Notification(n))) => {
                    out.notif = Some((n.notification_code(), n.notification_subcode(), format!("{n}")));
                }
                Ok(Some(_)) => {}
                Ok(None) => break,
                Err(e) if e.starts_with("timeout") => return Err(format!("after the case UPDATE: {e}")),
                // our own KEEPALIVE met a closed socket: the RST may cut the stream short
                Err(_) => break,
            }
        }
        if let Some(j) = conn.join.take() {
            match tokio::time::timeout(WAIT, j).await {
                Err(_) => return Err("session task did not end within the time limit".into()),
                Ok(Ok(())) => {}
                Ok(Err(e)) => {
                    if e.is_panic() {
                        let payload = e.into_panic();
                        let msg = crate::verif::vx::report::catch(move || std::panic::resume_unwind(payload)).err().unwrap_or_default();
                        out.panicked = Some(msg);
                    } else {
                        return Err("session task was cancelled".into());
                    }
                }
            }
        }
        conn.stream = None;
        out.notif_counted = counter_tx.is_some_and(|c| c.notification.load(Ordering::Relaxed) > 0);
        out.routes = without_injected_default(adj_in(&d.tables), role);
    }
    if let Some(e) = take_machinery() {
        return Err(e);
    }
    Ok(out)
}

/// The RIB observation in the packet-level vocabulary.
fn to_obs(o: &Outcome) -> Obs {
    if let Some(p) = &o.panicked {
        return Obs::Panic(p.clone());
    }
    if !o.up {
        let (code, subcode, text) = o.notif.clone().unwrap_or((0, 0, "session ended without a NOTIFICATION on the wire".into()));
        return Obs::Reset { code, subcode, text };
    }
    let mut msgs = Vec::new();
    for r in o.routes.iter().filter(|r| !r.marker) {
        msgs.push(ObsMsg::Reach { afi: r.pfx.afi, safi: r.pfx.safi, nexthop: Some("installed".into()), pfx: vec![r.pfx.clone()], attrs: r.attrs.clone() });
    }
    for p in &o.pre {
        if !o.routes.iter().any(|r| r.pfx == *p) {
            msgs.push(ObsMsg::Unreach { afi: p.afi, safi: p.safi, pfx: vec![p.clone()] });
        }
    }
    Obs::Msgs(msgs)
}

fn show_outcome(o: &Outcome) -> String {
    let routes: Vec<String> = o.routes.iter().map(|r| format!("{}{}", r.pfx.show(), if r.marker { "(previous)".to_string() } else { format!("(new, attrs {:?})", r.attrs.iter().map(|a| a.0).collect::<Vec<_>>()) })).collect();
    format!(
        "session {}; NOTIFICATION on the wire: {}; counted as sent: {}; Adj-RIB-In: [{}]",
        if let Some(p) = &o.panicked { format!("task PANICKED ({p})") } else if o.up { "still Established".to_string() } else { "ended".to_string() },
        o.notif.as_ref().map(|n| format!("{}/{} ({})", n.0, n.1, n.2)).unwrap_or("none".into()),
        o.notif_counted,
        routes.join(" ")
    )
}

/// "<attr>:<class>" of every fault the reference found, structural reasons as "structural:<kind>".
fn fault_names(exp: &Expect) -> Vec<String> {
    let mut v: Vec<String> = exp.hard.iter().chain(exp.disc.iter()).map(|f| f.name()).collect();
    for c in &exp.missing {
        v.push(format!("{}:missing", pk_attr_name(*c)));
    }
    for d in &exp.dups {
        v.push(format!("{}:duplicate", pk_attr_name(d.code)));
    }
    for s in &exp.structural {
        v.push(format!("structural:{}", structural_kind(s)));
    }
    v.sort();
    v.dedup();
    v
}

fn pk_attr_name(code: u8) -> String {
    // the packet-level module's names, through its public Fault::name
    let f = pk::Fault { code, block: false, class: String::new(), why: String::new() };
    f.name().trim_end_matches(':').to_string()
}

/// stable kind of a structural reason: the text in front of the first number
fn structural_kind(s: &str) -> String {
    let cut = s.find(|c: char| c.is_ascii_digit()).unwrap_or(s.len());
    let head = s[..cut].trim().trim_end_matches(':').trim();
    let head = if head.is_empty() { s.trim() } else { head };
    head.split_whitespace().collect::<Vec<_>>().join("-")
}

/// (clause, fault, detail) of the findings single corruptions produce: a pair's
/// finding is attributed to the fault that already shows it on its own.
type Owners = BTreeSet<(String, String, String)>;

/// Which of several candidate faults names the signature.  Single corruption
/// (`owners` = None): the fault on the attribute the corruption was aimed at,
/// else the first (sorted).  Pair: the fault that produces the same finding as a
/// single corruption; a finding that only the combination shows names all.
fn pick(faults: &[String], target: &str, clause: &str, detail: &str, owners: Option<&Owners>) -> String {
    if faults.is_empty() {
        return "valid-update".into();
    }
    if faults.len() == 1 {
        return faults[0].clone();
    }
    match owners {
        None => {
            let pre = format!("{target}:");
            faults.iter().find(|f| f.starts_with(&pre)).unwrap_or(&faults[0]).clone()
        }
        Some(o) => match faults.iter().find(|n| o.contains(&(clause.to_string(), (*n).clone(), detail.to_string()))) {
            Some(n) => n.clone(),
            None => faults.join("+"),
        },
    }
}

fn target_of(name: &str) -> &str {
    // name = "<base>;as=<w>;<target>:<corruption id>"
    name.rsplit(';').next().and_then(|c| c.split(':').next()).unwrap_or("")
}

fn e2e_signature(f: &pk::Finding, fault: &str) -> String {
    match f.clause {
        "faulty-attr-believed" => {
            if f.detail.is_empty() {
                format!("C05/e2e/faulty-route-installed/{fault}")
            } else {
                format!("C05/e2e/faulty-route-installed/{fault}({})", f.detail)
            }
        }
        "not-treated-as-withdraw" if f.detail == "silently-ignored" => format!("C05/e2e/previous-route-not-withdrawn/{fault}"),
        "not-treated-as-withdraw" => format!("C05/e2e/faulty-route-installed/{fault}"),
        "missing-mandatory-accepted" => format!("C05/e2e/faulty-route-installed/{}:missing", f.detail),
        "withdrawal-lost" => format!("C05/e2e/withdrawal-not-applied/{}:{fault}", f.detail),
        "needless-reset" => format!("C05/e2e/needless-reset/{fault}"),
        "ibgp-only-attr-believed" => format!("C05/e2e/ibgp-only-attr-installed/{}", f.detail),
        "panic" => format!("C05/e2e/panic/{}", f.detail),
        other => format!("C05/e2e/{other}/{fault}"),
    }
}

/// Prefixes (trailing bits cleared) that the frame encodes with NON-ZERO trailing
/// bits in one of its NLRI fields (Withdrawn Routes, NLRI, MP_REACH_NLRI,
/// MP_UNREACH_NLRI).  RFC 4271 4.3: "the value of trailing bits is irrelevant".
/// Only used to name the root cause of a lost withdrawal (signature shape
/// `nlri:trailing-bits`), never to decide whether there is a violation.
fn trailing_bit_prefixes(frame: &[u8]) -> BTreeSet<Pfx> {
    let mut out = BTreeSet::new();
    fn scan(afi: u16, b: &[u8], out: &mut BTreeSet<Pfx>) {
        let max = if afi == 1 { 4 } else { 16 };
        let mut p = 0usize;
        while p < b.len() {
            let l = b[p] as usize;
            let n = l.div_ceil(8);
            if n > max || p + 1 + n > b.len() {
                return;
            }
            let rem = l % 8;
            if rem != 0 {
                let last = b[p + n];
                let keep = 0xffu8 << (8 - rem);
                if last & !keep != 0 {
                    let mut addr = [0u8; 16];
                    addr[..n].copy_from_slice(&b[p + 1..p + 1 + n]);
                    addr[n - 1] &= keep;
                    out.insert(Pfx { afi, safi: 1, len: l as u8, addr });
                }
            }
            p += 1 + n;
        }
    }
    if frame.len() < 23 {
        return out;
    }
    let body = &frame[19..];
    let wlen = u16::from_be_bytes([body[0], body[1]]) as usize;
    if 4 + wlen > body.len() {
        return out;
    }
    scan(1, &body[2..2 + wlen], &mut out);
    let tal = u16::from_be_bytes([body[2 + wlen], body[3 + wlen]]) as usize;
    if 4 + wlen + tal > body.len() {
        return out;
    }
    scan(1, &body[4 + wlen + tal..], &mut out);
    let block = &body[4 + wlen..4 + wlen + tal];
    let mut p = 0usize;
    while p + 3 <= block.len() {
        let ext = block[p] & 0x10 != 0;
        if ext && p + 4 > block.len() {
            break;
        }
        let (hdr, alen) = if ext { (4, u16::from_be_bytes([block[p + 2], block[p + 3]]) as usize) } else { (3, block[p + 2] as usize) };
        if p + hdr + alen > block.len() {
            break;
        }
        let v = &block[p + hdr..p + hdr + alen];
        match block[p + 1] {
            14 if v.len() >= 5 && v[2] == 1 => {
                let nhl = v[3] as usize;
                if 5 + nhl <= v.len() {
                    scan(u16::from_be_bytes([v[0], v[1]]), &v[5 + nhl..], &mut out);
                }
            }
            15 if v.len() >= 3 && v[2] == 1 => scan(u16::from_be_bytes([v[0], v[1]]), &v[3..], &mut out),
            _ => {}
        }
        p += hdr + alen;
    }
    out
}

struct Verdict {
    sig: String,
    what: String,
    /// (clause, fault, detail): what a single corruption "owns" (see `Owners`)
    key: (String, String, String),
}

/// The verdicts of one replayed case.
fn verdicts(name: &str, bytes: &[u8], role: Role, exp: &Expect, o: &Outcome, owners: Option<&Owners>) -> Vec<Verdict> {
    let target = target_of(name);
    let obs = to_obs(o);
    let mut out: Vec<Verdict> = Vec::new();
    // prefixes of the UPDATE whose previous route is still installed although the session is up
    let stuck: Vec<&Pfx> = o.pre.iter().filter(|p| (exp.announced.contains(p) || exp.withdrawn.contains(p)) && o.routes.iter().any(|r| r.pfx == **p && r.marker)).collect();
    let trailing = trailing_bit_prefixes(bytes);
    let stuck_by_trailing_bits = o.up && !stuck.is_empty() && stuck.iter().all(|p| trailing.contains(*p));
    for mut f in pk::judge(exp, role, &obs) {
        if stuck_by_trailing_bits && (f.clause == "withdrawal-lost" || (f.clause == "not-treated-as-withdraw" && f.detail == "silently-ignored")) {
            // distinct root cause: the prefix is on the wire with non-zero trailing bits and the
            // receiver takes it for a different prefix than the one installed
            f.faults = vec!["nlri:trailing-bits".into()];
            f.what = format!("{} [every prefix left behind is encoded with non-zero trailing bits, which RFC 4271 4.3 calls irrelevant: {}]", f.what, stuck.iter().map(|p| p.show()).collect::<Vec<_>>().join(" "));
        }
        let fault = pick(&f.faults, target, f.clause, &f.detail, owners);
        out.push(Verdict { sig: e2e_signature(&f, &fault), what: format!("{} -- end to end: {}", f.what, show_outcome(o)), key: (f.clause.to_string(), fault, f.detail.clone()) });
    }
    if !o.up && o.panicked.is_none() {
        let names = fault_names(exp);
        // a reset, allowed or not: it must be announced by a NOTIFICATION and take the peer's routes along
        if o.notif.is_none() && !o.notif_counted {
            let fault = pick(&names, target, "reset-without-notification", "", owners);
            out.push(Verdict {
                sig: format!("C05/e2e/reset-without-notification/{fault}"),
                what: format!("the session ended after the UPDATE but no NOTIFICATION was sent -- {}", show_outcome(o)),
                key: ("reset-without-notification".into(), fault, String::new()),
            });
        }
        if !o.routes.is_empty() {
            let fault = pick(&names, target, "routes-kept-after-reset", "", owners);
            out.push(Verdict {
                sig: format!("C05/e2e/routes-kept-after-reset/{fault}"),
                what: format!("the session was reset (no graceful restart negotiated) but routes of the peer are still installed -- {}", show_outcome(o)),
                key: ("routes-kept-after-reset".into(), fault, String::new()),
            });
        }
    }
    out.sort_by(|a, b| a.sig.cmp(&b.sig));
    out.dedup_by(|a, b| a.sig == b.sig);
    out
}

fn case_string(name: &str, role: Role, two_byte: bool, bytes: &[u8]) -> String {
    format!("role={}#as={}#name={}#bytes={}", role.name(), if two_byte { 2 } else { 4 }, name, hex(bytes))
}

fn field<'a>(case: &'a str, key: &str) -> Option<&'a str> {
    case.split('#').find_map(|kv| kv.strip_prefix(key).and_then(|r| r.strip_prefix('=')))
}

thread_local! { static RT: tokio::runtime::Runtime = runtime(); }

/// thorough tier: (base, 2-octet AS, role) for which pairs of representative corruptions are replayed
const PAIR_SETS: [(&str, bool, Role); 4] = [("mixed/asc", false, Role::Ebgp), ("mixed/asc", false, Role::Ibgp), ("mixed/desc", true, Role::RsClient), ("legacy/asc", true, Role::ConfedEbgp)];

fn run_one(name: &str, bytes: &[u8], two_byte: bool, role: Role, exp: &Expect, owners: Option<&Owners>) -> Result<(Outcome, Vec<Verdict>), String> {
    let o = RT.with(|rt| rt.block_on(drive(bytes, two_byte, role, exp)))?;
    let want = match role {
        Role::Ebgp => "Ebgp",
        Role::RsClient => "RsClient",
        Role::Ibgp => "Ibgp",
        Role::ConfedEbgp => "ConfedEbgp",
    };
    if o.daemon_role != want {
        return Err(format!("the neighbour configuration yields role {} in the daemon, the case wants {}", o.daemon_role, want));
    }
    let v = verdicts(name, bytes, role, exp, &o, owners);
    Ok((o, v))
}

fn fnv(bytes: &[u8], two_byte: bool, role: Role) -> u64 {
    let mut h: u64 = 0xcbf29ce484222325 ^ two_byte as u64 ^ ((role as u64) << 8);
    for b in bytes {
        h ^= *b as u64;
        h = h.wrapping_mul(0x100000001b3);
    }
    h
}

fn shape_of(name: &str) -> &str {
    name.split('/').next().unwrap_or("")
}

/// quick tier: a covering subset of the single-corruption corpus -- every valid
/// base, every single corruption of the base mixed/asc with 4-octet AS (all roles),
/// and greedily every case that is the first witness of
/// (fault, role), (fault, base shape), (fault, AS width) or
/// (reference class, base shape, role, AS width), where fault = "<attr>:<class>" as the
/// reference classifies the final bytes (incl. missing / duplicate / structural kinds), or of
/// (a prefix of the UPDATE encoded with non-zero trailing bits, reference class, role, AS width).
fn covering_subset(all: Vec<pk::Case>) -> Vec<pk::Case> {
    let mut seen: BTreeSet<String> = BTreeSet::new();
    let mut out = Vec::new();
    for c in all {
        let shape = shape_of(&c.name).to_string();
        let w = if c.two_byte_as { 2 } else { 4 };
        let mut keys = vec![format!("class {} {} {} {}", c.expected.class(), shape, c.role.name(), w)];
        for n in fault_names(&c.expected) {
            keys.push(format!("fr {n} {}", c.role.name()));
            keys.push(format!("fs {n} {shape}"));
            keys.push(format!("fw {n} {w}"));
        }
        // NLRI encoded with non-zero trailing bits among the prefixes of the UPDATE
        let tb = trailing_bit_prefixes(&c.bytes);
        if c.expected.announced.iter().chain(c.expected.withdrawn.iter()).any(|p| tb.contains(p)) {
            keys.push(format!("trailing-bits {} {} {}", c.expected.class(), c.role.name(), w));
        }
        let valid_base = c.name.ends_with(";none");
        let mut fresh = false;
        for k in keys {
            fresh |= seen.insert(k);
        }
        if fresh || valid_base || c.name.starts_with("mixed/asc;as=4;") {
            out.push(c);
        }
    }
    out
}

pub(crate) fn run(replay: Option<&str>) -> Report {
    let mut rep = Report::new("C05", "hd-c05");
    if let Some(case) = replay {
        return run_replay(rep, case);
    }
    let thorough = rep.thorough();
    let all = pk::corpus(false);
    let n_all = all.len();
    let cases = if thorough { all } else { covering_subset(all) };
    let n = cases.len();
    let distinct: std::sync::Mutex<BTreeSet<u64>> = std::sync::Mutex::new(BTreeSet::new());
    let outcomes: std::sync::Mutex<BTreeMap<String, u64>> = std::sync::Mutex::new(BTreeMap::new());
    let stop = std::sync::atomic::AtomicBool::new(false);
    let trace = std::env::var("VERIF_C05E2E_TRACE").ok();
    let samples: std::sync::Mutex<BTreeSet<String>> = std::sync::Mutex::new(BTreeSet::new());
    let found: std::sync::Mutex<BTreeMap<String, (Violation, u64)>> = std::sync::Mutex::new(BTreeMap::new());
    let owners: std::sync::Mutex<Owners> = std::sync::Mutex::new(BTreeSet::new());
    let eval = |c: &pk::Case, i: u64, local: &mut Report, pair_owners: Option<&Owners>| {
        if stop.load(Ordering::Relaxed) {
            return;
        }
        match run_one(&c.name, &c.bytes, c.two_byte_as, c.role, &c.expected, pair_owners) {
            Err(e) => {
                stop.store(true, Ordering::Relaxed);
                local.machinery_error = Some(format!("{e} [case {}]", case_string(&c.name, c.role, c.two_byte_as, &c.bytes)));
            }
            Ok((o, vs)) => {
                local.evaluations += 1;
                local.traces_validated += 1;
                if c.expected.nontrivial() {
                    distinct.lock().unwrap().insert(fnv(&c.bytes, c.two_byte_as, c.role));
                }
                let obs = to_obs(&o);
                let key = format!("ref={} e2e={}", c.expected.class(), if o.up { obs.class() } else if o.panicked.is_some() { "panic" } else { "reset" });
                if trace.as_deref() == Some(key.as_str()) {
                    // reading aid: VERIF_C05E2E_TRACE='ref=hard e2e=nothing' lists the cases of one outcome class
                    eprintln!("trace {key}: {} => {}", case_string(&c.name, c.role, c.two_byte_as, &c.bytes), show_outcome(&o));
                }
                *outcomes.lock().unwrap().entry(key).or_insert(0) += 1;
                // non-vacuity: a valid base must be installed completely (new attributes) and its withdrawals applied
                if c.name.ends_with(";none") {
                    let ok = o.up
                        && c.expected.announced.iter().all(|p| o.routes.iter().any(|r| r.pfx == *p && !r.marker))
                        && c.expected.withdrawn.iter().all(|p| !o.routes.iter().any(|r| r.pfx == *p))
                        && !c.expected.announced.is_empty();
                    if !ok {
                        stop.store(true, Ordering::Relaxed);
                        local.machinery_error = Some(format!("self-check: the valid base {} (role {}) is not delivered completely end to end: {}", c.name, c.role.name(), show_outcome(&o)));
                    }
                }
                // deterministic samples and witnesses whatever the thread interleaving
                if i % 997 == 0 {
                    samples.lock().unwrap().insert(format!("{} role {} -> ref {} / {}", c.name, c.role.name(), c.expected.class(), show_outcome(&o)));
                }
                for Verdict { sig, what, key } in vs {
                    if pair_owners.is_none() {
                        owners.lock().unwrap().insert(key);
                    }
                    let case = case_string(&c.name, c.role, c.two_byte_as, &c.bytes);
                    let mut g = found.lock().unwrap();
                    match g.get_mut(&sig) {
                        Some((v, n)) => {
                            *n += 1;
                            if (case.len(), &case) < (v.case.len(), &v.case) {
                                *v = Violation { sig, what, case };
                            }
                        }
                        None => {
                            g.insert(sig.clone(), (Violation { sig, what, case }, 1));
                        }
                    }
                }
            }
        }
    };
    enumr::par_range(n as u64, &mut rep, |i, local| eval(&cases[i as usize], i, local, None));

    // ---- thorough: pairs of corruptions, one representative per reference classification -------
    let mut n_pairs = 0usize;
    let mut n_pairs_skipped = 0u64;
    if thorough && rep.machinery_error.is_none() {
        let mut pair_cases: Vec<pk::Case> = Vec::new();
        for (base, two_byte, role) in PAIR_SETS {
            // one corruption id per distinct reference outcome (class + fault names) of this base / AS width / role
            let prefix = format!("{base};as={};", if two_byte { 2 } else { 4 });
            let mut seen: BTreeSet<String> = BTreeSet::new();
            let mut reps: Vec<String> = Vec::new();
            for c in cases.iter().filter(|c| c.role == role && c.name.starts_with(&prefix) && !c.name.ends_with(";none")) {
                if seen.insert(format!("{} {:?}", c.expected.class(), fault_names(&c.expected))) {
                    reps.push(c.name[prefix.len()..].to_string());
                }
            }
            let mut ids: Vec<(String, String)> = Vec::new();
            for a in 0..reps.len() {
                for b in a + 1..reps.len() {
                    ids.push((reps[a].clone(), reps[b].clone()));
                }
            }
            n_pairs += ids.len();
            // None: both on the same attribute, or the two do not compose
            let built: Vec<pk::Case> = pk::corpus_pairs(base, two_byte, role, &ids).into_iter().flatten().collect();
            n_pairs_skipped += (ids.len() - built.len()) as u64;
            rep.notes.push(format!(
                "c05-e2e pairs: base {base} AS width {} role {}: {} representative corruptions (one per distinct reference class + fault set), {} pairs, {} replayed",
                if two_byte { 2 } else { 4 },
                role.name(),
                reps.len(),
                ids.len(),
                built.len()
            ));
            pair_cases.extend(built);
        }
        let single_owners: Owners = owners.lock().unwrap().clone();
        enumr::par_range(pair_cases.len() as u64, &mut rep, |i, local| eval(&pair_cases[i as usize], i, local, Some(&single_owners)));
    }
    if rep.machinery_error.is_none() {
        rep.machinery_error = take_machinery();
    }
    rep.distinct_nontrivial = distinct.lock().unwrap().len() as u64;
    rep.violations = found.into_inner().unwrap();
    rep.samples = samples.into_inner().unwrap().into_iter().take(12).collect();
    for (k, v) in outcomes.into_inner().unwrap() {
        rep.add(&format!("outcome {k}"), v);
    }
    rep.exhaustive = rep.machinery_error.is_none();
    rep.rule = format!(
        "end-to-end replay of the packet-level C05 corpus (valid UPDATE frames: shapes legacy reach+withdraw / MP_REACH+MP_UNREACH v6 / both, ascending and descending attribute order, 2- and 4-octet AS, every attribute kind, x every single entry of the corruption menu, x roles Ebgp/RsClient/Ibgp/ConfedEbgp = {n_all} cases): {}. Each case = own daemon instance, live passive session over loopback (real accept_connection + PeerSession::run), pre-install of every announced/withdrawn prefix with marker attributes, the case's bytes, KEEPALIVE barrier, Adj-RIB-In via TableManager::collect_paths. distinct non-trivial = distinct (frame bytes, AS width, role) in which the independent RFC 7606 reference receiver finds at least one fault",
        if thorough { format!("all {n} replayed, plus all pairs of representative corruptions (one per distinct reference class + fault set) on 4 base/AS width/role combinations") } else { format!("covering subset of {n} (every valid base; every single corruption of base mixed/asc with 4-octet AS; first witness of every (fault,role), (fault,shape), (fault,AS width), (reference class,shape,role,AS width))") }
    );
    rep.notes.push(format!("c05-e2e: {n} of {n_all} single-corruption corpus cases replayed through a live session each; traces_validated counts every replayed case"));
    if thorough {
        rep.notes.push(format!("c05-e2e pairs: {n_pairs} pairs of representative corruptions, {n_pairs_skipped} of them on the same attribute / not composable (skipped), the rest replayed"));
    }
    rep.notes.push("assume: loopback TCP delivers in order; quiescence by a KEEPALIVE barrier on the session's receive counter and by completion of the session task, never by sleeping; time-outs are machinery errors".into());
    rep.notes.push("assume: 'route installed' is read from the peer's Adj-RIB-In (pre-policy attributes, filtered paths included); the next hop is not visible there, so a faulty NEXT_HOP / MP next hop counts as believed when any route that needs it is installed".into());
    rep.notes.push("assume: neighbour without graceful restart, no import policy, no prefix limit, no add-path; IbgpRrClient not replayed (same receive path as Ibgp)".into());
    rep
}

/// case = "role=<Role>#as=<2|4>#name=<corpus name>#bytes=<hex>" (`bytes` is authoritative; without it the
/// corpus case of that name -- "<base>;as=<w>;<id>" or "<base>;as=<w>;<id_a>,<id_b>" -- is regenerated;
/// role=* replays all roles)
fn run_replay(mut rep: Report, case: &str) -> Report {
    let two_byte = field(case, "as") == Some("2");
    let roles: Vec<Role> = match field(case, "role").and_then(Role::parse) {
        Some(r) => vec![r],
        None => pk::ROLES.to_vec(),
    };
    let name = field(case, "name").unwrap_or("?;as=?;?");
    let bytes = match field(case, "bytes") {
        Some(h) => unhex(h),
        None => {
            // no bytes: regenerate a corpus case (single or pair) from its name
            let mut parts = name.splitn(3, ';');
            let (base, ids) = (parts.next().unwrap_or(""), parts.nth(1).unwrap_or(""));
            let regenerated = match ids.split_once(',') {
                Some((a, b)) => pk::corpus_pair(base, two_byte, roles[0], a, b).map(|c| c.bytes),
                None => pk::corpus(false).into_iter().find(|c| c.name == name).map(|c| c.bytes),
            };
            match regenerated {
                Some(b) => b,
                None => {
                    rep.machinery_error = Some("replay: the case has no bytes= field and its name is not a corpus case".into());
                    return rep;
                }
            }
        }
    };
    eprintln!("c05-e2e replay: {} bytes, AS width {}, case {}", bytes.len(), if two_byte { 2 } else { 4 }, name);
    // a pair: its findings are attributed through the findings of the two single corruptions
    let ids = name.rsplit(';').next().unwrap_or("");
    let pair_prefix = if ids.contains(',') { Some(&name[..name.len() - ids.len()]) } else { None };
    let singles: Vec<pk::Case> = match pair_prefix {
        Some(pre) => {
            let wanted: Vec<String> = ids.split(',').map(|id| format!("{pre}{id}")).collect();
            pk::corpus(false).into_iter().filter(|c| wanted.contains(&c.name)).collect()
        }
        None => Vec::new(),
    };
    for role in roles {
        let mut owners: Owners = BTreeSet::new();
        for c in singles.iter().filter(|c| c.role == role) {
            match run_one(&c.name, &c.bytes, c.two_byte_as, c.role, &c.expected, None) {
                Ok((_, vs)) => {
                    for v in vs {
                        eprintln!("  single corruption {} alone: {}", c.name, v.sig);
                        owners.insert(v.key);
                    }
                }
                Err(e) => {
                    rep.machinery_error = Some(e);
                    return rep;
                }
            }
        }
        let owners = if pair_prefix.is_some() { Some(&owners) } else { None };
        let exp = pk::reference(&bytes, two_byte, role);
        eprintln!("c05-e2e replay: role {}", role.name());
        eprintln!("  reference: class={} reset_ok={} relaxed={} must_withdraw={} faults={:?}", exp.class(), exp.reset_ok, exp.relaxed, exp.must_withdraw, fault_names(&exp));
        eprintln!("    announced: {}", exp.announced.iter().map(|p| p.show()).collect::<Vec<_>>().join(" "));
        eprintln!("    withdrawn: {}", exp.withdrawn.iter().map(|p| p.show()).collect::<Vec<_>>().join(" "));
        match run_one(name, &bytes, two_byte, role, &exp, owners) {
            Err(e) => {
                rep.machinery_error = Some(e);
                return rep;
            }
            Ok((o, vs)) => {
                rep.evaluations += 1;
                rep.traces_validated += 1;
                eprintln!("  observed: {}", show_outcome(&o));
                eprintln!("  as packet-level observation: {}", to_obs(&o).show());
                if vs.is_empty() {
                    eprintln!("  no violation");
                }
                for Verdict { sig, what, .. } in vs {
                    eprintln!("  VIOLATION {sig}: {what}");
                    rep.violation(Violation { sig, what, case: case_string(name, role, two_byte, &bytes) });
                }
            }
        }
    }
    rep.rule = "replay of one case".into();
    rep.distinct_nontrivial = 1;
    rep.machinery_error = rep.machinery_error.or(take_machinery());
    rep
}
