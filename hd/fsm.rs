// C07 / C08 harness: lives inside crate::fsm (child module), so the private
// fields of `Connection` and `PeerFsm` are readable.
//
// C07: explicit-state BFS to fixpoint over the real `PeerFsm::process`, one
//      model per configuration (local hold time, expected remote AS, ordering
//      of local/remote BGP identifier); oracle = reference transition
//      function written from the property statement + state invariant.
// C08: see the second half of this file.

use super::*;
use crate::verif::vx::bfs::{self, BfsCfg, Model};
use crate::verif::vx::report::{Report, Violation};
use rustybgp_packet::Notification;

const LOCAL_ID: u32 = 10;
const LOCAL_AS: u32 = 65000;
const PEER_AS: u32 = 65001;

#[derive(Clone, Debug)]
enum In {
    Connected,
    Open { asn: u32, hold: u16, gr: bool },
    Keepalive,
    Update,
    Notification,
    RouteRefresh,
    KeepaliveTimer,
    HoldTimer,
    Disconnected,
    AdminShutdown,
    UpdateSent,
}

struct FsmModel {
    name: String,
    local_hold: u64,
    expected_asn: u32,
    remote_id: u32,
    ops: Vec<(Role, In)>,
}

fn inputs() -> Vec<In> {
    let mut v = vec![In::Connected];
    for asn in [PEER_AS, 65002] {
        for hold in [0u16, 3, 90] {
            v.push(In::Open { asn, hold, gr: false });
        }
    }
    v.push(In::Open { asn: PEER_AS, hold: 90, gr: true });
    v.extend([
        In::Keepalive,
        In::Update,
        In::Notification,
        In::RouteRefresh,
        In::KeepaliveTimer,
        In::HoldTimer,
        In::Disconnected,
        In::AdminShutdown,
        In::UpdateSent,
    ]);
    v
}

fn role_name(r: Role) -> &'static str {
    match r {
        Role::Active => "act",
        Role::Passive => "pas",
    }
}

fn in_name(i: &In) -> String {
    match i {
        In::Open { asn, hold, gr } => format!("OPEN(as{},hold{}{})", asn, hold, if *gr { ",gr" } else { "" }),
        o => format!("{:?}", o),
    }
}

impl FsmModel {
    fn to_input(&self, i: &In) -> Input {
        match i {
            In::Connected => Input::Connected(false),
            In::Open { asn, hold, gr } => {
                let mut capability = vec![Capability::MultiProtocol(Family::IPV4), Capability::FourOctetAsNumber(*asn)];
                if *gr {
                    capability.push(Capability::GracefulRestart { flags: 0, restart_time: 120, families: vec![(Family::IPV4, 0x80)] });
                }
                Input::MessageReceived(bgp::Message::Open(bgp::Open {
                    as_number: *asn,
                    holdtime: HoldTime::new(*hold).unwrap(),
                    router_id: self.remote_id,
                    capability,
                }))
            }
            In::Keepalive => Input::MessageReceived(bgp::Message::Keepalive),
            In::Update => Input::MessageReceived(bgp::Message::eor(Family::IPV4)),
            In::Notification => Input::MessageReceived(bgp::Message::Notification(Notification::CeaseAdminShutdown)),
            In::RouteRefresh => Input::MessageReceived(bgp::Message::RouteRefresh { family: Family::IPV4 }),
            In::KeepaliveTimer => Input::KeepaliveTimerExpired,
            In::HoldTimer => Input::HoldTimerExpired,
            In::Disconnected => Input::Disconnected,
            In::AdminShutdown => Input::AdminShutdown,
            In::UpdateSent => Input::UpdateSent,
        }
    }
}

/// Both readings of "carrying that state": the implementation's state number
/// or the RFC 6608 sub-code.
fn fsm_err_codes(s: State) -> Vec<u8> {
    let rfc = match s {
        State::OpenSent => 1,
        State::OpenConfirm => 2,
        State::Established => 3,
        _ => 0,
    };
    vec![u8::from(s), rfc]
}

fn in_oc_est(s: State) -> bool {
    matches!(s, State::OpenConfirm | State::Established)
}

struct Obs {
    down: Option<(SessionDownReason, Option<bgp::Message>)>,
    state_changes: Vec<State>,
    established: bool,
    close_connection: bool,
    sent_open: bool,
    /// SendMessage(cease collision) addressed to the *other* role
    cease_to_other: bool,
    own_collision_down: bool,
}

fn observe(role: Role, outs: &[PeerFsmOutput]) -> Obs {
    let mut o = Obs { down: None, state_changes: vec![], established: false, close_connection: false, sent_open: false, cease_to_other: false, own_collision_down: false };
    for x in outs {
        match x {
            PeerFsmOutput::CloseConnection => o.close_connection = true,
            PeerFsmOutput::StopActiveConnect => {}
            PeerFsmOutput::Connection(r, out) => match out {
                Output::SessionDown(reason, msg) if *r == role => {
                    if let SessionDownReason::LocalNotification(bgp::Message::Notification(Notification::CeaseConnectionCollision)) = reason {
                        o.own_collision_down = true;
                    }
                    if o.down.is_none() {
                        o.down = Some((reason.clone(), msg.clone()));
                    }
                }
                Output::StateChanged(s) if *r == role => o.state_changes.push(*s),
                Output::SessionEstablished { .. } if *r == role => o.established = true,
                Output::SendMessage(bgp::Message::Open(_)) if *r == role => o.sent_open = true,
                Output::SendMessage(bgp::Message::Notification(Notification::CeaseConnectionCollision)) if *r != role => o.cease_to_other = true,
                _ => {}
            },
        }
    }
    o
}

impl Model for FsmModel {
    type Sys = PeerFsm;
    fn name(&self) -> String {
        self.name.clone()
    }
    fn n_ops(&self) -> usize {
        self.ops.len()
    }
    fn op_name(&self, op: usize) -> String {
        format!("{}:{}", role_name(self.ops[op].0), in_name(&self.ops[op].1))
    }
    fn init(&self) -> PeerFsm {
        PeerFsm::new(
            LOCAL_ID,
            LOCAL_AS,
            vec![Capability::MultiProtocol(Family::IPV4), Capability::FourOctetAsNumber(LOCAL_AS)],
            self.local_hold,
            self.expected_asn,
            FnvHashMap::default(),
        )
    }

    fn step(&self, fsm: &mut PeerFsm, op: usize, out: &mut Vec<(String, String)>) -> bool {
        let (role, ref input) = self.ops[op];
        let other = role.other();
        let pre = fsm.state(role);
        let pre_other = fsm.state(other);
        let had_conn = fsm.connection(role).is_some();
        let outs = fsm.process(role, self.to_input(input));
        let post = fsm.state(role);
        let post_other = fsm.state(other);
        let o = observe(role, &outs);
        let ctx = format!("{} in {:?} (other {:?}) on {}", role_name(role), pre, pre_other, in_name(input));
        let mut bad = |sig: &str, what: String| out.push((format!("C07/{sig}"), format!("{ctx}: {what}")));

        // ---- state invariant: at most one connection in OpenConfirm-or-Established
        if in_oc_est(post) && in_oc_est(post_other) {
            bad("two-survivors", format!("both connections are in OpenConfirm/Established afterwards ({:?}, {:?})", post, post_other));
        }

        // ---- reference transition function (from the statement)
        let acceptable_open = matches!(input, In::Open { asn, .. } if self.expected_asn == 0 || *asn == self.expected_asn);
        let is_msg = matches!(input, In::Open { .. } | In::Keepalive | In::Update | In::Notification | In::RouteRefresh);
        // expected own post state, None = "torn down to Idle"
        #[derive(PartialEq, Debug)]
        enum Exp {
            Stay,
            To(State),
            Down,
        }
        let exp = if !had_conn {
            match input {
                In::Connected => Exp::To(State::OpenSent),
                _ => Exp::Stay,
            }
        } else {
            match (pre, input) {
                (_, In::Connected) => Exp::Stay, // slot busy: rejected with CloseConnection
                (_, In::Notification) | (_, In::Disconnected) | (_, In::AdminShutdown) => Exp::Down,
                (State::OpenSent | State::OpenConfirm | State::Established, In::HoldTimer) => Exp::Down,
                (State::OpenSent, In::Open { .. }) => {
                    if acceptable_open {
                        Exp::To(State::OpenConfirm)
                    } else {
                        Exp::Down
                    }
                }
                (State::OpenConfirm, In::Keepalive) => Exp::To(State::Established),
                (State::Established, In::Keepalive | In::Update | In::RouteRefresh) => Exp::Stay,
                (_, In::KeepaliveTimer | In::UpdateSent | In::HoldTimer) => Exp::Stay,
                (_, _) if is_msg => Exp::Down, // message not allowed in this state
                _ => Exp::Stay,
            }
        };

        // collision outcome when this connection enters OpenConfirm
        let mut exp_own = exp;
        let mut exp_other_cleared = false;
        if exp_own == Exp::To(State::OpenConfirm) && in_oc_est(pre_other) {
            if pre_other == State::Established {
                exp_own = Exp::Down; // Established always survives the newcomer
            } else if LOCAL_ID != self.remote_id {
                // survivor = connection initiated by the speaker with the higher identifier
                let survivor = if LOCAL_ID > self.remote_id { Role::Active } else { Role::Passive };
                if survivor == role {
                    exp_other_cleared = true;
                } else {
                    exp_own = Exp::Down;
                }
            } else {
                // equal identifiers: the statement does not define the survivor; exactly one must go
                if post == State::Idle {
                    exp_own = Exp::Down;
                } else {
                    exp_other_cleared = true;
                }
            }
            // the loser is sent Cease/collision
            if exp_own == Exp::Down && !o.own_collision_down {
                bad("collision-no-cease", "this connection lost the collision but no SessionDown carrying Cease/connection-collision was emitted for it".into());
            }
            if exp_other_cleared && !o.cease_to_other {
                bad("collision-no-cease", "the other connection lost the collision but no Cease/connection-collision was addressed to it".into());
            }
        }

        match &exp_own {
            Exp::Stay => {
                if post != pre {
                    bad(&format!("unexpected-transition/{:?}->{:?}", pre, post), format!("state changed to {:?} although the input should leave the connection where it is", post));
                }
                if matches!(input, In::Connected) && had_conn && !o.close_connection {
                    bad("busy-slot-not-refused", "a second connection of the same role was not refused".into());
                }
            }
            Exp::To(s) => {
                if post != *s {
                    bad(&format!("wrong-transition/{:?}->{:?}", pre, post), format!("expected {:?}, got {:?}", s, post));
                }
                if *s == State::OpenSent && !o.sent_open {
                    bad("no-open-sent", "connection accepted but no OPEN was sent".into());
                }
                if *s == State::Established && !o.established {
                    bad("no-established-output", "state is Established but SessionEstablished was not reported".into());
                }
            }
            Exp::Down => {
                if post != State::Idle || fsm.connection(role).is_some() {
                    bad(&format!("slot-not-freed/{:?}", pre), format!("the connection should have been torn down and its slot freed, but state is {:?}", post));
                }
                match &o.down {
                    None => bad(&format!("no-session-down/{:?}", pre), "no SessionDown was emitted".into()),
                    Some((reason, msg)) => {
                        let unexpected_msg = is_msg && !matches!(input, In::Notification) && !(pre == State::OpenSent && matches!(input, In::Open { .. })) && !o.own_collision_down;
                        if unexpected_msg {
                            // must be an FSM error carrying the state
                            let ok = match (reason, msg) {
                                (SessionDownReason::LocalNotification(bgp::Message::Notification(Notification::FsmUnexpectedState { state })), Some(bgp::Message::Notification(Notification::FsmUnexpectedState { state: s2 }))) => {
                                    state == s2 && fsm_err_codes(pre).contains(state)
                                }
                                _ => false,
                            };
                            if !ok {
                                bad(&format!("fsm-error-notification/{:?}", pre), "a message not allowed in this state must be answered with an FSM-error NOTIFICATION carrying the state".into());
                            }
                        }
                        if matches!(input, In::HoldTimer) && !matches!(reason, SessionDownReason::HoldTimerExpired) {
                            bad("hold-expiry-reason", "hold-timer expiry must be reported as such".into());
                        }
                    }
                }
                // receipt of NOTIFICATION / hold expiry / disconnect / admin shutdown: Idle reported
                if matches!(input, In::Notification | In::HoldTimer | In::Disconnected | In::AdminShutdown) && !o.state_changes.contains(&State::Idle) {
                    bad("no-idle-report", "the connection went down but StateChanged(Idle) was not emitted".into());
                }
            }
        }
        if exp_other_cleared {
            if post_other != State::Idle || fsm.connection(other).is_some() {
                bad("collision-loser-kept", format!("the other connection lost the collision but is still in {:?}", post_other));
            }
        } else if post_other != pre_other {
            bad("other-connection-disturbed", format!("the other connection moved {:?} -> {:?}", pre_other, post_other));
        }
        // Established only from OpenConfirm on KEEPALIVE; OpenConfirm only from OpenSent on an acceptable OPEN
        if post == State::Established && pre != State::Established && !(pre == State::OpenConfirm && matches!(input, In::Keepalive)) {
            bad("established-shortcut", "Established entered other than from OpenConfirm on KEEPALIVE".into());
        }
        if post == State::OpenConfirm && pre != State::OpenConfirm && !(pre == State::OpenSent && acceptable_open) {
            bad("openconfirm-shortcut", "OpenConfirm entered other than from OpenSent on an acceptable OPEN".into());
        }
        true
    }

    fn fingerprint(&self, fsm: &PeerFsm) -> Vec<u8> {
        let mut s = String::new();
        for r in [Role::Active, Role::Passive] {
            match fsm.connection(r) {
                None => s.push_str("-;"),
                Some(c) => {
                    s.push_str(&format!(
                        "{:?},{},{},{},{},{},{},{:?};",
                        c.state, c.remote_asn, c.remote_id, c.remote_holdtime, c.negotiated_holdtime, c.keepalive_interval, c.remote_cap.len(), c.local_holdtime
                    ));
                }
            }
        }
        s.into_bytes()
    }

    fn observe(&self, fsm: &PeerFsm) -> u64 {
        (u8::from(fsm.state(Role::Active)) as u64) * 8 + u8::from(fsm.state(Role::Passive)) as u64
    }
}

fn c07_models() -> Vec<FsmModel> {
    let mut v = Vec::new();
    for local_hold in [90u64, 0] {
        for expected_asn in [PEER_AS, 0] {
            for (idn, remote_id) in [("lt", 5u32), ("eq", 10), ("gt", 20)] {
                let mut ops = Vec::new();
                for r in [Role::Active, Role::Passive] {
                    for i in inputs() {
                        ops.push((r, i));
                    }
                }
                v.push(FsmModel {
                    name: format!("c07-hold{}-as{}-rid{}", local_hold, if expected_asn == 0 { "any" } else { "set" }, idn),
                    local_hold,
                    expected_asn,
                    remote_id,
                    ops,
                });
            }
        }
    }
    v
}

/// OPENs the decoder itself must reject (invalid identifier / hold time / version):
/// enumerated as bytes through the real parser.
fn c07_decoder_rejects(rep: &mut Report) {
    let mk = |version: u8, asn: u16, hold: u16, id: u32| -> Vec<u8> {
        let mut b = vec![0xff; 16];
        b.extend_from_slice(&[0, 29, 1, version]);
        b.extend_from_slice(&asn.to_be_bytes());
        b.extend_from_slice(&hold.to_be_bytes());
        b.extend_from_slice(&id.to_be_bytes());
        b.push(0);
        b
    };
    let mut n = 0;
    for version in [3u8, 4, 5] {
        for hold in [0u16, 1, 2, 3, 90] {
            for id in [0u32, 1, 0x7f000001, 0xe0000001, 0xffffffff] {
                let bytes = mk(version, 65001, hold, id);
                let mut codec = bgp::PeerCodec::new();
                let r = crate::verif::vx::report::catch(|| codec.parse_message(&bytes));
                n += 1;
                let must_reject = version != 4 || hold == 1 || hold == 2 || id == 0;
                let case = format!("open-bytes#{}", crate::verif::vx::report::hex(&bytes));
                match r {
                    Err(p) => rep.violation(Violation { sig: "C07/open-parse-panic".into(), what: format!("parser panicked: {p}"), case }),
                    Ok(Ok(bgp::ParsedMessage::Open(_))) if must_reject => rep.violation(Violation {
                        sig: format!("C07/unacceptable-open-accepted/{}", if version != 4 { "version" } else if id == 0 { "identifier-zero" } else { "holdtime-1-2" }),
                        what: format!("OPEN with version {version}, hold time {hold}, identifier {id:#x} was accepted by the decoder"),
                        case,
                    }),
                    // multicast / broadcast identifiers: "valid identifier" may or may not exclude them
                    Ok(Err(_)) if !must_reject && id < 0xe0000000 => rep.violation(Violation {
                        sig: "C07/acceptable-open-rejected".into(),
                        what: format!("OPEN with version {version}, hold time {hold}, identifier {id:#x} was rejected"),
                        case,
                    }),
                    _ => {}
                }
            }
        }
    }
    rep.evaluations += n;
    rep.notes.push(format!("c07-open-bytes: {n} OPEN encodings (version × hold time × identifier) through PeerCodec::parse_message"));
}

/// Driver-level conformance: replay a model history against two REAL session tasks
/// (accept_connection + PeerSession::run for both roles over loopback) and compare the
/// ConnArbiter's FSM states and the NOTIFICATIONs seen on the wire with the model.
/// Histories containing inputs the harness cannot inject on demand (timer expiries,
/// update-sent) are not replayable and are skipped.
fn c07_driver_replay(m: &FsmModel, hist: &[u16]) -> Result<Option<Vec<(String, String)>>, String> {
    use crate::event::verif_event::common::*;
    use std::net::{IpAddr, Ipv4Addr};
    for &op in hist {
        if matches!(m.ops[op as usize].1, In::KeepaliveTimer | In::HoldTimer | In::UpdateSent) {
            return Ok(None);
        }
    }
    let rt = runtime();
    let daemon_id: u32 = u32::from(Ipv4Addr::new(10, 0, 0, 254));
    let remote_id = match m.remote_id.cmp(&LOCAL_ID) {
        std::cmp::Ordering::Less => daemon_id - 1,
        std::cmp::Ordering::Equal => daemon_id,
        std::cmp::Ordering::Greater => daemon_id + 1,
    };
    rt.block_on(async {
        let d = Daemon::new(1);
        let addr = IpAddr::V4(Ipv4Addr::new(127, 0, 7, 1));
        add_simple_peer(&d, addr, m.local_hold, m.expected_asn).await?;
        let mut model = m.init();
        let mut conns: [Option<Conn>; 2] = [None, None];
        let idx = |r: Role| if r == Role::Active { 0 } else { 1 };
        let mut out: Vec<(String, String)> = Vec::new();
        let mut notifs: Vec<(usize, u8, u8)> = Vec::new();
        for (step, &op) in hist.iter().enumerate() {
            let (role, ref input) = m.ops[op as usize];
            let mut sink = Vec::new();
            m.step(&mut model, op as usize, &mut sink);
            match input {
                In::Connected => {
                    if conns[idx(role)].is_some() {
                        // a second TCP connection of the same direction while one is live: refused by accept_connection
                        match connect(&d, addr, role).await? {
                            None => {}
                            Some(mut c) => {
                                out.push(("C07/driver/second-connection-accepted".into(), format!("step {step}: a second {} connection was accepted while one is live", role_name(role))));
                                c.wait_end(true).await;
                            }
                        }
                    } else if let Some(c) = connect(&d, addr, role).await? {
                        conns[idx(role)] = Some(c);
                    }
                }
                In::Disconnected => {
                    if let Some(mut c) = conns[idx(role)].take() {
                        c.wait_end(true).await;
                    }
                }
                In::AdminShutdown => {
                    if conns[idx(role.other())].is_some() && model.connection(role.other()).is_some() {
                        return Ok(None); // the API shuts down both connections at once; not the model's per-role input
                    }
                    if conns[idx(role)].is_some() {
                        admin_shutdown(&d, addr).await;
                    }
                }
                other => {
                    if let Some(c) = conns[idx(role)].as_mut() {
                        let msg = match other {
                            In::Open { asn, hold, gr } => {
                                let mut capability = vec![Capability::MultiProtocol(Family::IPV4), Capability::FourOctetAsNumber(*asn)];
                                if *gr {
                                    capability.push(Capability::GracefulRestart { flags: 0, restart_time: 120, families: vec![(Family::IPV4, 0x80)] });
                                }
                                bgp::Message::Open(bgp::Open { as_number: *asn, holdtime: HoldTime::new(*hold).unwrap(), router_id: remote_id, capability })
                            }
                            In::Keepalive => bgp::Message::Keepalive,
                            In::Update => bgp::Message::eor(Family::IPV4),
                            In::Notification => bgp::Message::Notification(Notification::CeaseAdminShutdown),
                            _ => bgp::Message::RouteRefresh { family: Family::IPV4 },
                        };
                        c.send(&msg).await;
                    }
                }
            }
            // wait until the real arbiter shows the model's states
            let want = (model.state(Role::Active), model.state(Role::Passive));
            let t0 = std::time::Instant::now();
            let mut got = (State::Idle, State::Idle);
            loop {
                if let Some((a, p, _, _)) = arbiter_view(&d, addr).await {
                    got = (a, p);
                }
                if got == want || t0.elapsed() > std::time::Duration::from_secs(10) {
                    break;
                }
                tokio::time::sleep(std::time::Duration::from_micros(300)).await;
            }
            if got != want {
                out.push((
                    format!("C07/driver/state-mismatch/{:?}-vs-{:?}", want, got).replace(' ', ""),
                    format!("step {step} ({}:{}): the model says (active, passive) = {:?}, the live ConnArbiter shows {:?}", role_name(role), in_name(input), want, got),
                ));
                break;
            }
            // connections the model considers gone must have been closed by the daemon; collect NOTIFICATIONs
            for r in [Role::Active, Role::Passive] {
                if model.connection(r).is_none() {
                    if let Some(mut c) = conns[idx(r)].take() {
                        loop {
                            match tokio::time::timeout(std::time::Duration::from_secs(10), c.read_msg()).await {
                                Ok(Ok(Some(bgp::ParsedMessage::Notification(n)))) => notifs.push((idx(r), n.notification_code(), n.notification_subcode())),
                                Ok(Ok(Some(_))) => continue,
                                Ok(Ok(None)) | Ok(Err(_)) => break,
                                Err(_) => {
                                    out.push(("C07/driver/connection-not-closed".into(), format!("step {step}: the {} connection is gone in the model but the daemon keeps the TCP connection open", role_name(r))));
                                    break;
                                }
                            }
                        }
                        c.wait_end(true).await;
                    }
                }
            }
            // wire check for this step
            let is_msg = matches!(input, In::Open { .. } | In::Keepalive | In::Update | In::RouteRefresh);
            let went_down = model.connection(role).is_none();
            if is_msg && went_down && sink.is_empty() {
                let mine: Vec<&(usize, u8, u8)> = notifs.iter().filter(|n| n.0 == idx(role)).collect();
                if mine.is_empty() {
                    out.push(("C07/driver/no-notification-on-wire".into(), format!("step {step} ({}:{}): the connection was torn down but no NOTIFICATION reached the peer", role_name(role), in_name(input))));
                }
            }
            notifs.retain(|n| n.0 != idx(role));
        }
        // slots of the real arbiter must be free for connections that are gone
        if let Some((_, _, act_slot, pas_slot)) = arbiter_view(&d, addr).await {
            // the close-channel slot is cleared by apply_disconnect after the task has ended
            for (r, slot) in [(Role::Active, act_slot), (Role::Passive, pas_slot)] {
                if model.connection(r).is_none() && conns[idx(r)].is_none() && slot {
                    // give the ending task a moment
                    let mut still = true;
                    for _ in 0..2000 {
                        tokio::time::sleep(std::time::Duration::from_micros(300)).await;
                        if let Some((_, _, a, p)) = arbiter_view(&d, addr).await {
                            still = if r == Role::Active { a } else { p };
                            if !still {
                                break;
                            }
                        }
                    }
                    if still {
                        out.push(("C07/driver/slot-not-freed".into(), format!("the {} close-channel slot is still occupied after the connection ended", role_name(r))));
                    }
                }
            }
        }
        // finally: a hard reset (reset_peer API, Cease through the close channel, bypassing the FSM)
        // must also return every remaining connection to Idle and free its slot
        if conns.iter().any(|c| c.is_some()) {
            hard_reset(&d, addr).await;
            for c in conns.iter_mut().flatten() {
                c.wait_end(false).await;
            }
            let mut leaked = None;
            for _ in 0..2000 {
                match arbiter_view(&d, addr).await {
                    Some((State::Idle, State::Idle, false, false)) => {
                        leaked = None;
                        break;
                    }
                    other => leaked = other,
                }
                tokio::time::sleep(std::time::Duration::from_micros(300)).await;
            }
            if let Some((a, p, sa, sp)) = leaked {
                out.push(("C07/driver/slot-not-freed-after-reset".into(), format!("after a hard reset the connections are gone but the arbiter shows states ({:?}, {:?}) and close-channel slots ({sa}, {sp})", a, p)));
            }
        }
        Ok(Some(out))
    })
}

pub(crate) fn run_c07(replay: Option<&str>) -> Report {
    let mut rep = Report::new("C07", "hd-c07");
    let models = c07_models();
    if let Some(case) = replay {
        if let Some(hexs) = case.strip_prefix("open-bytes#") {
            let bytes = crate::verif::vx::report::unhex(hexs);
            let mut codec = bgp::PeerCodec::new();
            eprintln!("replay: parse_message -> {:?}", codec.parse_message(&bytes).map(|_| "message").map_err(|e| format!("{e:?}")));
            c07_decoder_rejects(&mut rep);
            return rep;
        }
        let (driver, case) = match case.strip_prefix("driver#") {
            Some(c) => (true, c),
            None => (false, case),
        };
        let Some((name, hist)) = bfs::decode_case(case) else {
            rep.machinery_error = Some("bad replay case".into());
            return rep;
        };
        let Some(m) = models.iter().find(|m| m.name == name) else {
            rep.machinery_error = Some(format!("unknown model {name}"));
            return rep;
        };
        eprintln!("replay {}", bfs::render(m, &hist));
        if driver {
            match c07_driver_replay(m, &hist) {
                Ok(Some(vs)) => {
                    for (sig, what) in vs {
                        eprintln!("  {sig}: {what}");
                        rep.violation(Violation { sig, what, case: format!("driver#{case}") });
                    }
                }
                Ok(None) => eprintln!("  not replayable at driver level"),
                Err(e) => rep.machinery_error = Some(e),
            }
        } else {
            rep.violations_from(bfs::replay(m, &hist, true));
        }
        rep.evaluations = 1;
        return rep;
    }
    rep.rule = "explicit-state BFS to FIXPOINT over the real PeerFsm (both roles, 19 inputs each) per configuration (local hold {0,90} × expected AS {set,any} × identifier order {<,=,>}); oracle = reference transition function + one-survivor invariant on every transition; plus OPEN byte encodings through the real parser; non-trivial = distinct canonical FSM state".into();
    let mut replayed = 0u64;
    let mut skipped = 0u64;
    let mut violating = 0u64;
    for m in &models {
        let cfg = BfsCfg { max_depth: 40, max_secs: 600, collect: true, ..Default::default() };
        let st = bfs::bfs(m, &cfg, &mut rep);
        if !st.fixpoint {
            rep.exhaustive = false;
            rep.caps_hit.push(format!("{}: no fixpoint within depth 40", m.name));
        }
        // bind the model to the I/O driver: the shortest history to every reachable state,
        // replayed with real session tasks for both roles
        for h in &st.histories {
            if violating >= 12 {
                // every violating replay waits for time-outs; the verdict is already "violated"
                rep.exhaustive = false;
                rep.caps_hit.push("c07-driver-conformance: stopped after 12 violating histories".into());
                break;
            }
            match c07_driver_replay(m, h) {
                Ok(None) => skipped += 1,
                Ok(Some(vs)) => {
                    replayed += 1;
                    if !vs.is_empty() {
                        violating += 1;
                    }
                    for (sig, what) in vs {
                        rep.violation(Violation { sig, what, case: format!("driver#{}", bfs::encode_case(m, h)) });
                    }
                }
                Err(e) => {
                    rep.machinery_error = Some(format!("c07 driver replay: {e}"));
                    return rep;
                }
            }
            if let Some(e) = crate::event::verif_event::common::take_machinery() {
                rep.machinery_error = Some(e);
                return rep;
            }
        }
    }
    rep.traces_validated = replayed;
    rep.notes.push(format!("c07-driver-conformance: {replayed} shortest histories (one per reachable model state) replayed against live sessions of both roles; {skipped} not replayable (contain timer expiries / update-sent / a per-role admin shutdown while both connections are live)"));
    c07_decoder_rejects(&mut rep);
    rep
}

// ---------------------------------------------------------------------------
// C08: hold / keepalive timing under a virtual-time interpretation of the
// timer outputs.  The interpretation is the driver's (PeerSession::
// apply_outputs): `Set*Timer(n)` REPLACES the single pending sleep of that
// kind with now+n (so n = 0 fires at once; a huge n never fires); when both
// timers are due the hold timer is served first (select_biased order); timer
// branches are served before received messages.

const FAR: u64 = 1 << 40;

/// every (is-hold-timer, value) the FSM emitted during the exploration; bound to the driver afterwards
static TIMER_VALUES: std::sync::Mutex<std::collections::BTreeSet<(bool, u64)>> = std::sync::Mutex::new(std::collections::BTreeSet::new());

#[derive(Clone, Debug)]
enum TOp {
    Connected,
    OpenRx,
    /// let the earliest armed timer fire
    Fire,
    /// advance `delta` seconds (no deadline reached), then the event
    Adv(u64, TEv),
}

#[derive(Clone, Copy, Debug, PartialEq)]
enum TEv {
    KeepaliveRx,
    UpdateRx,
    RouteRefreshRx,
    UpdateSent,
}

struct TimeModel {
    name: String,
    local: u64,
    remote: u16,
    ops: Vec<TOp>,
}

struct TSys {
    fsm: PeerFsm,
    now: u64,
    hold: Option<u64>,
    ka: Option<u64>,
    /// time of the last OPEN / KEEPALIVE / UPDATE received
    last_rx: u64,
    /// time the keepalive timer was last (re)started: KEEPALIVE sent on timer, UPDATE sent, or armed at OPEN
    last_tx: u64,
    open_done: bool,
    down: bool,
    broken: std::collections::BTreeSet<String>,
}

impl TimeModel {
    fn negotiated(&self) -> u64 {
        self.local.min(self.remote as u64)
    }

    /// Feed outputs through the driver's interpretation; returns (hold-expiry down, any down, keepalives sent)
    fn interpret(&self, sys: &mut TSys, outs: Vec<PeerFsmOutput>) -> (bool, bool, usize) {
        let mut hold_down = false;
        let mut any_down = false;
        let mut ka_sent = 0;
        let mut seen: Vec<(bool, u64)> = Vec::new();
        for o in outs {
            if let PeerFsmOutput::Connection(_, out) = o {
                match out {
                    Output::SetHoldTimer(n) => {
                        seen.push((true, n));
                        sys.hold = if n >= FAR { None } else { Some(sys.now + n) }
                    }
                    Output::SetKeepaliveTimer(n) => {
                        seen.push((false, n));
                        sys.ka = if n >= FAR { None } else { Some(sys.now + n) };
                        sys.last_tx = sys.now;
                    }
                    Output::SendMessage(bgp::Message::Keepalive) => ka_sent += 1,
                    Output::SessionDown(reason, _) => {
                        any_down = true;
                        if matches!(reason, SessionDownReason::HoldTimerExpired) {
                            hold_down = true;
                        }
                    }
                    _ => {}
                }
            }
        }
        if any_down {
            sys.down = true;
        }
        if !seen.is_empty() {
            let mut g = TIMER_VALUES.lock().unwrap();
            if seen.iter().any(|v| !g.contains(v)) {
                g.extend(seen);
            }
        }
        (hold_down, any_down, ka_sent)
    }
}

impl Model for TimeModel {
    type Sys = TSys;
    fn name(&self) -> String {
        self.name.clone()
    }
    fn n_ops(&self) -> usize {
        self.ops.len()
    }
    fn op_name(&self, op: usize) -> String {
        match &self.ops[op] {
            TOp::Adv(d, e) => format!("+{}s;{:?}", d, e),
            o => format!("{:?}", o),
        }
    }
    fn init(&self) -> TSys {
        TSys {
            fsm: PeerFsm::new(LOCAL_ID, LOCAL_AS, vec![Capability::MultiProtocol(Family::IPV4)], self.local, PEER_AS, FnvHashMap::default()),
            now: 0,
            hold: None,
            ka: None,
            last_rx: 0,
            last_tx: 0,
            open_done: false,
            down: false,
            broken: Default::default(),
        }
    }

    fn step(&self, sys: &mut TSys, op: usize, out: &mut Vec<(String, String)>) -> bool {
        if sys.down {
            return false;
        }
        let h = self.negotiated();
        let role = Role::Active;
        let pre = sys.fsm.state(role);
        let mut cur: Vec<(String, String)> = Vec::new();
        let ctx = format!("local hold {} / remote hold {} (negotiated {}), t={}s, state {:?}", self.local, self.remote, h, sys.now, pre);
        match &self.ops[op] {
            TOp::Connected => {
                if pre != State::Idle || sys.open_done {
                    return false;
                }
                let outs = sys.fsm.process(role, Input::Connected(false));
                self.interpret(sys, outs);
            }
            TOp::OpenRx => {
                if pre != State::OpenSent {
                    return false;
                }
                let outs = sys.fsm.process(
                    role,
                    Input::MessageReceived(bgp::Message::Open(bgp::Open {
                        as_number: PEER_AS,
                        holdtime: HoldTime::new(self.remote).unwrap(),
                        router_id: 20,
                        capability: vec![Capability::MultiProtocol(Family::IPV4)],
                    })),
                );
                sys.last_rx = sys.now;
                self.interpret(sys, outs);
                sys.open_done = true;
            }
            TOp::Fire => {
                let (which, at) = match (sys.hold, sys.ka) {
                    (None, None) => return false,
                    (Some(hd), Some(k)) => {
                        if hd <= k {
                            ("hold", hd)
                        } else {
                            ("ka", k)
                        }
                    }
                    (Some(hd), None) => ("hold", hd),
                    (None, Some(k)) => ("ka", k),
                };
                sys.now = at;
                if which == "hold" {
                    sys.hold = None;
                    let outs = sys.fsm.process(role, Input::HoldTimerExpired);
                    let (hold_down, _, _) = self.interpret(sys, outs);
                    if hold_down && sys.open_done {
                        if h == 0 {
                            cur.push(("C08/zero-hold-expiry".into(), format!("{ctx}: negotiated hold time is zero but the session died of hold-timer expiry at t={}s", sys.now)));
                        } else if sys.now - sys.last_rx != h {
                            cur.push((
                                format!("C08/expiry-time/{}", if sys.now - sys.last_rx < h { "early" } else { "late" }),
                                format!("{ctx}: hold-timer expiry {}s after the last KEEPALIVE/UPDATE/OPEN, negotiated hold time is {}s", sys.now - sys.last_rx, h),
                            ));
                        }
                    }
                } else {
                    sys.ka = None;
                    let outs = sys.fsm.process(role, Input::KeepaliveTimerExpired);
                    let (_, _, ka_sent) = self.interpret(sys, outs);
                    if sys.open_done && h == 0 && ka_sent > 0 {
                        cur.push(("C08/zero-hold-keepalive".into(), format!("{ctx}: negotiated hold time is zero but a timer-driven KEEPALIVE was sent")));
                    }
                    if sys.open_done && h > 0 && ka_sent == 0 {
                        cur.push(("C08/keepalive-not-sent".into(), format!("{ctx}: the keepalive timer fired but no KEEPALIVE was sent")));
                    }
                }
            }
            TOp::Adv(delta, ev) => {
                if !matches!(pre, State::OpenConfirm | State::Established) {
                    return false;
                }
                if *ev != TEv::KeepaliveRx && pre != State::Established {
                    return false; // UPDATE / ROUTE-REFRESH / update-sent only make sense once Established
                }
                let t = sys.now + delta;
                if sys.hold.is_some_and(|d| d <= t) || sys.ka.is_some_and(|d| d <= t) {
                    return false; // a timer is due first
                }
                sys.now = t;
                let hold_before = sys.hold;
                let input = match ev {
                    TEv::KeepaliveRx => Input::MessageReceived(bgp::Message::Keepalive),
                    TEv::UpdateRx => Input::MessageReceived(bgp::Message::eor(Family::IPV4)),
                    TEv::RouteRefreshRx => Input::MessageReceived(bgp::Message::RouteRefresh { family: Family::IPV4 }),
                    TEv::UpdateSent => Input::UpdateSent,
                };
                if matches!(ev, TEv::KeepaliveRx | TEv::UpdateRx) {
                    sys.last_rx = sys.now;
                }
                let outs = sys.fsm.process(role, input);
                self.interpret(sys, outs);
                if matches!(ev, TEv::RouteRefreshRx | TEv::UpdateSent) && sys.hold != hold_before {
                    cur.push((
                        format!("C08/hold-rearmed-by/{:?}", ev),
                        format!("{ctx}: the hold timer was re-armed by {:?} (only KEEPALIVE and UPDATE received may do that)", ev),
                    ));
                }
            }
        }
        // ---- state invariants after the OPEN exchange
        let st = sys.fsm.state(role);
        if sys.open_done && !sys.down && matches!(st, State::OpenConfirm | State::Established) {
            if h == 0 {
                if let Some(d) = sys.hold {
                    cur.push((
                        format!("C08/zero-hold-timer-running/{}", if d <= sys.now { "immediate" } else { "lingering" }),
                        format!("{ctx}: negotiated hold time is zero but a hold timer is armed (fires in {}s)", d.saturating_sub(sys.now)),
                    ));
                }
                if sys.ka.is_some() {
                    cur.push(("C08/zero-hold-keepalive-timer-running".into(), format!("{ctx}: negotiated hold time is zero but a keepalive timer is armed")));
                }
            } else {
                match sys.hold {
                    Some(d) if d == sys.last_rx + h => {}
                    other => cur.push((
                        format!("C08/hold-deadline/{}", match other { None => "not-armed", Some(d) if d < sys.last_rx + h => "early", _ => "late" }),
                        format!("{ctx}: hold timer deadline is {:?}, expected last-received({}) + negotiated({}) = {}", other, sys.last_rx, h, sys.last_rx + h),
                    )),
                }
                let iv = h / 3;
                match sys.ka {
                    Some(d) if d == sys.last_tx + iv => {}
                    other => cur.push((
                        format!("C08/keepalive-deadline/{}", match other { None => "not-armed", Some(d) if d < sys.last_tx + iv => "early", _ => "late" }),
                        format!("{ctx}: keepalive timer deadline is {:?}, expected {} + {}/3", other, sys.last_tx, h),
                    )),
                }
            }
        }
        let mut now_broken = std::collections::BTreeSet::new();
        for (sig, what) in cur {
            let clause = sig.split('/').nth(1).unwrap_or("").to_string();
            if !sys.broken.contains(&clause) && !now_broken.contains(&clause) {
                out.push((sig, what));
            }
            now_broken.insert(clause);
        }
        sys.broken = now_broken;
        true
    }

    fn fingerprint(&self, sys: &TSys) -> Vec<u8> {
        let rel = |d: Option<u64>| d.map(|x| x as i64 - sys.now as i64);
        format!(
            "{:?}|{:?}|{:?}|{}|{}|{}|{}|{:?}",
            sys.fsm.state(Role::Active),
            rel(sys.hold),
            rel(sys.ka),
            // the ages only matter while the timer they are measured against is armed
            if sys.hold.is_some() { sys.now - sys.last_rx } else { 0 },
            if sys.ka.is_some() { sys.now - sys.last_tx } else { 0 },
            sys.open_done,
            sys.down,
            sys.broken
        )
        .into_bytes()
    }

    fn observe(&self, sys: &TSys) -> u64 {
        (u8::from(sys.fsm.state(Role::Active)) as u64) * 4 + sys.down as u64 * 2 + sys.hold.is_some() as u64
    }
}

fn c08_models() -> Vec<TimeModel> {
    let mut v = Vec::new();
    for local in [0u64, 3, 4, 10, 90, 180, 65535] {
        for remote in [0u16, 3, 4, 10, 90, 180, 65535] {
            let h = local.min(remote as u64);
            // delta 0 = the event arrives at the current instant (after the timers due now were served):
            // with a keepalive interval of 1 s (hold 3) every positive delta crosses a deadline
            let mut deltas: Vec<u64> = if h == 0 { vec![0, 1, 30, 239, 240, 1000] } else { vec![0, 1, h / 3, h.saturating_sub(1), h] };
            deltas.sort();
            deltas.dedup();
            let mut ops = vec![TOp::Connected, TOp::OpenRx, TOp::Fire];
            for d in &deltas {
                for e in [TEv::KeepaliveRx, TEv::UpdateRx, TEv::RouteRefreshRx, TEv::UpdateSent] {
                    ops.push(TOp::Adv(*d, e));
                }
            }
            v.push(TimeModel { name: format!("c08-l{}-r{}", local, remote), local, remote, ops });
        }
    }
    v
}

/// Conformance of the virtual-time interpretation with the real I/O driver: a few timed
/// traces of the model are replayed in REAL time against a live PeerSession::run over
/// loopback (the only hold values that make this affordable: negotiated 0 and 3).  These
/// runs bind the model to the driver; they do not decide the property.
fn c08_conformance(rep: &mut Report, full: bool) {
    // Real time is the one source of nondeterminism this part cannot own: a verdict is
    // accepted only from a run during which the machine honoured its timers (max overshoot
    // of a 20 ms sleep below 300 ms, measured alongside); a noisy run is repeated, and if
    // the machine stays noisy the part reports that it could not bind, never a violation.
    for attempt in 0..3 {
        let mut r = Report::new("C08", "hd-c08");
        let jitter_ms = c08_conformance_once(&mut r, full);
        let clean = r.violations.is_empty() && r.machinery_error.is_none();
        if clean || jitter_ms < 300 {
            rep.traces_validated += r.traces_validated;
            rep.notes.extend(r.notes);
            rep.notes.push(format!("c08-conformance: attempt {attempt}, max timer overshoot during the run {jitter_ms} ms"));
            for (_, (v, _)) in r.violations {
                rep.violation(v);
            }
            if r.machinery_error.is_some() {
                rep.machinery_error = r.machinery_error;
            }
            return;
        }
        rep.notes.push(format!("c08-conformance: attempt {attempt} discarded, machine too loaded for a real-time verdict (max timer overshoot {jitter_ms} ms)"));
    }
    rep.notes.push("c08-conformance: NOT BOUND in this run (real-time replay impossible under the present load); the virtual-time exploration above is unaffected".into());
}

fn c08_conformance_once(rep: &mut Report, full: bool) -> u64 {
    use crate::event::verif_event::common::*;
    use std::net::{IpAddr, Ipv4Addr};
    use std::time::{Duration, Instant};
    let rt = runtime();
    let pairs: Vec<(u64, u16)> = if full { vec![(0, 90), (90, 0), (0, 0), (3, 3), (3, 90), (90, 3)] } else { vec![(0, 90), (90, 0), (3, 3)] };
    let jitter = std::sync::Arc::new(std::sync::atomic::AtomicU64::new(0));
    let stop = std::sync::Arc::new(std::sync::atomic::AtomicBool::new(false));
    let (j2, s2) = (jitter.clone(), stop.clone());
    let results: Vec<(u64, u16, Result<String, String>)> = rt.block_on(async {
        let mon = tokio::spawn(async move {
            while !s2.load(std::sync::atomic::Ordering::Relaxed) {
                let t = Instant::now();
                tokio::time::sleep(Duration::from_millis(20)).await;
                let over = t.elapsed().as_millis().saturating_sub(20) as u64;
                j2.fetch_max(over, std::sync::atomic::Ordering::Relaxed);
            }
        });
        let mut handles = Vec::new();
        for (i, (local, remote)) in pairs.iter().copied().enumerate() {
            handles.push(tokio::spawn(async move {
                let d = Daemon::new(1);
                let addr = IpAddr::V4(Ipv4Addr::new(127, 0, 8, 1 + i as u8));
                add_simple_peer(&d, addr, local, 65001).await?;
                let mut c = connect(&d, addr, crate::fsm::Role::Passive).await?.ok_or("refused")?;
                let caps = vec![Capability::MultiProtocol(Family::IPV4), Capability::FourOctetAsNumber(65001)];
                let h = local.min(remote as u64);
                if !c.establish(65001, 0x0a000001, remote, caps).await? {
                    // the OPEN exchange takes milliseconds: a Hold Timer Expired NOTIFICATION now is a
                    // verdict (zero negotiated: no timer may run; otherwise >= 3 s early), anything else is not
                    let early = |h: u64| {
                        if h == 0 {
                            "VIOLATION zero-hold: Hold Timer Expired NOTIFICATION right after the OPEN exchange".to_string()
                        } else {
                            format!("VIOLATION expiry-time: Hold Timer Expired NOTIFICATION right after the OPEN exchange (negotiated {h} s)")
                        }
                    };
                    if c.open_notification.is_some_and(|(code, _)| code == 4) {
                        return Ok(early(h));
                    }
                    let t1 = Instant::now();
                    while t1.elapsed() < Duration::from_millis(1000) {
                        match tokio::time::timeout(Duration::from_millis(200), c.read_msg()).await {
                            Ok(Ok(Some(bgp::ParsedMessage::Notification(n)))) if n.notification_code() == 4 => {
                                return Ok(early(h));
                            }
                            Ok(Ok(Some(_))) => continue,
                            Ok(Ok(None)) | Ok(Err(_)) => break,
                            Err(_) => {}
                        }
                    }
                    return Err("session did not establish".to_string());
                }
                let t0 = Instant::now();
                if h == 0 {
                    // KEEPALIVE, UPDATE, then silence: the session must stay up and nothing timer-driven may arrive
                    c.send(&bgp::Message::Keepalive).await;
                    c.send(&bgp::Message::eor(Family::IPV4)).await;
                    let mut timer_driven = 0;
                    while t0.elapsed() < Duration::from_millis(2500) {
                        match tokio::time::timeout(Duration::from_millis(200), c.read_msg()).await {
                            Ok(Ok(Some(bgp::ParsedMessage::Notification(n)))) => return Ok(format!("VIOLATION zero-hold: NOTIFICATION {}/{} after {:?}", n.notification_code(), n.notification_subcode(), t0.elapsed())),
                            Ok(Ok(Some(bgp::ParsedMessage::Keepalive))) => timer_driven += 1,
                            Ok(Ok(None)) => return Ok(format!("VIOLATION zero-hold: session closed after {:?}", t0.elapsed())),
                            _ => {}
                        }
                    }
                    if c.ended() {
                        return Ok("VIOLATION zero-hold: session task ended".into());
                    }
                    let _ = timer_driven; // KEEPALIVEs answering the barrier are not timer-driven; not asserted
                    c.wait_end(true).await;
                    Ok("ok: still established after 2.5 s of KEEPALIVE/UPDATE/silence".into())
                } else {
                    // keep the session up for 4 s with a KEEPALIVE per second, count the daemon's KEEPALIVEs
                    let mut ka = 0;
                    let mut next = Instant::now();
                    let mut last_sent = Instant::now();
                    while t0.elapsed() < Duration::from_millis(4000) {
                        if Instant::now() >= next {
                            c.send(&bgp::Message::Keepalive).await;
                            last_sent = Instant::now();
                            next += Duration::from_millis(1000);
                        }
                        match tokio::time::timeout(Duration::from_millis(100), c.read_msg()).await {
                            Ok(Ok(Some(bgp::ParsedMessage::Keepalive))) => ka += 1,
                            Ok(Ok(Some(bgp::ParsedMessage::Notification(n)))) => return Ok(format!("VIOLATION kept-alive session got NOTIFICATION {}/{} after {:?}", n.notification_code(), n.notification_subcode(), t0.elapsed())),
                            Ok(Ok(None)) => return Ok(format!("VIOLATION kept-alive session closed after {:?}", t0.elapsed())),
                            _ => {}
                        }
                    }
                    if ka < 2 {
                        return Ok(format!("VIOLATION keepalive-interval: only {ka} KEEPALIVEs from the daemon in 4 s with a negotiated hold time of 3 s"));
                    }
                    // silence: hold-timer expiry must arrive about 3 s after the last thing we sent
                    loop {
                        match tokio::time::timeout(Duration::from_millis(6000), c.read_msg()).await {
                            Ok(Ok(Some(bgp::ParsedMessage::Notification(n)))) => {
                                let dt = last_sent.elapsed();
                                if n.notification_code() != 4 {
                                    return Ok(format!("VIOLATION expected hold-timer NOTIFICATION, got {}/{}", n.notification_code(), n.notification_subcode()));
                                }
                                if dt < Duration::from_millis(2500) || dt > Duration::from_millis(5500) {
                                    return Ok(format!("VIOLATION expiry-time: hold-timer NOTIFICATION {:?} after the last KEEPALIVE (negotiated 3 s)", dt));
                                }
                                c.wait_end(false).await;
                                return Ok(format!("ok: {ka} KEEPALIVEs in 4 s, expiry {:?} after the last KEEPALIVE", dt));
                            }
                            Ok(Ok(Some(_))) => continue,
                            Ok(Ok(None)) => return Ok("VIOLATION session closed without hold-timer NOTIFICATION".into()),
                            Ok(Err(e)) => return Err(e),
                            Err(_) => return Ok("VIOLATION no hold-timer expiry within 6 s of silence (negotiated 3 s)".into()),
                        }
                    }
                }
            }));
        }
        let mut out = Vec::new();
        for (h, (l, r)) in handles.into_iter().zip(pairs.iter().copied()) {
            out.push((l, r, h.await.unwrap_or_else(|e| Err(format!("task: {e}")))));
        }
        stop.store(true, std::sync::atomic::Ordering::Relaxed);
        let _ = mon.await;
        out
    });
    for (l, r, res) in results {
        match res {
            Ok(msg) if msg.starts_with("VIOLATION") => {
                rep.violation(Violation { sig: format!("C08/driver-conformance/{}", msg.split(':').next().unwrap_or("").replace("VIOLATION ", "").replace(' ', "-")), what: format!("live session local hold {l} / remote hold {r}: {msg}"), case: format!("conformance#{l}#{r}") });
                rep.traces_validated += 1;
            }
            Ok(msg) => {
                rep.traces_validated += 1;
                rep.notes.push(format!("c08-conformance local {l} / remote {r}: {msg}"));
            }
            Err(e) => rep.machinery_error = Some(format!("c08 conformance ({l},{r}): {e}")),
        }
    }
    jitter.load(std::sync::atomic::Ordering::Relaxed)
}

pub(crate) fn run_c08(replay: Option<&str>) -> Report {
    let mut rep = Report::new("C08", "hd-c08");
    let models = c08_models();
    if let Some(c) = replay.filter(|c| c.starts_with("binding#")) {
        let mut it = c.split('#').skip(1);
        let hold = it.next() == Some("hold");
        let v: u64 = it.next().and_then(|x| x.parse().ok()).unwrap_or(0);
        TIMER_VALUES.lock().unwrap().insert((hold, v));
        c08_driver_binding(&mut rep);
        return rep;
    }
    if replay.is_some_and(|c| c.starts_with("conformance#")) {
        c08_conformance(&mut rep, true);
        return rep;
    }
    if let Some(case) = replay {
        let Some((name, hist)) = bfs::decode_case(case) else {
            rep.machinery_error = Some("bad replay case".into());
            return rep;
        };
        let Some(m) = models.iter().find(|m| m.name == name) else {
            rep.machinery_error = Some(format!("unknown model {name}"));
            return rep;
        };
        eprintln!("replay {}", bfs::render(m, &hist));
        rep.violations_from(bfs::replay(m, &hist, true));
        rep.evaluations = 1;
        return rep;
    }
    let depth = if rep.thorough() { 400 } else { 12 };
    rep.rule = format!("BFS over timed traces of the real PeerFsm under the driver's timer interpretation (virtual time); 49 (local,remote) hold-time pairs from {{0,3,4,10,90,180,65535}}²; steps: connect, OPEN rx, fire earliest timer, advance δ∈{{0,1,h/3,h-1,h}} then KEEPALIVE/UPDATE/ROUTE-REFRESH rx or update-sent; depth {depth}; oracle: interval reference (hold deadline = last rx + min(local,remote); keepalive deadline = last tx + h/3; zero ⇒ no timer armed, no expiry); non-trivial = distinct canonical (state, relative deadlines) tuple");
    rep.notes.push("assume: the driver interprets Set*Timer(n) as 'replace the pending sleep with now+n' (PeerSession::apply_outputs) and serves hold before keepalive before received messages (select_biased order in run_select)".into());
    for m in &models {
        // negotiated 65535: one new age per second for 18 hours - a chain far longer than any useful
        // bound; it is cut at depth 60 (depth-bound, reported as such), all other models run to fixpoint
        let d = if m.negotiated() == 65535 { depth.min(60) } else { depth };
        let cfg = BfsCfg { max_depth: d, max_secs: 900, ..Default::default() };
        bfs::bfs(m, &cfg, &mut rep);
    }
    let thorough = rep.thorough();
    c08_driver_binding(&mut rep);
    c08_conformance(&mut rep, thorough);
    rep
}

/// Bind TimeModel::interpret to PeerSession::apply_outputs: every timer value the FSM emitted
/// during the exploration is armed through the real driver and the pending sleep is read back.
fn c08_driver_binding(rep: &mut Report) {
    let values: Vec<(bool, u64)> = TIMER_VALUES.lock().unwrap().iter().copied().collect();
    if values.is_empty() {
        rep.machinery_error = Some("c08 driver binding: the exploration recorded no timer output".into());
        return;
    }
    let res = match crate::event::verif_event::c08::driver_timer_interpretation(&values) {
        Ok(r) => r,
        Err(e) => {
            rep.machinery_error = Some(format!("c08 driver binding: {e}"));
            return;
        }
    };
    let never = crate::event::verif_event::c08::NEVER_SECS;
    for a in &res {
        let kind = if a.hold { "hold" } else { "keepalive" };
        let case = format!("binding#{}#{}", kind, a.value);
        rep.traces_validated += 1;
        rep.evaluations += 1;
        if a.pending != 1 {
            rep.violation(Violation { sig: format!("C08/driver-binding/{kind}/not-replaced"), what: format!("Set{kind}Timer({}) left {} pending sleeps of that kind; the model (and the property) assume exactly one", a.value, a.pending), case: case.clone() });
        }
        if !a.other_untouched {
            rep.violation(Violation { sig: format!("C08/driver-binding/{kind}/disturbs-other-timer"), what: format!("Set{kind}Timer({}) changed the other timer", a.value), case: case.clone() });
        }
        if a.value >= FAR {
            if a.secs < never {
                rep.violation(Violation { sig: format!("C08/driver-binding/{kind}/disabled-timer-armed"), what: format!("the FSM's 'timer disabled' value {} was armed by the driver as a real timer firing in {} s: the session would die of it although a zero hold time was negotiated", a.value, a.secs), case });
            }
        } else if !(a.value.saturating_sub(2)..=a.value).contains(&a.secs) {
            rep.violation(Violation { sig: format!("C08/driver-binding/{kind}/wrong-deadline"), what: format!("Set{kind}Timer({}) was armed by the driver to fire in {} s", a.value, a.secs), case });
        }
    }
    // the other arming site: flush_tx after it wrote UPDATEs (Input::UpdateSent)
    for (l, r) in [(90u64, 90u16), (90, 30), (30, 180), (3, 3), (0, 90), (90, 0), (0, 0)] {
        let h = l.min(r as u64);
        let case = format!("binding#update-sent#{l}#{r}");
        rep.traces_validated += 1;
        rep.evaluations += 1;
        match crate::event::verif_event::c08::driver_update_sent(l, r) {
            Err(e) => {
                rep.machinery_error = Some(format!("c08 driver binding (update sent): {e}"));
                return;
            }
            Ok(((hn, hs), (kn, ks))) => {
                if hn != 1 || !(775..=777).contains(&hs) {
                    rep.violation(Violation { sig: "C08/driver-binding/update-sent/hold-timer-touched".into(), what: format!("local hold {l} / remote hold {r}: after flush_tx sent an UPDATE the hold timer is {hn} pending sleep(s) firing in {hs} s; it was armed with 777 s and only received KEEPALIVE / UPDATE may re-arm it"), case: case.clone() });
                }
                if h == 0 {
                    if kn != 1 || !(553..=555).contains(&ks) {
                        rep.violation(Violation { sig: "C08/driver-binding/update-sent/zero-hold-keepalive-armed".into(), what: format!("local hold {l} / remote hold {r} (negotiated 0): flush_tx re-armed the keepalive timer ({kn} pending, fires in {ks} s)"), case });
                    }
                } else if kn != 1 || !((h / 3).saturating_sub(2)..=h / 3).contains(&ks) {
                    rep.violation(Violation { sig: "C08/driver-binding/update-sent/keepalive-not-rearmed".into(), what: format!("local hold {l} / remote hold {r}: after flush_tx sent an UPDATE the keepalive timer is {kn} pending sleep(s) firing in {ks} s, expected one firing in {} s", h / 3), case });
                }
            }
        }
    }
    // the receive side: which messages, arriving on the socket of an Established session, re-arm the hold timer
    let neg = crate::event::verif_event::c08::NEG_HOLD;
    for (kind, rearm) in crate::event::verif_event::c08::RX_KINDS {
        let case = format!("binding#received#{kind}");
        rep.traces_validated += 1;
        rep.evaluations += 1;
        match crate::event::verif_event::c08::driver_message_received(kind) {
            Err(e) => {
                rep.machinery_error = Some(format!("c08 driver binding (received {kind}): {e}"));
                return;
            }
            Ok(a) => {
                if a.terminated {
                    rep.violation(Violation { sig: format!("C08/driver-binding/received/{kind}/session-ended"), what: format!("the session ended on receiving {kind}"), case: case.clone() });
                    continue;
                }
                if a.frames_counted == 0 {
                    rep.machinery_error = Some(format!("c08 driver binding (received {kind}): the driver did not read the frame"));
                    return;
                }
                let (hn, hs) = a.hold;
                if *rearm {
                    if hn == 1 && (775..=777).contains(&hs) {
                        rep.violation(Violation { sig: format!("C08/driver-binding/received/{kind}/hold-timer-not-rearmed"), what: format!("{kind} was received and counted by the driver of an Established session (negotiated hold {neg} s) but the hold timer still fires in {hs} s as armed before: a neighbour that sends only such messages is dropped for hold-timer expiry although messages were received"), case: case.clone() });
                    } else if hn != 1 || !(neg - 2..=neg).contains(&hs) {
                        rep.violation(Violation { sig: format!("C08/driver-binding/received/{kind}/wrong-deadline"), what: format!("after {kind} the hold timer is {hn} pending sleep(s) firing in {hs} s; negotiated hold time {neg} s"), case: case.clone() });
                    }
                } else if hn != 1 || !(775..=777).contains(&hs) {
                    rep.violation(Violation { sig: format!("C08/driver-binding/received/{kind}/hold-timer-rearmed-by-other-message"), what: format!("{kind} re-armed the hold timer ({hn} pending, fires in {hs} s); only KEEPALIVE and UPDATE may"), case: case.clone() });
                }
                let (kn, ks) = a.keepalive;
                if kn != 1 || !(553..=555).contains(&ks) {
                    rep.violation(Violation { sig: format!("C08/driver-binding/received/{kind}/keepalive-timer-touched"), what: format!("receiving {kind} changed the keepalive timer ({kn} pending, fires in {ks} s; armed with 555 s)"), case });
                }
            }
        }
    }
    rep.notes.push(format!("c08-driver-binding/received: {} message kinds written to the socket of an Established session and handled by the real run_select; hold / keepalive deadlines read back", crate::event::verif_event::c08::RX_KINDS.len()));
    rep.notes.push(format!("c08-driver-binding: {} distinct timer outputs emitted by the FSM during the exploration ({}) armed through the real PeerSession::apply_outputs; pending sleep count, deadline and the untouched other timer read back", res.len(), values.iter().map(|(h, v)| format!("{}:{}", if *h { "hold" } else { "ka" }, if *v >= FAR { "disabled".to_string() } else { v.to_string() })).collect::<Vec<_>>().join(" ")));
}
