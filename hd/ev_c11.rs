// C11: restarting speaker defers selection until every helper sent EOR /
// dropped / re-established without the family, or the timer fires.
//
// Explicit-state BFS over histories of peer-established / End-of-RIB /
// peer-withdrawn / timer events interleaved with route activity.  The machine
// under test is the real `gr::RestartingDeferral` driven through the daemon's
// own glue: `PeerSession::process_effects` (GrSessionEstablished /
// GrEorReceived), the PeerWithdrawn sequence of `PeerSession::run`,
// `gr_selection_deferral_timer_expired` and `process_restarting_outputs`,
// against a real `TableManager` (2 shards) observed by a registered peer
// channel.

use super::super::*;
use super::common::*;
use crate::verif::vx::bfs::{self, BfsCfg, Model};
use crate::verif::vx::report::Report;
use std::collections::{BTreeMap, BTreeSet};
use std::net::{IpAddr, Ipv4Addr};

fn fams(n: usize) -> Vec<Family> {
    [Family::IPV4, Family::IPV6, Family::IPV4_MC][..n].to_vec()
}
fn fkey(f: &Family) -> u32 {
    ((f.afi() as u32) << 8) | f.safi() as u32
}
fn fname(f: &Family) -> &'static str {
    match *f {
        Family::IPV4 => "v4",
        Family::IPV6 => "v6",
        _ => "v4mc",
    }
}
fn net(f: &Family, k: u8) -> packet::Nlri {
    match *f {
        Family::IPV6 => packet::Nlri::V6(packet::bgp::Ipv6Net { addr: std::net::Ipv6Addr::new(0x2001, 0xdb8, k as u16, 0, 0, 0, 0, 0), mask: 48 }),
        _ => packet::Nlri::V4(packet::bgp::Ipv4Net { addr: Ipv4Addr::new(10, k, 0, 0), mask: 24 }),
    }
}
fn peer_addr(p: usize) -> IpAddr {
    IpAddr::V4(Ipv4Addr::new(10, 9, 0, 1 + p as u8))
}

#[derive(Clone, Debug)]
enum Op {
    Est(usize, Vec<Family>),
    Eor(usize, Family),
    Withdrawn(usize),
    Timer,
    InsertLocal(Family, u8),
    InsertPeer(usize, Family, u8),
    RemovePeer(usize, Family, u8),
}

fn op_name(o: &Op) -> String {
    match o {
        Op::Est(p, fs) => format!("est(p{},{{{}}})", p + 1, fs.iter().map(fname).collect::<Vec<_>>().join(",")),
        Op::Eor(p, f) => format!("eor(p{},{})", p + 1, fname(f)),
        Op::Withdrawn(p) => format!("withdrawn(p{})", p + 1),
        Op::Timer => "timer".into(),
        Op::InsertLocal(f, k) => format!("insert(local,{},n{})", fname(f), k),
        Op::InsertPeer(p, f, k) => format!("insert(p{},{},n{})", p + 1, fname(f), k),
        Op::RemovePeer(p, f, k) => format!("remove(p{},{},n{})", p + 1, fname(f), k),
    }
}
fn op_kind(o: &Op) -> &'static str {
    match o {
        Op::Est(..) => "est",
        Op::Eor(..) => "eor",
        Op::Withdrawn(..) => "withdrawn",
        Op::Timer => "timer",
        Op::InsertLocal(..) | Op::InsertPeer(..) => "insert",
        Op::RemovePeer(..) => "remove",
    }
}

pub(crate) struct DeferModel {
    name: String,
    /// configured GR families per peer (empty = peer without graceful restart)
    config: Vec<Vec<Family>>,
    families: Vec<Family>,
    ops: Vec<Op>,
}

#[derive(PartialEq, Clone, Copy, Debug)]
enum Phase {
    Awaiting,
    Deferring,
    Done,
}

pub(crate) struct Sys {
    rt: tokio::runtime::Runtime,
    global: GlobalHandle,
    tables: TableHandle,
    obs: mpsc::UnboundedReceiver<ToPeerEvent>,
    contexts: Vec<Arc<std::sync::Mutex<PeerContext>>>,
    up: Vec<bool>,
    sources: Vec<Arc<table::Source>>,
    // reference model
    pending: BTreeMap<usize, BTreeSet<u32>>,
    phase: Phase,
    deferred: BTreeSet<u32>,
    // accounting
    /// per prefix: (content last announced, how many times that same content was announced)
    ann: BTreeMap<(u32, String), (String, u32)>,
    broken: BTreeSet<String>,
}

fn mk_context() -> Arc<std::sync::Mutex<PeerContext>> {
    let fsm = crate::fsm::PeerFsm::new(u32::from(Ipv4Addr::new(10, 0, 0, 254)), 65000, vec![], 90, 0, FnvHashMap::default());
    let conn_arbiter = Arc::new(std::sync::Mutex::new(ConnArbiter::new(fsm)));
    Arc::new(std::sync::Mutex::new(PeerContext {
        conn_arbiter,
        active_connect_cancel_tx: None,
        active_connect_join_handle: None,
        gr_state: crate::gr::GrState::new(),
        gr_restart_timer: None,
        llgr_family_timers: FnvHashMap::default(),
        rtc_state: crate::rtc::RtcState::new(),
        rtc_eor_timer: None,
    }))
}

fn mk_source(p: usize) -> Arc<table::Source> {
    Arc::new(table::Source::new(
        peer_addr(p),
        IpAddr::V4(Ipv4Addr::new(10, 9, 0, 254)),
        65001 + p as u32,
        65000,
        Ipv4Addr::new(10, 9, 0, 1 + p as u8),
        table::PeerRole::Ebgp,
    ))
}

fn attrs() -> Arc<Vec<packet::Attribute>> {
    Arc::new(vec![
        packet::Attribute::new_with_value(packet::Attribute::ORIGIN, 0).unwrap(),
        packet::Attribute::empty_as_path(),
    ])
}

impl DeferModel {
    fn released(&self, sys: &Sys) -> BTreeSet<u32> {
        if sys.phase == Phase::Done {
            return sys.deferred.clone();
        }
        sys.deferred.iter().filter(|f| !sys.pending.values().any(|s| s.contains(f))).copied().collect()
    }
}

impl Model for DeferModel {
    type Sys = Sys;
    fn name(&self) -> String {
        self.name.clone()
    }
    fn n_ops(&self) -> usize {
        self.ops.len()
    }
    fn op_name(&self, op: usize) -> String {
        op_name(&self.ops[op])
    }

    fn init(&self) -> Sys {
        let rt = runtime();
        let global = make_global();
        let tables = make_tables(2);
        // exactly what Global::serve does at start-up with --graceful-restart
        let gr_peers: fnv::FnvHashMap<IpAddr, Vec<Family>> =
            self.config.iter().enumerate().filter(|(_, c)| !c.is_empty()).map(|(p, c)| (peer_addr(p), c.clone())).collect();
        let (deferral, init_outputs) = crate::gr::RestartingDeferral::new(gr_peers, Some(Duration::from_secs(360)));
        let mut deferred = BTreeSet::new();
        if !deferral.is_completed() {
            for output in &init_outputs {
                if let crate::gr::RestartingOutput::DeferFamilies(families) = output {
                    tables.start_deferral_families(families);
                    deferred.extend(families.iter().map(fkey));
                }
            }
            rt.block_on(async { global.write().await.selection_deferral = Some(deferral) });
        }
        let obs = tables.register_peer(IpAddr::V4(Ipv4Addr::new(10, 9, 9, 9)), FnvHashSet::default(), |_| {});
        let mut pending = BTreeMap::new();
        for (p, c) in self.config.iter().enumerate() {
            if !c.is_empty() {
                pending.insert(p, c.iter().map(fkey).collect());
            }
        }
        let phase = if pending.is_empty() { Phase::Done } else { Phase::Awaiting };
        Sys {
            rt,
            global,
            tables,
            obs,
            contexts: (0..self.config.len()).map(|_| mk_context()).collect(),
            up: vec![false; self.config.len()],
            sources: (0..self.config.len()).map(mk_source).collect(),
            pending,
            phase,
            deferred,
            ann: BTreeMap::new(),
            broken: BTreeSet::new(),
        }
    }

    fn step(&self, sys: &mut Sys, op: usize, out: &mut Vec<(String, String)>) -> bool {
        let o = &self.ops[op];
        let kind = op_kind(o);
        let mut cur: Vec<(String, String)> = Vec::new();
        let pre_phase = sys.phase;
        match o {
            Op::Est(p, fs) => {
                if sys.up[*p] {
                    return false;
                }
                sys.up[*p] = true;
                sys.sources[*p] = mk_source(*p);
                let negotiated_gr = if fs.is_empty() {
                    None
                } else {
                    Some(NegotiatedGr { families: fs.clone(), restart_time: Duration::from_secs(90), notification_enabled: false })
                };
                let (global, tables, ctx) = (sys.global.clone(), sys.tables.clone(), sys.contexts[*p].clone());
                let addr = peer_addr(*p);
                sys.rt.block_on(async {
                    let mut session = PeerSession::new_for_test(addr, ctx, tables);
                    session.process_effects(vec![GlobalEffect::GrSessionEstablished { negotiated_gr }], &global).await;
                });
                // reference
                if sys.phase != Phase::Done && sys.pending.contains_key(p) {
                    if fs.is_empty() {
                        sys.pending.remove(p);
                    } else {
                        sys.pending.insert(*p, fs.iter().map(fkey).collect());
                        if sys.phase == Phase::Awaiting {
                            sys.phase = Phase::Deferring;
                        }
                    }
                }
            }
            Op::Eor(p, f) => {
                if !sys.up[*p] {
                    return false;
                }
                let (global, tables, ctx) = (sys.global.clone(), sys.tables.clone(), sys.contexts[*p].clone());
                let addr = peer_addr(*p);
                let fam = *f;
                sys.rt.block_on(async {
                    let mut session = PeerSession::new_for_test(addr, ctx, tables);
                    session.process_effects(vec![GlobalEffect::GrEorReceived { family: fam }], &global).await;
                });
                if sys.phase == Phase::Deferring {
                    if let Some(s) = sys.pending.get_mut(p) {
                        s.remove(&fkey(f));
                        if s.is_empty() {
                            sys.pending.remove(p);
                        }
                    }
                }
            }
            Op::Withdrawn(p) => {
                // a session of the peer ended (established or a failed attempt)
                if sys.up[*p] {
                    sys.tables.unregister_peer(peer_addr(*p), &self.families, &[]);

                }
                sys.up[*p] = false;
                let (global, tables) = (sys.global.clone(), sys.tables.clone());
                let addr = peer_addr(*p);
                sys.rt.block_on(async {
                    // the sequence at the end of PeerSession::run
                    let rd_outputs = {
                        let mut server = global.write().await;
                        if let Some(rd) = &mut server.selection_deferral {
                            rd.process(crate::gr::RestartingInput::PeerWithdrawn(addr))
                        } else {
                            vec![]
                        }
                    };
                    let _ = process_restarting_outputs(rd_outputs, &global, &tables).await;
                });
                if sys.phase != Phase::Done {
                    sys.pending.remove(p);
                }
            }
            Op::Timer => {
                if sys.phase != Phase::Deferring {
                    return false; // the timer only runs once the first helper established
                }
                let (global, tables) = (sys.global.clone(), sys.tables.clone());
                sys.rt.block_on(async { gr_selection_deferral_timer_expired(global, tables).await });
                sys.pending.clear();
                sys.phase = Phase::Done;
            }
            Op::InsertLocal(f, k) => {
                sys.tables.insert_route(table::Source::local(), *f, packet::PathNlri::new(net(f, *k)), None, attrs(), None, 0);
            }
            Op::InsertPeer(p, f, k) => {
                if !sys.up[*p] {
                    return false;
                }
                sys.tables.insert_route(sys.sources[*p].clone(), *f, packet::PathNlri::new(net(f, *k)), None, attrs(), None, 0);
            }
            Op::RemovePeer(p, f, k) => {
                if !sys.up[*p] {
                    return false;
                }
                sys.tables.remove_route(sys.sources[*p].clone(), *f, packet::PathNlri::new(net(f, *k)), None, 0);
            }
        }
        if sys.phase != Phase::Done && sys.pending.is_empty() {
            sys.phase = Phase::Done;
        }
        let released = self.released(sys);

        // ---- observe what reached the neighbours during this step
        let content = |paths: &[table::Path]| -> String {
            paths.iter().map(|p| format!("{}#{};", p.source.remote_addr, p.local_path_id)).collect()
        };
        while let Ok(ev) = sys.obs.try_recv() {
            if let ToPeerEvent::NlriChange(c) = ev {
                let key = (fkey(&c.family), format!("{}", c.net));
                // a withdrawal is an advertisement too: nothing about a deferred family reaches the neighbours
                if sys.deferred.contains(&key.0) && !released.contains(&key.0) {
                    cur.push((
                        format!("C11/advertised-while-deferred/{kind}{}", if c.current_paths.is_empty() { "/withdrawal" } else { "" }),
                        format!("{}: {} {} ({}) was handed to the neighbours although family {} is still deferred (pending {:?})", op_name(o), fname(&c.family), c.net, if c.current_paths.is_empty() { "withdrawal" } else { "announcement" }, fname(&c.family), sys.pending),
                    ));
                }
                if c.current_paths.is_empty() {
                    sys.ann.remove(&key);
                    continue;
                }
                let ct = content(&c.current_paths);
                // a route op (a new UPDATE / API call) legitimately re-announces; only the
                // dumps issued by deferral events count towards "exactly once"
                let route_op = matches!(kind, "insert" | "remove");
                match sys.ann.get_mut(&key) {
                    Some((old, n)) if *old == ct && !route_op => *n += 1,
                    _ => {
                        sys.ann.insert(key, (ct, 1));
                    }
                }
            }
        }
        // every prefix of a released family announced exactly once since its last change
        for f in &self.families {
            let fk = fkey(f);
            let is_released = !sys.deferred.contains(&fk) || released.contains(&fk);
            for c in sys.tables.collect_loc_rib_paths(*f) {
                let key = (fk, format!("{}", c.net));
                let ct = content(&c.current_paths);
                let (announced, n) = sys.ann.get(&key).cloned().unwrap_or_default();
                if is_released && announced != ct {
                    cur.push((
                        format!("C11/not-announced-after-release/{kind}"),
                        format!("{}: family {} is released but the current paths of {} were never announced", op_name(o), fname(f), c.net),
                    ));
                }
                if n > 1 {
                    cur.push((
                        format!("C11/announced-twice/{kind}"),
                        format!("{}: {} {} was announced {} times without changing in between", op_name(o), fname(f), c.net, n),
                    ));
                }
            }
        }
        // ---- completion / restarting flag
        let (cleared, timer_armed) = sys.rt.block_on(async {
            let g = sys.global.read().await;
            (g.selection_deferral.is_none(), g.selection_deferral_timer.is_some())
        });
        if cleared != (sys.phase == Phase::Done) {
            cur.push((
                format!("C11/completion/{}", if cleared { "early" } else { "stuck" }),
                format!("{}: restarting state cleared = {}, but the reference says phase {:?} with pending {:?}", op_name(o), cleared, sys.phase, sys.pending),
            ));
        }
        if pre_phase == Phase::Awaiting && sys.phase == Phase::Deferring && !timer_armed {
            cur.push(("C11/timer-not-started".into(), format!("{}: first helper established but the selection-deferral timer was not started", op_name(o))));
        }
        let mut now = BTreeSet::new();
        for (sig, what) in cur {
            let clause = sig.split('/').nth(1).unwrap_or("").to_string();
            if !sys.broken.contains(&clause) && !now.contains(&clause) {
                out.push((sig, what));
            }
            now.insert(clause);
        }
        sys.broken = now;
        true
    }

    fn fingerprint(&self, sys: &Sys) -> Vec<u8> {
        let machine = sys.rt.block_on(async {
            let g = sys.global.read().await;
            match &g.selection_deferral {
                Some(rd) => crate::gr::verif_gr::fp_restarting(rd),
                None => "None".into(),
            }
        });
        let mut rib = Vec::new();
        for f in &self.families {
            let mut v: Vec<String> = sys
                .tables
                .collect_paths(table::TableQuery::Global, *f, vec![], true)
                .iter()
                .map(|d| format!("{}:{:?}", d.net, d.paths.iter().map(|p| p.source.remote_addr).collect::<Vec<_>>()))
                .collect();
            v.sort();
            rib.push(format!("{}{:?}", fname(f), v));
        }
        format!("{machine}|{:?}|{:?}|{:?}|{:?}|{:?}|{:?}|{:?}", rib, sys.up, sys.pending, sys.phase, sys.ann, sys.broken, self.released(sys)).into_bytes()
    }

    fn observe(&self, sys: &Sys) -> u64 {
        (sys.phase as u64) * 16 + self.released(sys).len() as u64
    }
}

fn subsets(c: &[Family]) -> Vec<Vec<Family>> {
    let mut out = Vec::new();
    for m in 0..(1u32 << c.len()) {
        out.push(c.iter().enumerate().filter(|(i, _)| m & (1 << i) != 0).map(|(_, f)| *f).collect());
    }
    out
}

fn mk_model(name: &str, config: Vec<Vec<Family>>, nf: usize) -> DeferModel {
    let families = fams(nf);
    let mut ops = Vec::new();
    for (p, c) in config.iter().enumerate() {
        for s in subsets(c) {
            ops.push(Op::Est(p, s));
        }
    }
    for p in 0..config.len() {
        for f in &families {
            ops.push(Op::Eor(p, *f));
        }
        ops.push(Op::Withdrawn(p));
    }
    ops.push(Op::Timer);
    for f in &families {
        ops.push(Op::InsertLocal(*f, 0));
        ops.push(Op::InsertLocal(*f, 1));
        ops.push(Op::InsertPeer(0, *f, 1));
        ops.push(Op::RemovePeer(0, *f, 1));
    }
    DeferModel { name: name.into(), config, families, ops }
}

fn models(thorough: bool) -> Vec<DeferModel> {
    let (v4, v6, mc) = (Family::IPV4, Family::IPV6, Family::IPV4_MC);
    let mut v = vec![
        mk_model("c11-2peers-a", vec![vec![v4], vec![v4, v6]], 2),
        mk_model("c11-2peers-nongr", vec![vec![v4, v6], vec![v6], vec![]], 2),
        mk_model("c11-1peer", vec![vec![v4, v6]], 2),
    ];
    if thorough {
        v.push(mk_model("c11-3peers-3fam", vec![vec![v4, v6], vec![v6, mc], vec![v4, mc]], 3));
    }
    v
}

pub(crate) fn run(replay: Option<&str>) -> Report {
    let mut rep = Report::new("C11", "hd-c11");
    let ms = models(true);
    if let Some(case) = replay {
        let Some((name, hist)) = bfs::decode_case(case) else {
            rep.machinery_error = Some("bad replay case".into());
            return rep;
        };
        let Some(m) = ms.iter().find(|m| m.name == name) else {
            rep.machinery_error = Some(format!("unknown model {name}"));
            return rep;
        };
        eprintln!("replay {}", bfs::render(m, &hist));
        rep.violations_from(bfs::replay(m, &hist, true));
        rep.evaluations = 1;
        return rep;
    }
    let thorough = rep.thorough();
    let depth = if thorough { 8 } else { 7 };
    rep.rule = format!("explicit-state BFS (depth {depth}) over peer-established(any subset of the configured GR families) / End-of-RIB / peer-withdrawn / timer events interleaved with route inserts/removes, on the real RestartingDeferral driven through the daemon's own glue (process_effects, process_restarting_outputs, timer handler) with a 2-shard TableManager observed by a registered neighbour channel; reference = pending-set model from the statement; non-trivial = distinct canonical (machine, RIB, announcement counts) state");
    for m in models(thorough) {
        let cfg = BfsCfg { max_depth: depth, max_secs: if thorough { 1200 } else { 40 }, ..Default::default() };
        bfs::bfs(&m, &cfg, &mut rep);
    }
    rep
}
