// C19 (daemon level): every BMP message / MRT record the daemon emits is
// well-formed and carries the intended BGP data.
//
// The records are produced by the daemon's own code, attached the way the daemon
// attaches it:
//   * BMP: `BmpClient::try_connect` (-> `serve`, `adj_rib_in_to_bmp_update`,
//     `loc_rib_to_bmp`, `flush_peer_snapshot`, `Peer::bmp_peer_up`) against a loopback
//     "station" (TcpListener) that records the byte stream;
//   * MRT updates: `MrtDumper::serve` (-> `adj_rib_in_to_mrt`) into a temp file;
//   * MRT table dump: `dump_table` into a temp file.
// and judged by the same oracle as the packet-level harness (hx/src/c19_oracle.rs:
// RFC readers of hx/src/wire.rs + the repository's BGP parser for embedded PDUs).
//
// Two sub-explorations, both bounded-exhaustive over their menus:
//   tbl:  routes driven through a real TableManager (insert_route / remove_route from
//         an IPv4 peer, an IPv6 peer and an add-path peer registered with
//         register_peer, exactly the calls PeerSession::rx_update makes), all
//         sequences of <= 2 (thorough: 3) operations over the menu;
//   live: real sessions over loopback TCP (accept_connection + PeerSession::run); the
//         harness plays the remote speaker, so the OPENs really exchanged, the UPDATEs
//         really received and the NOTIFICATIONs really sent are known byte for byte and
//         are compared with the Peer Up / Route Monitoring / Peer Down records, for a
//         station attached before (live events) and after (snapshot path) the session.
//
// Case descriptors (VERIF_REPLAY):
//   tbl:<op>;<op>..   op = i.<peer a|b|c>.<fam>.<nlri>.<path id>.<nh>.<attr> | r.<peer>.<fam>.<nlri>.<path id>
//   live:<peer a (127.0.0.2) | b (::1)>:<remote capability set 0..5>:<remote hold time>:<end n (remote NOTIFICATION)
//        | c (abrupt close) | g (garbage -> local NOTIFICATION)>:<daemon hold time>
// Set VERIF_C19_DEBUG=1 on a replay to dump the BMP stream.

use super::super::*;
use super::common::*;
use crate::verif::vx::enumr;
use crate::verif::vx::report::{Report, Violation};
use std::collections::{BTreeMap, BTreeSet};
use std::net::{IpAddr, Ipv4Addr, Ipv6Addr};

pub(super) mod wire {
    include!(concat!(env!("OSRG_RUSTYBGP_VERIF_DIR"), "/hx/src/wire.rs"));
}
mod mkmsg {
    include!(concat!(env!("OSRG_RUSTYBGP_VERIF_DIR"), "/hx/src/mkmsg.rs"));
}
mod oracle {
    include!(concat!(env!("OSRG_RUSTYBGP_VERIF_DIR"), "/hx/src/c19_oracle.rs"));
}
use oracle::{DownIntent, Finding, Kind, MpIntent, PeerHdrIntent, PeerIntent, RibEntryIntent, UpdateIntent};

const LOCAL_AS: u32 = 65000; // make_global()
fn local_id() -> Ipv4Addr {
    Ipv4Addr::new(10, 0, 0, 254) // make_global()
}

fn viol(domain: &str, f: Finding, case: &str) -> Violation {
    let sig = if f.shape.is_empty() { format!("C19/{domain}/{}", f.clause) } else { format!("C19/{domain}/{}/{}", f.clause, f.shape) };
    Violation { sig, what: f.what, case: case.to_string() }
}
fn viol2(domain: &str, clause: &str, shape: &str, what: String, case: &str) -> Violation {
    viol(domain, Finding { clause: clause.into(), shape: shape.into(), what }, case)
}

// ---------------------------------------------------------------------------
// loopback BMP station
// ---------------------------------------------------------------------------

pub(super) struct Station {
    listener: tokio::net::TcpListener,
    stream: Option<TcpStream>,
    buf: Vec<u8>,
}

impl Station {
    pub(super) async fn new() -> Result<(Station, SocketAddr), String> {
        // SO_REUSEADDR + patience: ports held only by TIME_WAIT entries of earlier explorations may be taken
        let mut tries = 0;
        let listener = loop {
            tries += 1;
            let sock = tokio::net::TcpSocket::new_v4().map_err(|e| e.to_string())?;
            let _ = sock.set_reuseaddr(true);
            match sock.bind("127.0.0.1:0".parse().unwrap()).and_then(|_| sock.listen(8)) {
                Ok(l) => break l,
                Err(e) if e.kind() == std::io::ErrorKind::AddrInUse && tries < 600 => tokio::time::sleep(Duration::from_millis(100)).await,
                Err(e) => return Err(format!("station bind: {e}")),
            }
        };
        let addr = listener.local_addr().map_err(|e| e.to_string())?;
        Ok((Station { listener, stream: None, buf: Vec::new() }, addr))
    }
    pub(super) async fn accept(&mut self) -> Result<(), String> {
        match tokio::time::timeout(WAIT, self.listener.accept()).await {
            Err(_) => Err("station: the BMP client did not connect within the time limit".into()),
            Ok(Err(e)) => Err(format!("station accept: {e}")),
            Ok(Ok((s, _))) => {
                self.stream = Some(s);
                Ok(())
            }
        }
    }
    /// Next message, framed by the common header's length field.
    /// Ok(None) = the client closed the connection.  Err = machinery (timeout).
    pub(super) async fn next(&mut self) -> Result<Option<Vec<u8>>, String> {
        use tokio::io::AsyncReadExt;
        loop {
            if self.buf.len() >= 6 {
                let len = u32::from_be_bytes([self.buf[1], self.buf[2], self.buf[3], self.buf[4]]) as usize;
                if len < 6 {
                    // cannot frame any further: hand out everything, the oracle reports the length
                    let all = std::mem::take(&mut self.buf);
                    return Ok(Some(all));
                }
                if self.buf.len() >= len {
                    let rest = self.buf.split_off(len);
                    let msg = std::mem::replace(&mut self.buf, rest);
                    return Ok(Some(msg));
                }
            }
            let Some(s) = self.stream.as_mut() else { return Ok(None) };
            let mut tmp = [0u8; 16384];
            match tokio::time::timeout(WAIT, s.read(&mut tmp)).await {
                Err(_) => return Err("station: no data from the BMP client within the time limit".into()),
                Ok(Err(_)) | Ok(Ok(0)) => {
                    self.stream = None;
                    if self.buf.is_empty() {
                        return Ok(None);
                    }
                    let all = std::mem::take(&mut self.buf);
                    return Ok(Some(all));
                }
                Ok(Ok(n)) => self.buf.extend_from_slice(&tmp[..n]),
            }
        }
    }
}

pub(super) fn attach_bmp(d_global: &GlobalHandle, d_tables: &TableHandle, addr: SocketAddr, policy: crate::bmp::BmpPolicy) -> CancellationToken {
    // what Global::add_bmp_client + the config / gRPC handlers do
    let client = BmpClient::new();
    let cancel = client.cancel.clone();
    BmpClient::try_connect(addr, cancel.clone(), Arc::clone(&client.state), d_global.clone(), d_tables.clone(), policy);
    cancel
}

/// Wait until the table manager has `n` subscribers (explicit acknowledgement that
/// the BMP client / MRT dumper has subscribed and will see every later event).
pub(super) async fn wait_subscribers(tables: &TableHandle, n: usize, what: &str) -> bool {
    let t0 = std::time::Instant::now();
    loop {
        if tables.bmp_senders().len() >= n {
            return true;
        }
        if t0.elapsed() > WAIT {
            machinery(format!("{what}: subscription did not happen within the time limit"));
            return false;
        }
        tokio::time::sleep(Duration::from_micros(200)).await;
    }
}

static FILE_SEQ: std::sync::atomic::AtomicU64 = std::sync::atomic::AtomicU64::new(0);
fn temp_path(tag: &str) -> std::path::PathBuf {
    let n = FILE_SEQ.fetch_add(1, Ordering::Relaxed);
    std::env::temp_dir().join(format!("verif-c19-{}-{}-{}.mrt", std::process::id(), tag, n))
}

/// Split a file into MRT records by the header length; (records, trailing bytes).
fn mrt_records(b: &[u8]) -> (Vec<Vec<u8>>, usize) {
    let mut out = Vec::new();
    let mut p = 0usize;
    while b.len() - p >= 12 {
        let len = u32::from_be_bytes([b[p + 8], b[p + 9], b[p + 10], b[p + 11]]) as usize;
        if b.len() - p - 12 < len {
            break;
        }
        out.push(b[p..p + 12 + len].to_vec());
        p += 12 + len;
    }
    (out, b.len() - p)
}

// ---------------------------------------------------------------------------
// tbl: routes through a real TableManager
// ---------------------------------------------------------------------------

#[derive(Clone, Debug)]
enum Op {
    Insert { peer: char, fam: usize, nlri: u32, pid: u32, nh: usize, attr: String },
    Remove { peer: char, fam: usize, nlri: u32, pid: u32 },
}

fn parse_ops(s: &str) -> Result<Vec<Op>, String> {
    let mut out = Vec::new();
    for o in s.split(';').filter(|x| !x.is_empty()) {
        let p: Vec<&str> = o.split('.').collect();
        let num = |i: usize| -> Result<u32, String> { p.get(i).and_then(|x| x.parse().ok()).ok_or(format!("bad op {o}")) };
        let peer = p.get(1).and_then(|x| x.chars().next()).ok_or(format!("bad op {o}"))?;
        match p[0] {
            "i" => out.push(Op::Insert { peer, fam: num(2)? as usize, nlri: num(3)?, pid: num(4)?, nh: num(5)? as usize, attr: p.get(6).ok_or(format!("bad op {o}"))?.to_string() }),
            "r" => out.push(Op::Remove { peer, fam: num(2)? as usize, nlri: num(3)?, pid: num(4)? }),
            _ => return Err(format!("bad op {o}")),
        }
    }
    Ok(out)
}

struct PeerDef {
    source: Arc<table::Source>,
    addpath: bool,
}

fn peer_def(c: char) -> Result<PeerDef, String> {
    let mk = |r: &str, l: &str, asn: u32, id: [u8; 4], addpath: bool| PeerDef {
        source: Arc::new(table::Source::new(r.parse().unwrap(), l.parse().unwrap(), asn, LOCAL_AS, Ipv4Addr::from(id), table::PeerRole::Ebgp)),
        addpath,
    };
    match c {
        'a' => Ok(mk("192.0.2.2", "192.0.2.1", 65002, [192, 0, 2, 2], false)),
        'b' => Ok(mk("2001:db8::2", "2001:db8::1", 4_200_000_000, [192, 0, 2, 6], false)),
        'c' => Ok(mk("192.0.2.3", "192.0.2.1", 65003, [192, 0, 2, 3], true)),
        // the IPv6 session of the dual-stack neighbour 'a': same AS, same BGP identifier, another address
        'd' => Ok(mk("2001:db8::22", "2001:db8::1", 65002, [192, 0, 2, 2], false)),
        _ => Err(format!("bad peer {c}")),
    }
}

fn attr_spec(spec: &str) -> Result<(Vec<packet::Attribute>, String), String> {
    if let Some(n) = spec.strip_prefix('s') {
        let n: usize = n.parse().map_err(|_| format!("bad attr spec {spec}"))?;
        let (a, got) = mkmsg::attr_block_of_size(n);
        let class = if got > 4096 { "size>4096" } else if got > 255 { "size<=4096" } else { "size<=255" };
        Ok((a, class.to_string()))
    } else if let Some(i) = spec.strip_prefix('a') {
        let i: usize = i.parse().map_err(|_| format!("bad attr spec {spec}"))?;
        let (name, set) = mkmsg::attribute_sets().get(i).cloned().ok_or("attr set index")?;
        Ok((set, name.split('#').next().unwrap_or("").to_string()))
    } else {
        Err(format!("bad attr spec {spec}"))
    }
}

/// One path of the reference RIB (linear model maintained from the operations).
#[derive(Clone, Debug)]
struct RefPath {
    peer: IpAddr,
    nexthop: Option<bgp::Nexthop>,
    attrs: Vec<packet::Attribute>,
    attr_class: String,
}

fn nlri_key(n: &packet::Nlri) -> String {
    format!("{n:?}")
}

struct Expect {
    hdr: PeerHdrIntent,
    mp: MpIntent,
    it: UpdateIntent,
}

fn run_tbl(case: &str, spec: &str) -> Result<Vec<Violation>, String> {
    let ops = parse_ops(spec)?;
    let rt = runtime();
    let r = rt.block_on(async { tbl_async(case, &ops).await });
    drop(rt);
    r
}

async fn tbl_async(case: &str, ops: &[Op]) -> Result<Vec<Violation>, String> {
    let mut vs: Vec<Violation> = Vec::new();
    let global = make_global();
    let tables = make_tables(2);
    let fams = mkmsg::families();

    // peers: register the add-path peer's channel the way on_established does
    let mut peers: BTreeMap<char, PeerDef> = BTreeMap::new();
    for c in ['a', 'b', 'c', 'd'] {
        peers.insert(c, peer_def(c)?);
    }
    let mut keep_rx = Vec::new();
    for (_, p) in peers.iter() {
        let set: FnvHashSet<Family> = if p.addpath { fams.iter().copied().collect() } else { FnvHashSet::default() };
        keep_rx.push(tables.register_peer(p.source.remote_addr, set, |_| {}));
    }

    // BMP station + client (policy All: Adj-RIB-In pre/post, Adj-RIB-Out, Loc-RIB)
    let (mut station, saddr) = Station::new().await?;
    let bmp_cancel = attach_bmp(&global, &tables, saddr, crate::bmp::BmpPolicy::All);
    station.accept().await?;
    if !wait_subscribers(&tables, 1, "BMP client").await {
        return Ok(vs);
    }
    // MRT updates dumper
    let upd_path = temp_path("upd");
    let file = tokio::fs::File::create(&upd_path).await.map_err(|e| format!("create {upd_path:?}: {e}"))?;
    let mrt_cancel = CancellationToken::new();
    let mut dumper = crate::mrt::MrtDumper::new(upd_path.to_str().unwrap(), 0);
    let (c2, t2) = (mrt_cancel.clone(), tables.clone());
    let mrt_join = tokio::spawn(async move { dumper.serve(file, c2, t2).await.map_err(|e| format!("{e:?}")) });
    if !wait_subscribers(&tables, 2, "MRT dumper").await {
        return Ok(vs);
    }

    // drive the operations; build the expectations and the reference RIB
    let mut expect: Vec<Expect> = Vec::new();
    let mut rib: BTreeMap<(u32, String), (packet::Nlri, BTreeMap<(IpAddr, u32), RefPath>)> = BTreeMap::new();
    let mut candidates_after: Vec<Vec<RefPath>> = Vec::new();
    for (i, op) in ops.iter().enumerate() {
        let (peer, fam, nlri, pid) = match op {
            Op::Insert { peer, fam, nlri, pid, .. } | Op::Remove { peer, fam, nlri, pid } => (*peer, *fam, *nlri, *pid),
        };
        let pd = peers.get(&peer).ok_or("peer")?;
        let family = *fams.get(fam).ok_or("family index")?;
        let n = mkmsg::nlri_nth(family, nlri, false);
        let pid = if pd.addpath { pid } else { 0 };
        let net = packet::PathNlri { path_id: pid, nlri: n.clone() };
        let src = pd.source.clone();
        let hdr = PeerHdrIntent { peer_type: 0, flags: 0, addr: src.remote_addr, asn: src.remote_asn, bgp_id: src.router_id };
        let mp = MpIntent { remote_as: src.remote_asn, local_as: src.local_asn, remote_addr: src.remote_addr, local_addr: src.local_addr };
        let key = ((family.afi() as u32) << 8 | family.safi() as u32, nlri_key(&n));
        match op {
            Op::Insert { nh, attr, .. } => {
                let nexthop = mkmsg::nexthops(family).get(*nh).ok_or("nexthop index")?.nexthop;
                let (attrs, attr_class) = attr_spec(attr)?;
                let it = UpdateIntent { family, kind: Kind::Reach, entries: vec![net.clone()], nexthop, attrs: attrs.clone(), addpath: pd.addpath, attr_class: attr_class.clone() };
                expect.push(Expect { hdr, mp, it });
                // exactly the call of PeerSession::rx_update
                let limit = tables.insert_route(src.clone(), family, net, nexthop, Arc::new(attrs.clone()), None, 1000 + i as u32);
                if limit {
                    return Err("insert_route reported a prefix limit".into());
                }
                rib.entry(key.clone()).or_insert_with(|| (n.clone(), BTreeMap::new())).1.insert((src.remote_addr, pid), RefPath { peer: src.remote_addr, nexthop, attrs, attr_class });
            }
            Op::Remove { .. } => {
                let it = UpdateIntent { family, kind: Kind::Unreach, entries: vec![net.clone()], nexthop: None, attrs: vec![], addpath: pd.addpath, attr_class: "none".into() };
                expect.push(Expect { hdr, mp, it });
                tables.remove_route(src.clone(), family, net, None, 1000 + i as u32);
                if let Some(e) = rib.get_mut(&key) {
                    e.1.remove(&(src.remote_addr, pid));
                }
            }
        }
        candidates_after.push(rib.get(&key).map(|e| e.1.values().cloned().collect()).unwrap_or_default());
    }
    // sentinel: a Peer Up event travels the same channel after everything above
    let sentinel: IpAddr = "198.51.100.99".parse().unwrap();
    let s_sent = bgp::Open { as_number: LOCAL_AS, holdtime: HoldTime::new(90).unwrap(), router_id: u32::from(local_id()), capability: vec![packet::Capability::MultiProtocol(Family::IPV4), packet::Capability::FourOctetAsNumber(LOCAL_AS)] };
    let s_recv = bgp::Open { as_number: 65099, holdtime: HoldTime::new(30).unwrap(), router_id: 0xc633_6463, capability: vec![packet::Capability::MultiProtocol(Family::IPV4), packet::Capability::FourOctetAsNumber(65099)] };
    tables.peer_up(PeerUpData {
        peer_addr: sentinel,
        peer_asn: 65099,
        peer_id: 0xc633_6463,
        uptime: 7,
        local_addr: "198.51.100.1".parse().unwrap(),
        local_port: 179,
        remote_port: 40001,
        sent_open: bgp::Message::Open(s_sent.clone()),
        received_open: bgp::Message::Open(s_recv.clone()),
    });

    // ---- BMP stream ----
    let mut msgs: Vec<Vec<u8>> = Vec::new();
    let mut got_sentinel = false;
    loop {
        match station.next().await {
            Err(e) => {
                machinery(e);
                break;
            }
            Ok(None) => break,
            Ok(Some(m)) => {
                let is_sentinel = m.len() > 48 && m[5] == wire::BMP_PEER_UP && m[6 + 10 + 12..6 + 10 + 16] == [198, 51, 100, 99];
                msgs.push(m);
                if is_sentinel {
                    got_sentinel = true;
                    break;
                }
            }
        }
    }
    if std::env::var("VERIF_C19_DEBUG").is_ok() {
        for (i, m) in msgs.iter().enumerate() {
            eprintln!("debug: bmp msg {i}: type {} len {} peer-type {:?} flags {:?} :: {}", m.get(5).copied().unwrap_or(255), m.len(), m.get(6), m.get(7), oracle::hexs(m));
        }
    }
    // first message: Initiation (content comes from the build / host: structure only)
    let mut idx = 0usize;
    match msgs.first().map(|m| oracle::bmp_read(m)) {
        Some(Ok(m)) if matches!(m.body, wire::BmpBody::Initiation { .. }) => idx = 1,
        Some(Ok(m)) => vs.push(viol2("bmp", "initiation-missing", "", format!("the first message of the session has type {}", m.msg_type), case)),
        Some(Err(f)) => vs.push(viol("bmp", f, case)),
        None => vs.push(viol2("bmp", "initiation-missing", "", "no message at all".into(), case)),
    }
    // policy All monitors the Loc-RIB: Peer Up of the RFC 9069 virtual peer (loc_rib_peer_up)
    if let Some(m) = msgs.get(idx) {
        if m.len() > 7 && m[5] == wire::BMP_PEER_UP && m[6] == 3 {
            idx += 1;
            let hdr = PeerHdrIntent { peer_type: 3, flags: 0, addr: IpAddr::V4(Ipv4Addr::UNSPECIFIED), asn: LOCAL_AS, bgp_id: u32::from(local_id()) };
            let o = bgp::Open { as_number: LOCAL_AS, holdtime: HoldTime::DISABLED, router_id: u32::from(local_id()), capability: vec![] };
            for f in oracle::check_peer_up(m, &hdr, IpAddr::V4(Ipv4Addr::UNSPECIFIED), 0, 0, &o, &o) {
                vs.push(viol("bmp", f, case));
            }
        } else {
            vs.push(viol2("bmp", "record-missing", "loc-rib-peer-up", "no Peer Up for the Loc-RIB instance peer before its Route Monitoring records".into(), case));
        }
    }
    // then per operation: pre-policy RM, post-policy RM, optionally one Loc-RIB RM
    let mut broken = false;
    for (i, e) in expect.iter().enumerate() {
        for post in [false, true] {
            let Some(m) = msgs.get(idx) else {
                if !broken {
                    vs.push(viol2("bmp", "record-missing", &e.it.shape(), format!("operation {i}: the {} Route Monitoring record never arrived (stream ended after {} messages, sentinel seen: {got_sentinel})", if post { "post-policy" } else { "pre-policy" }, msgs.len()), case));
                }
                broken = true;
                break;
            };
            idx += 1;
            let mut hdr = e.hdr.clone();
            hdr.flags = if post { 0x40 } else { 0 };
            for f in oracle::check_route_monitoring(m, &hdr, &e.it) {
                vs.push(viol("bmp", f, case));
            }
        }
        if broken {
            break;
        }
        // optional Loc-RIB record (peer type 3) for this operation's prefix
        if let Some(m) = msgs.get(idx) {
            if m.len() > 6 && m[5] == wire::BMP_ROUTE_MONITORING && m.get(6) == Some(&3) {
                idx += 1;
                vs.extend(check_loc_rib(m, &e.it, &candidates_after[i], case));
            }
        }
    }
    if !broken {
        // the sentinel Peer Up must be next and last
        match msgs.get(idx) {
            Some(m) if got_sentinel && idx + 1 == msgs.len() => {
                let hdr = PeerHdrIntent { peer_type: 0, flags: 0, addr: sentinel, asn: 65099, bgp_id: 0xc633_6463 };
                for f in oracle::check_peer_up(m, &hdr, "198.51.100.1".parse().unwrap(), 179, 40001, &s_sent, &s_recv) {
                    vs.push(viol("bmp", f, case));
                }
            }
            _ => {
                if take_machinery().is_none() {
                    vs.push(viol2("bmp", "unexpected-record", "", format!("{} message(s) where the sentinel Peer Up was expected (index {idx} of {}, sentinel seen: {got_sentinel})", msgs.len().saturating_sub(idx), msgs.len()), case));
                }
            }
        }
    }

    // ---- MRT updates file: one BGP4MP record per operation ----
    let t0 = std::time::Instant::now();
    let recs = loop {
        let b = std::fs::read(&upd_path).unwrap_or_default();
        let (recs, _) = mrt_records(&b);
        if recs.len() >= expect.len() || mrt_join.is_finished() {
            // re-read once after the task finished so that nothing is missed
            let b = std::fs::read(&upd_path).unwrap_or_default();
            break mrt_records(&b).0;
        }
        if t0.elapsed() > WAIT {
            machinery("MRT dumper: the records did not reach the file within the time limit".into());
            break recs;
        }
        tokio::time::sleep(Duration::from_micros(300)).await;
    };
    for (i, e) in expect.iter().enumerate() {
        match recs.get(i) {
            None => {
                vs.push(viol2("mrt", "record-missing", &e.it.shape(), format!("operation {i}: no BGP4MP record in the file ({} records; dumper task finished: {})", recs.len(), mrt_join.is_finished()), case));
                break;
            }
            Some(r) => {
                for f in oracle::check_bgp4mp(r, &e.mp, Some(&e.it), None) {
                    vs.push(viol("mrt", f, case));
                }
            }
        }
    }
    if recs.len() > expect.len() {
        vs.push(viol2("mrt", "unexpected-record", "", format!("{} records for {} operations", recs.len(), expect.len()), case));
    }

    // ---- MRT table dump of the final RIB ----
    let dump_path = temp_path("dump");
    let mut dfile = tokio::fs::File::create(&dump_path).await.map_err(|e| format!("create {dump_path:?}: {e}"))?;
    let dres = crate::mrt::dump_table(local_id(), &tables, &mut dfile).await;
    {
        use tokio::io::AsyncWriteExt;
        let _ = dfile.flush().await;
    }
    drop(dfile);
    if let Err(e) = dres {
        vs.push(viol2("mrt", "dump-fails", "", format!("dump_table returned {e:?}"), case));
    } else {
        let b = std::fs::read(&dump_path).unwrap_or_default();
        let defs: Vec<&PeerDef> = peers.values().collect();
        vs.extend(check_dump(&b, &rib, &defs, case));
    }

    bmp_cancel.cancel();
    mrt_cancel.cancel();
    let _ = tokio::time::timeout(WAIT, mrt_join).await;
    let _ = std::fs::remove_file(&upd_path);
    let _ = std::fs::remove_file(&dump_path);
    drop(keep_rx);
    Ok(vs)
}

/// A Loc-RIB Route Monitoring record (RFC 9069) emitted for the prefix of `it`:
/// structure, one PDU, and the content must be one of the paths the RIB holds for
/// that prefix (or a withdrawal).
fn check_loc_rib(m: &[u8], it: &UpdateIntent, candidates: &[RefPath], case: &str) -> Vec<Violation> {
    let hdr = PeerHdrIntent { peer_type: 3, flags: 0, addr: IpAddr::V4(Ipv4Addr::UNSPECIFIED), asn: LOCAL_AS, bgp_id: u32::from(local_id()) };
    let entries = vec![packet::PathNlri { path_id: 0, nlri: it.entries[0].nlri.clone() }];
    let withdraw = UpdateIntent { family: it.family, kind: Kind::Unreach, entries: entries.clone(), nexthop: None, attrs: vec![], addpath: false, attr_class: "none".into() };
    // which kind of UPDATE does the record carry?  (independent reader; first PDU)
    let is_withdraw = match oracle::bmp_read(m) {
        Ok(wire::BmpMsg { body: wire::BmpBody::RouteMonitoring { pdus }, .. }) => pdus.first().is_some_and(|sp| match wire::read_frame(sp.of(m), 65535) {
            Ok(wire::Frame { body: wire::Body::Update(u), .. }) => u.withdrawn.len > 0 || (u.mp_unreach.is_some() && u.mp_reach.is_none()),
            _ => false,
        }),
        _ => false,
    };
    let mut best: Option<Vec<Finding>> = None;
    if is_withdraw || candidates.is_empty() {
        best = Some(oracle::check_route_monitoring(m, &hdr, &withdraw));
    } else {
        for c in candidates {
            let reach = UpdateIntent { family: it.family, kind: Kind::Reach, entries: entries.clone(), nexthop: c.nexthop, attrs: c.attrs.clone(), addpath: false, attr_class: c.attr_class.clone() };
            let fs = oracle::check_route_monitoring(m, &hdr, &reach);
            if best.as_ref().is_none_or(|b| fs.len() < b.len()) {
                best = Some(fs);
            }
        }
    }
    best.unwrap_or_default().into_iter().map(|mut f| {
        f.what = format!("Loc-RIB record: {}", f.what);
        viol("bmp", f, case)
    }).collect()
}

/// TABLE_DUMP_V2 file against the reference RIB.
fn check_dump(b: &[u8], rib: &BTreeMap<(u32, String), (packet::Nlri, BTreeMap<(IpAddr, u32), RefPath>)>, defs: &[&PeerDef], case: &str) -> Vec<Violation> {
    let mut vs = Vec::new();
    let (recs, trailing) = mrt_records(b);
    if trailing != 0 {
        vs.push(viol2("mrt", "length-mismatch", "dump-file", format!("{trailing} byte(s) at the end of the dump do not form a record"), case));
    }
    let Some(first) = recs.first() else {
        vs.push(viol2("mrt", "record-missing", "peer-index-table", "empty dump file".into(), case));
        return vs;
    };
    // PEER_INDEX_TABLE: read it; its content is checked through the entries that refer to it
    let peers: Vec<wire::MrtPeerEntry> = match wire::read_mrt(first) {
        Ok(wire::MrtRecord { body: wire::MrtBody::PeerIndexTable { peers, collector_id, .. }, .. }) => {
            if collector_id != u32::from(local_id()) {
                vs.push(viol2("mrt", "peer-index-header", "", format!("collector id {collector_id:#x}"), case));
            }
            peers
        }
        Ok(_) => {
            vs.push(viol2("mrt", "record-missing", "peer-index-table", "the dump does not start with a PEER_INDEX_TABLE".into(), case));
            return vs;
        }
        Err(e) => {
            vs.push(viol2("mrt", "malformed", "13/1", e, case));
            return vs;
        }
    };
    if let Err(f) = oracle::mrt_len_check(first) {
        vs.push(viol("mrt", f, case));
    }
    // every peer entry: type bit <=> address length is enforced by the reader; AS width bit
    let mut seen_prefix: BTreeSet<(u32, String)> = BTreeSet::new();
    for r in &recs[1..] {
        let rec = match wire::read_mrt(r) {
            Ok(x) => x,
            Err(e) => {
                vs.push(viol2("mrt", "malformed", "rib", e, case));
                continue;
            }
        };
        let wire::MrtBody::Rib { afi, safi, prefix_bits, prefix, entries, seq, .. } = &rec.body else {
            vs.push(viol2("mrt", "unexpected-record", "dump", format!("type {} subtype {}", rec.mrt_type, rec.subtype), case));
            continue;
        };
        // find the reference prefix with these bits
        let fkey = (*afi as u32) << 8 | *safi as u32;
        let hit = rib.iter().find(|(k, v)| k.0 == fkey && oracle::prefix_wire(&v.0).is_some_and(|(b, p, _)| b == *prefix_bits && p == *prefix));
        let Some((k, (nlri, paths))) = hit else {
            vs.push(viol2("mrt", "rib-prefix-differs", "unknown-prefix", format!("RIB record for AFI {afi} prefix {}/{prefix_bits} which the RIB does not hold", oracle::hexs(prefix)), case));
            continue;
        };
        if !seen_prefix.insert(k.clone()) {
            vs.push(viol2("mrt", "entry-count", "duplicate-prefix-record", format!("two RIB records for {nlri:?}"), case));
        }
        // the reference paths as entry intents, each with the peer index the table assigns to its peer
        let mut want: Vec<(RibEntryIntent, IpAddr)> = Vec::new();
        for p in paths.values() {
            let ab: Vec<u8> = match p.peer {
                IpAddr::V4(a) => a.octets().to_vec(),
                IpAddr::V6(a) => a.octets().to_vec(),
            };
            let idx = peers.iter().position(|e| e.addr == ab);
            match idx {
                None => vs.push(viol2("mrt", "peer-index-out-of-range", "peer-not-in-table", format!("a path of {nlri:?} comes from {} which the PEER_INDEX_TABLE ({} entries) does not list", p.peer, peers.len()), case)),
                Some(i) => want.push((RibEntryIntent { peer_index: i as u16, nexthop: p.nexthop, attrs: p.attrs.clone(), attr_class: p.attr_class.clone() }, p.peer)),
            }
        }
        if entries.len() != want.len() {
            vs.push(viol2("mrt", "entry-count", if *afi == 1 { "ipv4" } else { "ipv6" }, format!("{nlri:?}: the record has {} entries, the RIB holds {} paths", entries.len(), want.len()), case));
            continue;
        }
        // order in the record = preference order; match entries to paths greedily by fewest findings
        let mut order: Vec<RibEntryIntent> = Vec::new();
        let mut pool = want.clone();
        for e in entries {
            let pos = pool.iter().position(|(w, _)| w.peer_index == e.peer_index).unwrap_or(0);
            if pool.is_empty() {
                break;
            }
            order.push(pool.remove(pos).0);
        }
        // add-path peers contribute several entries with the same index: try both orders of equal-index runs
        let mut fs = oracle::check_rib(r, *seq, nlri, &order, Some(peers.len()));
        if !fs.is_empty() && order.len() > 1 {
            let mut alt = order.clone();
            alt.reverse();
            let fs2 = oracle::check_rib(r, *seq, nlri, &alt, Some(peers.len()));
            if fs2.len() < fs.len() {
                fs = fs2;
            }
        }
        for f in fs {
            vs.push(viol("mrt", f, case));
        }
    }
    // every IPv4 / IPv6 unicast prefix with paths has its record
    for (k, (nlri, paths)) in rib {
        if (k.0 == (1 << 8 | 1) || k.0 == (2 << 8 | 1)) && !paths.is_empty() && !seen_prefix.contains(k) {
            vs.push(viol2("mrt", "record-missing", "rib", format!("no RIB record for {nlri:?} ({} paths)", paths.len()), case));
        }
    }
    // peer entries: address family bit, AS and BGP id as an RFC reader sees them
    for (i, e) in peers.iter().enumerate() {
        let hit = defs.iter().find(|d| match d.source.remote_addr {
            IpAddr::V4(a) => e.addr == a.octets().to_vec(),
            IpAddr::V6(a) => e.addr == a.octets().to_vec(),
        });
        match hit {
            None => vs.push(viol2("mrt", "afi-address-mismatch", "peer-index-entry", format!("entry {i}: address {} (type {:#x}) belongs to no peer that contributed a path", oracle::hexs(&e.addr), e.peer_type), case)),
            Some(d) => {
                if e.asn != d.source.remote_asn || e.bgp_id != d.source.router_id {
                    vs.push(viol2("mrt", "subtype-as-width", "peer-index-entry", format!("entry {i}: an RFC reader sees AS {} id {:#x}; the peer has AS {} id {:#x}", e.asn, e.bgp_id, d.source.remote_asn, d.source.router_id), case));
                }
            }
        }
    }
    vs
}

// ---------------------------------------------------------------------------
// enumeration
// ---------------------------------------------------------------------------

fn tbl_menu(thorough: bool) -> Vec<String> {
    let fams = mkmsg::families();
    let mut m = Vec::new();
    let attrs: Vec<&str> = if thorough { vec!["s13", "s300", "s4066", "s5000"] } else { vec!["s13", "s300", "s5000"] };
    for peer in ['a', 'b', 'c'] {
        for fi in [0usize, 1] {
            let f = fams[fi];
            for (nh, c) in mkmsg::nexthops(f).iter().enumerate() {
                // an IPv6 next hop for an IPv4 family needs RFC 8950, which the daemon only
                // negotiates on IPv6 sessions
                if c.needs_ext_nh && peer != 'b' {
                    continue;
                }
                for a in &attrs {
                    m.push(format!("i.{peer}.{fi}.7.1.{nh}.{a}"));
                }
            }
            m.push(format!("r.{peer}.{fi}.7.1"));
        }
    }
    // a second path id of the add-path peer and a second prefix
    m.push("i.c.0.7.2.0.s13".into());
    m.push("i.c.1.7.2.0.s300".into());
    m.push("r.c.0.7.2".into());
    m.push("i.a.0.8.1.0.s13".into());
    m
}

fn tbl_cases(thorough: bool) -> Vec<String> {
    let menu = tbl_menu(thorough);
    let mut c = Vec::new();
    for a in &menu {
        c.push(format!("tbl:{a}"));
    }
    for a in &menu {
        if a.starts_with('r') {
            continue; // a removal first does nothing new
        }
        for b in &menu {
            c.push(format!("tbl:{a};{b}"));
        }
    }
    if thorough {
        // three operations over the core of the menu (base attributes, every peer / family / next hop)
        let core: Vec<&String> = menu.iter().filter(|x| x.starts_with('r') || x.ends_with("s13")).collect();
        for a in &core {
            if a.starts_with('r') {
                continue;
            }
            for b in &core {
                for d in &core {
                    c.push(format!("tbl:{a};{b};{d}"));
                }
            }
        }
    }
    // two sessions of one router (same BGP identifier, different addresses): each path belongs to its own session
    for second in ["i.d.1.7.1.0.s13", "i.d.0.7.1.0.s13", "i.d.0.8.1.0.s300"] {
        c.push(format!("tbl:i.a.0.7.1.0.s13;{second}"));
        c.push(format!("tbl:{second};i.a.0.7.1.0.s13"));
        c.push(format!("tbl:i.a.0.7.1.0.s13;{second};r.a.0.7.1"));
    }
    // every other family: insert, insert + remove, for the plain and the add-path peer
    let fams = mkmsg::families();
    for (fi, f) in fams.iter().enumerate().skip(2) {
        for peer in ['a', 'b', 'c'] {
            for (nh, cse) in mkmsg::nexthops(*f).iter().enumerate() {
                if cse.needs_ext_nh && peer != 'b' {
                    continue;
                }
                c.push(format!("tbl:i.{peer}.{fi}.7.1.{nh}.s13"));
                c.push(format!("tbl:i.{peer}.{fi}.7.1.{nh}.s300;r.{peer}.{fi}.7.1"));
                c.push(format!("tbl:i.{peer}.{fi}.7.1.{nh}.s5000"));
            }
        }
    }
    c
}

fn eval_case(case: &str) -> Result<Vec<Violation>, String> {
    if let Some(spec) = case.strip_prefix("tbl:") {
        return run_tbl(case, spec);
    }
    if let Some(spec) = case.strip_prefix("live:") {
        return live::run_live(case, spec);
    }
    Err(format!("unknown case {case}"))
}

pub(crate) fn run(replay: Option<&str>) -> Report {
    let mut rep = Report::new("C19", "hd-c19");
    rep.rule = "one case = one scenario against the daemon's own BMP client / MRT dumpers: (tbl) a sequence of insert_route / remove_route calls on a real TableManager observed by a loopback BMP station (policy All), the MRT updates dumper and a final table dump; \
        (live) one real session over loopback TCP observed by BMP stations attached before and after it; every emitted record is judged by the packet-level oracle against what was driven / really exchanged; \
        distinct = distinct scenarios (operation sequences / session parameters)"
        .to_string();
    if let Some(case) = replay {
        match eval_case(case) {
            Ok(vs) => {
                for v in &vs {
                    eprintln!("replay: {} :: {}", v.sig, v.what);
                }
                if vs.is_empty() {
                    eprintln!("replay: case {case}: every emitted record satisfies every clause");
                }
                rep.evaluations = 1;
                rep.violations_from(vs);
            }
            Err(e) => rep.machinery_error = Some(e),
        }
        if let Some(m) = take_machinery() {
            rep.machinery_error = Some(m);
        }
        return rep;
    }
    let thorough = rep.thorough();
    let mach: std::sync::Mutex<Option<String>> = std::sync::Mutex::new(None);
    let groups: Vec<(&str, Vec<String>)> = vec![("tbl (TableManager -> BMP station / MRT updates / table dump)", tbl_cases(thorough)), ("live (real sessions -> BMP stations before / after)", live::live_cases(thorough))];
    let mut distinct = 0u64;
    for (name, cases) in groups {
        let mut sub = Report::new("C19", "hd-c19");
        let set: BTreeSet<&String> = cases.iter().collect();
        distinct += set.len() as u64;
        enumr::par_range(cases.len() as u64, &mut sub, |i, local| {
            let case = &cases[i as usize];
            match eval_case(case) {
                Err(e) => {
                    let mut m = mach.lock().unwrap();
                    if m.is_none() {
                        *m = Some(format!("{case}: {e}"));
                    }
                }
                Ok(vs) => {
                    local.evaluations += 1;
                    if vs.is_empty() {
                        local.add("ok", 1);
                    }
                    local.sample(i, || case.clone());
                    local.violations_from(vs);
                }
            }
        });
        let ok = sub.extra.get("ok").copied().unwrap_or(0);
        rep.notes.push(format!("{name}: {} scenarios, {} with every record satisfying every clause, {} violation signature(s)", sub.evaluations, ok, sub.violations.len()));
        sub.extra.clear();
        rep.merge(sub);
    }
    rep.distinct_nontrivial = distinct;
    if let Some(m) = mach.into_inner().unwrap() {
        rep.machinery_error = Some(m);
    }
    if let Some(m) = take_machinery() {
        rep.machinery_error = Some(m);
    }
    rep.notes.push("assume: the add-path setting a station applies to a Route Monitoring record is the one negotiated for the monitored session and family (RFC 7854 has no per-record add-path flag; a station learns it from the Peer Up OPENs)".into());
    rep.exhaustive = true;
    rep
}

// ---------------------------------------------------------------------------
// live: real sessions
// ---------------------------------------------------------------------------

mod live {
    use super::*;

    /// capability sets of the remote speaker (the harness); every one is accepted by the daemon
    fn remote_caps(i: usize, asn: u32) -> Option<(&'static str, Vec<packet::Capability>)> {
        use packet::Capability as C;
        let v4 = C::MultiProtocol(Family::IPV4);
        let v6 = C::MultiProtocol(Family::IPV6);
        Some(match i {
            0 => ("plain", vec![v4, v6, C::FourOctetAsNumber(asn)]),
            1 => ("ext-msg", vec![v4, v6, C::RouteRefresh, C::FourOctetAsNumber(asn), C::ExtendedMessage]),
            2 => ("addpath", vec![v4, v6, C::FourOctetAsNumber(asn), C::AddPath(vec![(Family::IPV4, 2), (Family::IPV6, 3)])]),
            3 => ("as2", vec![v4, v6]),
            4 => ("ext-nh", vec![v4, v6, C::ExtendedNexthop(vec![(Family::IPV4, Family::AFI_IP6)]), C::FourOctetAsNumber(asn), C::ExtendedMessage]),
            5 => (
                "all-kinds",
                vec![
                    v4,
                    v6,
                    C::RouteRefresh,
                    C::ExtendedMessage,
                    C::GracefulRestart { flags: 0x4, restart_time: 120, families: vec![(Family::IPV4, 0x80), (Family::IPV6, 0x80)] },
                    C::FourOctetAsNumber(asn),
                    C::EnhancedRouteRefresh,
                    C::LongLivedGracefulRestart(vec![(Family::IPV4, 0x80, 86400)]),
                    C::Fqdn { hostname: "rtr1".into(), domain: "example.net".into() },
                    C::Unknown { code: 200, bin: vec![1, 2, 3] },
                ],
            ),
            _ => return None,
        })
    }
    const N_CAPS: usize = 6;

    pub(super) fn live_cases(thorough: bool) -> Vec<String> {
        let mut c = Vec::new();
        let holds: Vec<u16> = if thorough { vec![0, 3, 90, 65535] } else { vec![0, 90] };
        for peer in ['a', 'b'] {
            for caps in 0..N_CAPS {
                for hold in &holds {
                    for end in ['n', 'c', 'g'] {
                        for dh in [180u64, 30] {
                            if !thorough && dh == 30 && end != 'n' {
                                continue;
                            }
                            c.push(format!("live:{peer}:{caps}:{hold}:{end}:{dh}"));
                        }
                    }
                }
            }
        }
        c
    }

    pub(super) fn run_live(case: &str, spec: &str) -> Result<Vec<Violation>, String> {
        let p: Vec<&str> = spec.split(':').collect();
        if p.len() != 5 {
            return Err(format!("bad case {case}"));
        }
        let peer = p[0].chars().next().unwrap_or('?');
        let caps: usize = p[1].parse().map_err(|_| "caps")?;
        let hold: u16 = p[2].parse().map_err(|_| "hold")?;
        let end = p[3].chars().next().unwrap_or('?');
        let dh: u64 = p[4].parse().map_err(|_| "daemon hold")?;
        let rt = runtime();
        let r = rt.block_on(async { live_async(case, peer, caps, hold, end, dh).await });
        drop(rt);
        r
    }

    fn sentinel_addr(k: u8) -> IpAddr {
        IpAddr::V4(Ipv4Addr::new(198, 51, 100, 90 + k))
    }
    fn sentinel_opens() -> (bgp::Open, bgp::Open) {
        (
            bgp::Open { as_number: LOCAL_AS, holdtime: HoldTime::new(90).unwrap(), router_id: u32::from(local_id()), capability: vec![] },
            bgp::Open { as_number: 65099, holdtime: HoldTime::new(30).unwrap(), router_id: 0xc633_6463, capability: vec![] },
        )
    }
    fn send_sentinel(tables: &TableHandle, k: u8) {
        let (s, r) = sentinel_opens();
        tables.peer_up(PeerUpData {
            peer_addr: sentinel_addr(k),
            peer_asn: 65099,
            peer_id: 0xc633_6463,
            uptime: 7,
            local_addr: "198.51.100.1".parse().unwrap(),
            local_port: 179,
            remote_port: 40001,
            sent_open: bgp::Message::Open(s),
            received_open: bgp::Message::Open(r),
        });
    }
    fn is_sentinel(m: &[u8], k: u8) -> bool {
        m.len() > 48 && m[5] == wire::BMP_PEER_UP && m[6 + 10 + 12..6 + 10 + 16] == [198, 51, 100, 90 + k]
    }

    /// Read the station's stream up to (excluding) sentinel `k`.  Err = machinery.
    async fn until_sentinel(st: &mut Station, k: u8) -> Result<(Vec<Vec<u8>>, bool), String> {
        let mut out = Vec::new();
        loop {
            match st.next().await? {
                None => return Ok((out, false)),
                Some(m) => {
                    if is_sentinel(&m, k) {
                        return Ok((out, true));
                    }
                    // sentinels of earlier phases that this station also receives
                    if (0..k).any(|j| is_sentinel(&m, j)) {
                        continue;
                    }
                    out.push(m);
                }
            }
        }
    }

    struct Sent {
        hdr_addr: IpAddr,
        it: UpdateIntent,
    }

    fn per_peer_of(m: &[u8]) -> Option<(u8, u8)> {
        if m.len() > 7 && matches!(m[5], 0 | 2 | 3) {
            Some((m[6], m[7]))
        } else {
            None
        }
    }

    /// Match the Adj-RIB-In Route Monitoring records in `msgs` (pre- and post-policy)
    /// against the routes the remote speaker really sent.  Records of the Loc-RIB
    /// peer and Adj-RIB-Out records are checked for structure only.
    #[allow(clippy::too_many_arguments)]
    fn match_rms(msgs: &[Vec<u8>], sent: &[Sent], eors: &[Family], hdr: &PeerHdrIntent, snapshot: bool, what: &str, case: &str, vs: &mut Vec<Violation>) {
        let mut pool: Vec<(bool, usize)> = Vec::new(); // (post, index into sent)
        for post in [false, true] {
            for i in 0..sent.len() {
                pool.push((post, i));
            }
        }
        let mut eor_pool: Vec<(bool, Family)> = Vec::new();
        if snapshot {
            for post in [false, true] {
                for f in eors {
                    eor_pool.push((post, *f));
                }
            }
        }
        for m in msgs {
            if m.len() < 8 || m[5] != wire::BMP_ROUTE_MONITORING {
                continue;
            }
            let (ptype, flags) = (m[6], m[7]);
            if ptype == 3 || flags & 0x10 != 0 {
                // Loc-RIB / Adj-RIB-Out view: content depends on best-path selection and export
                // processing (other properties); here: length, header, exactly one PDU that parses
                match oracle::bmp_read(m) {
                    Err(f) => vs.push(viol("bmp", f, case)),
                    Ok(msg) => {
                        if let wire::BmpBody::RouteMonitoring { pdus } = &msg.body {
                            if pdus.len() != 1 {
                                vs.push(viol2("bmp", "multiple-pdus-in-record", "", format!("{what}: {} PDUs in a Loc-RIB / Adj-RIB-Out record", pdus.len()), case));
                            }
                        }
                    }
                }
                continue;
            }
            let post = flags & 0x40 != 0;
            let mut h = hdr.clone();
            h.flags = if post { 0x40 } else { 0 };
            // best-matching remaining expectation
            let mut best: Option<(usize, bool, Vec<Finding>)> = None; // (pool index, is_eor, findings)
            for (pi, (ppost, si)) in pool.iter().enumerate() {
                if *ppost != post {
                    continue;
                }
                let fs = oracle::check_route_monitoring(m, &h, &sent[*si].it);
                if best.as_ref().is_none_or(|b| fs.len() < b.2.len()) {
                    best = Some((pi, false, fs));
                }
            }
            for (pi, (ppost, f)) in eor_pool.iter().enumerate() {
                if *ppost != post {
                    continue;
                }
                let it = UpdateIntent { family: *f, kind: Kind::Eor, entries: vec![], nexthop: None, attrs: vec![], addpath: false, attr_class: "none".into() };
                let fs = oracle::check_route_monitoring(m, &h, &it);
                if best.as_ref().is_none_or(|b| fs.len() < b.2.len()) {
                    best = Some((pi, true, fs));
                }
            }
            match best {
                None => vs.push(viol2("bmp", "unexpected-record", "route-monitoring", format!("{what}: a Route Monitoring record that corresponds to nothing the peer sent"), case)),
                Some((pi, is_eor, fs)) => {
                    if is_eor {
                        eor_pool.remove(pi);
                    } else {
                        pool.remove(pi);
                    }
                    for mut f in fs {
                        f.what = format!("{what}: {}", f.what);
                        vs.push(viol("bmp", f, case));
                    }
                }
            }
        }
        for (post, si) in pool {
            vs.push(viol2("bmp", "record-missing", &sent[si].it.shape(), format!("{what}: no {} Route Monitoring record for {:?}", if post { "post-policy" } else { "pre-policy" }, sent[si].it.entries.first()), case));
        }
        for (post, f) in eor_pool {
            vs.push(viol2("bmp", "record-missing", "snapshot-eor", format!("{what}: no {} End-of-RIB record for {:?}", if post { "post-policy" } else { "pre-policy" }, f), case));
        }
        let _ = sent.first().map(|s| s.hdr_addr);
    }

    async fn live_async(case: &str, peer: char, caps_i: usize, hold: u16, end: char, dh: u64) -> Result<Vec<Violation>, String> {
        let mut vs: Vec<Violation> = Vec::new();
        let from: IpAddr = match peer {
            'a' => IpAddr::V4(Ipv4Addr::new(127, 0, 0, 2)),
            'b' => IpAddr::V6(Ipv6Addr::LOCALHOST),
            _ => return Err(format!("bad peer {peer}")),
        };
        let remote_asn: u32 = if caps_i == 3 { 65002 } else if peer == 'b' { 4_200_000_000 } else { 65002 };
        let remote_id: u32 = 0xc000_0202;
        let (cap_name, caps) = remote_caps(caps_i, remote_asn).ok_or("caps index")?;
        let d = Daemon::new(2);
        {
            let mut params = default_peer_params(from);
            params.passive = true;
            params.holdtime = dh;
            // both unicast families, add-path receive
            params.families.insert(Family::IPV4, 1);
            params.families.insert(Family::IPV6, 1);
            d.global.write().await.add_peer(params, None).map_err(|e| format!("add_peer: {e:?}"))?;
        }
        // station 1: attached before the session
        let (mut st1, a1) = Station::new().await?;
        let c1 = attach_bmp(&d.global, &d.tables, a1, crate::bmp::BmpPolicy::All);
        st1.accept().await?;
        if !wait_subscribers(&d.tables, 1, "BMP client 1").await {
            return Ok(vs);
        }

        // the session
        let Some(mut conn) = connect(&d, from, crate::fsm::Role::Passive).await? else {
            return Err("the daemon refused the connection of a configured peer".into());
        };
        let my_open = bgp::Open { as_number: remote_asn, holdtime: HoldTime::new(hold).ok_or("hold")?, router_id: remote_id, capability: caps.clone() };
        if !conn.establish(remote_asn, remote_id, hold, caps.clone()).await? {
            return Err(format!("session with capability set {cap_name} was not established"));
        }
        let daemon_open = conn.daemon_open.clone().ok_or("no OPEN from the daemon")?;
        let local_addr: IpAddr = match from {
            IpAddr::V4(_) => IpAddr::V4(Ipv4Addr::new(127, 0, 0, 1)),
            IpAddr::V6(_) => IpAddr::V6(Ipv6Addr::LOCALHOST),
        };

        // what the codec pair negotiated (RFC 7911 / 8950 / 8654), from the OPENs really exchanged
        let ap = |f: Family| -> bool {
            let l = daemon_open.capability.iter().any(|c| matches!(c, packet::Capability::AddPath(v) if v.iter().any(|(ff, m)| *ff == f && m & 1 != 0)));
            let r = caps.iter().any(|c| matches!(c, packet::Capability::AddPath(v) if v.iter().any(|(ff, m)| *ff == f && m & 2 != 0)));
            l && r
        };
        let has = |v: &[packet::Capability], pred: &dyn Fn(&packet::Capability) -> bool| v.iter().any(|c| pred(c));
        let ext_msg = has(&caps, &|c| matches!(c, packet::Capability::ExtendedMessage)) && has(&daemon_open.capability, &|c| matches!(c, packet::Capability::ExtendedMessage));
        let ext_nh = has(&caps, &|c| matches!(c, packet::Capability::ExtendedNexthop(_))) && has(&daemon_open.capability, &|c| matches!(c, packet::Capability::ExtendedNexthop(_)));

        // routes the remote speaker sends
        let mut sent: Vec<Sent> = Vec::new();
        let mk_attrs = |extra: usize| -> (Vec<packet::Attribute>, String) {
            let mut a = vec![mkmsg::origin(0), mkmsg::as_path(&[(2, vec![remote_asn])]), mkmsg::med(10), mkmsg::communities(&[0xfde9_0064])];
            let mut class = "typical".to_string();
            if extra > 0 {
                a.push(packet::Attribute::new_opaque(mkmsg::CODE_FILLER, 0xc0, vec![0xa5; extra]));
                class = if extra > 4000 { "size>4096".into() } else { "size<=4096".into() };
            }
            (a, class)
        };
        // (with RFC 8950 negotiated the harness' own encoder puts IPv4 NLRI into MP_REACH_NLRI, where
        // an IPv4 next hop would be zero-padded - gen-findings G1 -, so IPv4 routes then use IPv6 next hops)
        let v4nh = if ext_nh { Some(mkmsg::nh_v6()) } else { Some(mkmsg::nh_v4()) };
        let mut plan: Vec<(Family, Vec<u32>, Option<bgp::Nexthop>, usize)> = vec![
            (Family::IPV4, vec![11, 12], v4nh, 0),
            (Family::IPV6, vec![21], Some(mkmsg::nh_v6()), 0),
            (Family::IPV6, vec![22], Some(mkmsg::nh_v6_ll()), 300),
        ];
        if ext_nh {
            plan.push((Family::IPV4, vec![13], Some(mkmsg::nh_v6_ll()), 0));
        }
        if ext_msg {
            plan.push((Family::IPV4, vec![14], v4nh, 5000));
        }
        for (family, ids, nh, extra) in &plan {
            let addpath = ap(*family);
            let (attrs, class) = mk_attrs(*extra);
            let entries: Vec<packet::PathNlri> = ids.iter().map(|i| packet::PathNlri { path_id: if addpath { 100 + *i } else { 0 }, nlri: mkmsg::nlri_nth(*family, *i, false) }).collect();
            let msg = mkmsg::reach(*family, entries.clone(), *nh, &attrs);
            if !conn.send(&msg).await {
                return Err("the session ended while the harness was sending valid UPDATEs".into());
            }
            // the daemon stores one path per NLRI and monitors each separately
            for e in entries {
                sent.push(Sent { hdr_addr: from, it: UpdateIntent { family: *family, kind: Kind::Reach, entries: vec![e], nexthop: *nh, attrs: attrs.clone(), addpath, attr_class: class.clone() } });
            }
        }
        if !conn.barrier().await {
            return Err("the session ended after valid UPDATEs".into());
        }
        send_sentinel(&d.tables, 1);

        // ---- phase 1: live view of station 1 ----
        let (msgs1, ok) = until_sentinel(&mut st1, 1).await?;
        if !ok {
            vs.push(viol2("bmp", "record-missing", "stream-ended", format!("station 1: the BMP connection ended after {} messages", msgs1.len()), case));
        }
        let hdr = PeerHdrIntent { peer_type: 0, flags: 0, addr: from, asn: remote_asn, bgp_id: remote_id };
        let lport = conn.stream.as_ref().and_then(|s| s.peer_addr().ok()).map(|a| a.port()).unwrap_or(0);
        let rport = conn.stream.as_ref().and_then(|s| s.local_addr().ok()).map(|a| a.port()).unwrap_or(0);
        let mut peer_ups = 0;
        for m in &msgs1 {
            if m.len() > 7 && m[5] == wire::BMP_PEER_UP && m[6] == 0 {
                peer_ups += 1;
                if std::env::var("VERIF_C19_DEBUG").is_ok() {
                    eprintln!("debug: live Peer Up {}", oracle::hexs(&m[..m.len().min(160)]));
                    eprintln!("debug: daemon OPEN as={} hold={} id={:#x} caps={:?}", daemon_open.as_number, daemon_open.holdtime.seconds(), daemon_open.router_id, daemon_open.capability);
                }
                for mut f in oracle::check_peer_up(m, &hdr, local_addr, lport, rport, &daemon_open, &my_open) {
                    f.what = format!("live Peer Up (on_established): {}", f.what);
                    vs.push(viol("bmp", f, case));
                }
            }
        }
        if peer_ups != 1 {
            vs.push(viol2("bmp", "record-missing", "peer-up", format!("station 1: {peer_ups} Peer Up records for one established session"), case));
        }
        match_rms(&msgs1, &sent, &[], &hdr, false, "live", case, &mut vs);

        // ---- phase 2: station 2 attached after the fact (snapshot path) ----
        let (mut st2, a2) = Station::new().await?;
        let c2 = attach_bmp(&d.global, &d.tables, a2, crate::bmp::BmpPolicy::All);
        st2.accept().await?;
        if !wait_subscribers(&d.tables, 2, "BMP client 2").await {
            return Ok(vs);
        }
        send_sentinel(&d.tables, 2);
        let (msgs2, ok) = until_sentinel(&mut st2, 2).await?;
        if !ok {
            vs.push(viol2("bmp", "record-missing", "stream-ended", format!("station 2: the BMP connection ended after {} messages", msgs2.len()), case));
        }
        let mut peer_ups = 0;
        for m in &msgs2 {
            if m.len() > 7 && m[5] == wire::BMP_PEER_UP && m[6] == 0 {
                peer_ups += 1;
                for mut f in oracle::check_peer_up(m, &hdr, local_addr, lport, rport, &daemon_open, &my_open) {
                    f.what = format!("snapshot Peer Up (Peer::bmp_peer_up): {}", f.what);
                    f.clause = format!("{}-snapshot", f.clause);
                    vs.push(viol("bmp", f, case));
                }
            }
        }
        if peer_ups != 1 {
            vs.push(viol2("bmp", "record-missing", "peer-up-snapshot", format!("station 2: {peer_ups} Peer Up records for one established session"), case));
        }
        let mut eors: Vec<Family> = Vec::new();
        for s in &sent {
            if !eors.contains(&s.it.family) {
                eors.push(s.it.family);
            }
        }
        match_rms(&msgs2, &sent, &eors, &hdr, true, "snapshot", case, &mut vs);

        // ---- phase 3: end of the session ----
        let down: Option<DownIntent> = match end {
            'n' => {
                let n = packet::Notification::CeaseAdminShutdown;
                conn.send(&bgp::Message::Notification(n.clone())).await;
                Some(DownIntent::RemoteNotification(n))
            }
            'g' => {
                // a message of unknown type 9: the daemon answers with a NOTIFICATION of its own
                let mut f = vec![0xffu8; 16];
                f.extend_from_slice(&[0, 19, 9]);
                conn.send_bytes(&f).await;
                let mut got = None;
                loop {
                    match conn.read_msg().await {
                        Ok(Some(bgp::ParsedMessage::Notification(n))) => {
                            got = Some(n);
                            break;
                        }
                        Ok(Some(_)) => {}
                        Ok(None) | Err(_) => break,
                    }
                }
                got.map(DownIntent::LocalNotification)
            }
            'c' => Some(DownIntent::RemoteUnexpected),
            _ => return Err(format!("bad end {end}")),
        };
        conn.wait_end(true).await;
        send_sentinel(&d.tables, 3);
        for (name, st) in [("station 1", &mut st1), ("station 2", &mut st2)] {
            let (msgs, ok) = until_sentinel(st, 3).await?;
            if !ok {
                vs.push(viol2("bmp", "record-missing", "stream-ended", format!("{name}: the BMP connection ended before the end of the session was reported"), case));
            }
            let downs: Vec<&Vec<u8>> = msgs.iter().filter(|m| m.len() > 7 && m[5] == wire::BMP_PEER_DOWN).collect();
            if downs.len() != 1 {
                vs.push(viol2("bmp", "record-missing", "peer-down", format!("{name}: {} Peer Down records for one ended session", downs.len()), case));
            }
            for m in downs {
                match &down {
                    Some(di) => {
                        for mut f in oracle::check_peer_down(m, &hdr, di) {
                            f.what = format!("{name}: {}", f.what);
                            vs.push(viol("bmp", f, case));
                        }
                    }
                    None => {
                        // the daemon closed without a NOTIFICATION we could read: structure only
                        if let Err(f) = oracle::bmp_read(m) {
                            vs.push(viol("bmp", f, case));
                        }
                    }
                }
            }
            // whatever else arrived (Loc-RIB withdrawals): structure
            for m in msgs.iter().filter(|m| m.len() > 7 && m[5] == wire::BMP_ROUTE_MONITORING) {
                match oracle::bmp_read(m) {
                    Err(f) => vs.push(viol("bmp", f, case)),
                    Ok(msg) => {
                        if let wire::BmpBody::RouteMonitoring { pdus } = &msg.body {
                            if pdus.len() != 1 {
                                vs.push(viol2("bmp", "multiple-pdus-in-record", "", format!("{name}: {} PDUs in a record after the session ended", pdus.len()), case));
                            }
                        }
                    }
                }
            }
        }
        c1.cancel();
        c2.cancel();
        Ok(vs)
    }
}
