// C13 harness part (stub until built)
use crate::verif::vx::report::Report;

pub(crate) fn run_c13(_replay: Option<&str>) -> Report {
    let mut rep = Report::new("C13", "hd-c13");
    rep.machinery_error = Some("harness not built yet".into());
    rep
}
