// C13 harness: "the installed VRPs always equal what the RPKI cache has
// announced so far".  Lives inside crate::rpki (child module), so the private
// `RpkiClient::serve_inner` and `RpkiState` are reachable.
//
// Technique: bounded-exhaustive enumeration of conforming RFC 6810 / RFC 8210
// cache scripts x TCP fragmentation x session-loss points, each one executed
// against the REAL `serve_inner` over `tokio::io::duplex`, with the harness
// playing the cache.  The cache's bytes are produced by an encoder written
// from the RFCs (below), never by the repository's encoder.
//
// Acknowledgement without sleeping: the client's end of the duplex is wrapped
// in a thin tap (`Tap`) that records how many bytes the client has read and
// whether its last `poll_read` returned Pending.  "Client has read every byte
// written so far AND is parked in poll_read" is the explicit signal that it
// has processed everything it is going to process; at that point the public
// receive counters of `RpkiState` (end_of_data, cache_response, ...) tell
// whether every complete PDU delivered was consumed.  A client that is parked
// with complete PDUs unconsumed has wedged (progress clause).  Waiting is a
// loop of `yield_now()` turns on a current-thread runtime, bounded by
// TURN_LIMIT whose expiry is a machinery error, never a verdict.

use super::*;
use crate::table_manager::TableManager;
use crate::verif::vx::bfs::hash128;
use crate::verif::vx::enumr;
use crate::verif::vx::report::{self, Report, Violation};
use futures::FutureExt;
use std::collections::{BTreeMap, BTreeSet, HashSet};
use std::pin::Pin;
use std::sync::Mutex;
use std::sync::atomic::AtomicUsize;
use std::task::{Context, Poll};
use tokio::io::{AsyncRead, AsyncReadExt, AsyncWrite, AsyncWriteExt, DuplexStream, ReadBuf};

const TURN_LIMIT: u64 = 200_000;
const S0: u32 = 7; // serial of the reset response; round i ends at serial S0+i
const WATCHDOG_SECS: u64 = 120;

// ---------------------------------------------------------------------------
// universe of VRPs
// ---------------------------------------------------------------------------

#[derive(Clone, Copy, PartialEq, Eq, PartialOrd, Ord, Hash, Debug)]
struct Vrp {
    v6: bool,
    addr: [u8; 16],
    plen: u8,
    maxlen: u8,
    asn: u32,
}

const fn v4(a: [u8; 4], plen: u8, maxlen: u8, asn: u32) -> Vrp {
    let mut addr = [0u8; 16];
    addr[0] = a[0];
    addr[1] = a[1];
    addr[2] = a[2];
    addr[3] = a[3];
    Vrp { v6: false, addr, plen, maxlen, asn }
}

/// a and b collide on the prefix (same trie node, differ only in max-len);
/// c is IPv6; d is only used by the passive second cache.  Both caches
/// announce `a`, so the per-source separation of identical VRPs is exercised.
const UNI: [Vrp; 4] = [
    v4([10, 0, 0, 0], 8, 16, 65001),
    v4([10, 0, 0, 0], 8, 24, 65001),
    Vrp {
        v6: true,
        addr: [0x20, 0x01, 0x0d, 0xb8, 0, 0, 0, 0, 0, 0, 0, 0, 0, 0, 0, 0],
        plen: 32,
        maxlen: 48,
        asn: 65001,
    },
    v4([192, 0, 2, 0], 24, 24, 65003),
];
const LETTERS: &[u8; 4] = b"abcd";

fn vrp_str(v: &Vrp) -> String {
    if v.v6 {
        let a: [u8; 16] = v.addr;
        format!("{}/{}-{} AS{}", std::net::Ipv6Addr::from(a), v.plen, v.maxlen, v.asn)
    } else {
        format!("{}.{}.{}.{}/{}-{} AS{}", v.addr[0], v.addr[1], v.addr[2], v.addr[3], v.plen, v.maxlen, v.asn)
    }
}

fn set_str(s: &BTreeSet<Vrp>) -> String {
    let v: Vec<String> = s.iter().map(vrp_str).collect();
    format!("{{{}}}", v.join(", "))
}

// ---------------------------------------------------------------------------
// RTR PDUs as a cache sends them (RFC 6810 section 5 / RFC 8210 section 5)
// ---------------------------------------------------------------------------

#[derive(Clone, Debug, PartialEq, Eq)]
enum Pdu {
    SerialNotify(u32),
    CacheResponse,
    Prefix(usize, bool), // (index into UNI, announce)
    EndOfData(u32),
    CacheReset,
    /// Error Report, code 2 "No Data Available" (non-fatal), encapsulating the
    /// router's Serial Query (which carried this serial) and a diagnostic text.
    ErrorReport(u32),
    /// Router Key PDU (type 9, RFC 8210 5.10), v1 only; the client has no use for it.
    RouterKey(bool),
}

const K_NOTIFY: usize = 0;
const K_RESPONSE: usize = 1;
const K_V4: usize = 2;
const K_V6: usize = 3;
const K_EOD: usize = 4;
const K_RESET: usize = 5;
const K_ERROR: usize = 6;
const KIND_NAMES: [&str; 7] = ["serial-notify", "cache-response", "ipv4-prefix", "ipv6-prefix", "end-of-data", "cache-reset", "error-report"];

impl Pdu {
    /// which of the client's public receive counters acknowledges this PDU
    fn counter(&self) -> Option<usize> {
        match self {
            Pdu::SerialNotify(_) => Some(K_NOTIFY),
            Pdu::CacheResponse => Some(K_RESPONSE),
            Pdu::Prefix(r, _) => Some(if UNI[*r].v6 { K_V6 } else { K_V4 }),
            Pdu::EndOfData(_) => Some(K_EOD),
            Pdu::CacheReset => Some(K_RESET),
            Pdu::ErrorReport(_) => Some(K_ERROR),
            Pdu::RouterKey(_) => None,
        }
    }
    fn name(&self) -> &'static str {
        match self {
            Pdu::RouterKey(_) => "router-key",
            p => KIND_NAMES[p.counter().unwrap()],
        }
    }
    fn short(&self) -> String {
        match self {
            Pdu::SerialNotify(s) => format!("Notify({s})"),
            Pdu::CacheResponse => "CacheResponse".into(),
            Pdu::Prefix(r, a) => format!("{}{}", if *a { '+' } else { '-' }, LETTERS[*r] as char),
            Pdu::EndOfData(s) => format!("EoD({s})"),
            Pdu::CacheReset => "CacheReset".into(),
            Pdu::ErrorReport(_) => "ErrorReport(2)".into(),
            Pdu::RouterKey(a) => format!("RouterKey{}", if *a { '+' } else { '-' }),
        }
    }
}

fn hdr(out: &mut Vec<u8>, ver: u8, typ: u8, field: u16, len: u32) {
    out.push(ver);
    out.push(typ);
    out.extend_from_slice(&field.to_be_bytes());
    out.extend_from_slice(&len.to_be_bytes());
}

/// what the client's Serial Query looks like on the wire (the client always speaks version 1)
fn serial_query_bytes(session: u16, serial: u32) -> Vec<u8> {
    let mut o = Vec::new();
    hdr(&mut o, 1, 1, session, 12);
    o.extend_from_slice(&serial.to_be_bytes());
    o
}

fn encode(p: &Pdu, ver: u8, session: u16, out: &mut Vec<u8>) {
    match p {
        Pdu::SerialNotify(s) => {
            hdr(out, ver, 0, session, 12);
            out.extend_from_slice(&s.to_be_bytes());
        }
        Pdu::CacheResponse => hdr(out, ver, 3, session, 8),
        Pdu::Prefix(r, ann) => {
            let v = &UNI[*r];
            if v.v6 {
                hdr(out, ver, 6, 0, 32);
            } else {
                hdr(out, ver, 4, 0, 20);
            }
            out.push(if *ann { 1 } else { 0 });
            out.push(v.plen);
            out.push(v.maxlen);
            out.push(0);
            out.extend_from_slice(&v.addr[..if v.v6 { 16 } else { 4 }]);
            out.extend_from_slice(&v.asn.to_be_bytes());
        }
        Pdu::EndOfData(s) => {
            if ver == 0 {
                hdr(out, ver, 7, session, 12);
                out.extend_from_slice(&s.to_be_bytes());
            } else {
                hdr(out, ver, 7, session, 24);
                out.extend_from_slice(&s.to_be_bytes());
                out.extend_from_slice(&3600u32.to_be_bytes()); // refresh
                out.extend_from_slice(&600u32.to_be_bytes()); // retry
                out.extend_from_slice(&7200u32.to_be_bytes()); // expire
            }
        }
        Pdu::CacheReset => hdr(out, ver, 8, 0, 8),
        Pdu::ErrorReport(qserial) => {
            let q = serial_query_bytes(session, *qserial);
            let text = b"no data available";
            let len = 8 + 4 + q.len() + 4 + text.len();
            hdr(out, ver, 10, 2, len as u32);
            out.extend_from_slice(&(q.len() as u32).to_be_bytes());
            out.extend_from_slice(&q);
            out.extend_from_slice(&(text.len() as u32).to_be_bytes());
            out.extend_from_slice(text);
        }
        Pdu::RouterKey(ann) => {
            // version, type 9, flags, zero, length, SKI(20), ASN(4), SubjectPublicKeyInfo (91 bytes for P-256)
            let spki_len = 91usize;
            let len = 8 + 20 + 4 + spki_len;
            out.push(ver);
            out.push(9);
            out.push(if *ann { 1 } else { 0 });
            out.push(0);
            out.extend_from_slice(&(len as u32).to_be_bytes());
            for i in 0..20u8 {
                out.push(0xA0 ^ i);
            }
            out.extend_from_slice(&65001u32.to_be_bytes());
            // DER header of an ecPublicKey/prime256v1 SPKI followed by an uncompressed point
            let der: [u8; 27] = [
                0x30, 0x59, 0x30, 0x13, 0x06, 0x07, 0x2a, 0x86, 0x48, 0xce, 0x3d, 0x02, 0x01, 0x06, 0x08, 0x2a, 0x86, 0x48, 0xce, 0x3d, 0x03, 0x01,
                0x07, 0x03, 0x42, 0x00, 0x04,
            ];
            out.extend_from_slice(&der);
            for i in 0..(spki_len - der.len()) {
                out.push((i as u8).wrapping_mul(7).wrapping_add(3));
            }
        }
    }
}

// ---------------------------------------------------------------------------
// scripts
// ---------------------------------------------------------------------------

#[derive(Clone, Debug, PartialEq, Eq, Hash)]
enum Round {
    Data(Vec<(usize, bool)>),
    Reset,
    Error,
}

#[derive(Clone, Debug, PartialEq, Eq, Hash)]
struct Script {
    ver: u8,
    init: Vec<usize>,
    rounds: Vec<Round>,
    /// Router Key PDU inside data response `resp` (0 = reset response, i = round i)
    /// before payload PDU number `pos`, with announce flag
    extra: Option<(usize, usize, bool)>,
}

#[derive(Clone, Copy, PartialEq, Eq, Debug)]
enum SegKind {
    InitResp,
    Notify,
    DataResp,
    ResetResp,
    ErrResp,
}

#[derive(Clone, Copy, PartialEq, Eq, Debug)]
enum ExpectQ {
    Reset,
    Serial(u32),
}

#[derive(Clone, Debug)]
struct Seg {
    kind: SegKind,
    query: Option<ExpectQ>,
    pdus: Vec<Pdu>,
}

fn segments(s: &Script) -> Vec<Seg> {
    let mut segs = Vec::new();
    let with_extra = |resp: usize, payload: Vec<Pdu>, s: &Script| -> Vec<Pdu> {
        let mut p = payload;
        if let Some((r, pos, ann)) = s.extra {
            if r == resp {
                let pos = pos.min(p.len());
                p.insert(pos, Pdu::RouterKey(ann));
            }
        }
        p
    };
    let mut pdus = vec![Pdu::CacheResponse];
    pdus.extend(with_extra(0, s.init.iter().map(|&r| Pdu::Prefix(r, true)).collect(), s));
    pdus.push(Pdu::EndOfData(S0));
    segs.push(Seg { kind: SegKind::InitResp, query: Some(ExpectQ::Reset), pdus });
    let mut last = S0;
    for (i, r) in s.rounds.iter().enumerate() {
        let serial = S0 + 1 + i as u32;
        segs.push(Seg { kind: SegKind::Notify, query: None, pdus: vec![Pdu::SerialNotify(serial)] });
        match r {
            Round::Data(d) => {
                let mut pdus = vec![Pdu::CacheResponse];
                pdus.extend(with_extra(i + 1, d.iter().map(|&(r, a)| Pdu::Prefix(r, a)).collect(), s));
                pdus.push(Pdu::EndOfData(serial));
                segs.push(Seg { kind: SegKind::DataResp, query: Some(ExpectQ::Serial(last)), pdus });
                last = serial;
            }
            Round::Reset => segs.push(Seg { kind: SegKind::ResetResp, query: Some(ExpectQ::Serial(last)), pdus: vec![Pdu::CacheReset] }),
            Round::Error => segs.push(Seg { kind: SegKind::ErrResp, query: Some(ExpectQ::Serial(last)), pdus: vec![Pdu::ErrorReport(last)] }),
        }
    }
    segs
}

/// one PDU per segment (PDU-granular interleaving of two caches)
fn split_per_pdu(segs: Vec<Seg>) -> Vec<Seg> {
    let mut out = Vec::new();
    for s in segs {
        for (i, p) in s.pdus.iter().enumerate() {
            out.push(Seg { kind: s.kind, query: if i == 0 { s.query } else { None }, pdus: vec![p.clone()] });
        }
    }
    out
}

fn script_str(s: &Script) -> String {
    let init: String = if s.init.is_empty() { "-".into() } else { s.init.iter().map(|&r| LETTERS[r] as char).collect() };
    let rounds: String = if s.rounds.is_empty() {
        "-".into()
    } else {
        s.rounds
            .iter()
            .map(|r| match r {
                Round::Data(d) if d.is_empty() => "_".to_string(),
                Round::Data(d) => d.iter().map(|&(r, a)| format!("{}{}", if a { '+' } else { '-' }, LETTERS[r] as char)).collect(),
                Round::Reset => "reset".into(),
                Round::Error => "err".into(),
            })
            .collect::<Vec<_>>()
            .join(",")
    };
    let extra = match s.extra {
        None => "x-".to_string(),
        Some((r, p, a)) => format!("x{}.{}{}", r, p, if a { '+' } else { '-' }),
    };
    format!("v{}|{}|{}|{}", s.ver, init, rounds, extra)
}

fn letter_idx(c: char) -> Option<usize> {
    LETTERS.iter().position(|&l| l as char == c)
}

fn parse_script(f: &[&str]) -> Option<Script> {
    if f.len() < 4 {
        return None;
    }
    let ver: u8 = f[0].strip_prefix('v')?.parse().ok()?;
    let init = if f[1] == "-" { vec![] } else { f[1].chars().map(letter_idx).collect::<Option<Vec<_>>>()? };
    let mut rounds = Vec::new();
    if f[2] != "-" {
        for r in f[2].split(',') {
            rounds.push(match r {
                "reset" => Round::Reset,
                "err" => Round::Error,
                "_" => Round::Data(vec![]),
                d => {
                    let cs: Vec<char> = d.chars().collect();
                    if cs.len() % 2 != 0 {
                        return None;
                    }
                    let mut v = Vec::new();
                    for c in cs.chunks(2) {
                        let ann = match c[0] {
                            '+' => true,
                            '-' => false,
                            _ => return None,
                        };
                        v.push((letter_idx(c[1])?, ann));
                    }
                    Round::Data(v)
                }
            });
        }
    }
    let extra = if f[3] == "x-" {
        None
    } else {
        let x = f[3].strip_prefix('x')?;
        let ann = x.ends_with('+');
        let x = &x[..x.len() - 1];
        let (r, p) = x.split_once('.')?;
        Some((r.parse().ok()?, p.parse().ok()?, ann))
    };
    Some(Script { ver, init, rounds, extra })
}

#[derive(Clone, Copy, PartialEq, Eq, Hash, Debug)]
enum Delivery {
    Whole,
    Bytes,
    Split(usize),
}

fn delivery_str(d: Delivery) -> String {
    match d {
        Delivery::Whole => "whole".into(),
        Delivery::Bytes => "bytes".into(),
        Delivery::Split(k) => format!("split{k}"),
    }
}
fn parse_delivery(s: &str) -> Option<Delivery> {
    match s {
        "whole" => Some(Delivery::Whole),
        "bytes" => Some(Delivery::Bytes),
        x => x.strip_prefix("split")?.parse().ok().map(Delivery::Split),
    }
}
/// fault code: Some(j) = the cache closes the connection after j PDUs (EOF at the client);
/// Some(j | RESET) = after j PDUs the client's read fails (connection reset) instead
const RESET: usize = 1 << 20;
/// Some(j | WFAIL) = after j PDUs the client's writes fail (half-broken connection); the cache then
/// sends a Serial Notify - the client's Serial Query cannot get out - and closes
const WFAIL: usize = 1 << 21;
fn fault_str(f: Option<usize>) -> String {
    match f {
        None => "nofault".into(),
        Some(j) if j & RESET != 0 => format!("reset{}", j & !RESET),
        Some(j) if j & WFAIL != 0 => format!("wfail{}", j & !WFAIL),
        Some(j) => format!("close{j}"),
    }
}
fn parse_fault(s: &str) -> Option<Option<usize>> {
    match s {
        "nofault" => Some(None),
        x if x.starts_with("reset") => x.strip_prefix("reset")?.parse::<usize>().ok().map(|j| Some(j | RESET)),
        x if x.starts_with("wfail") => x.strip_prefix("wfail")?.parse::<usize>().ok().map(|j| Some(j | WFAIL)),
        x => x.strip_prefix("close")?.parse().ok().map(Some),
    }
}

/// A case: one or two scripted caches on one TableManager plus the order in
/// which the harness advances them (one segment per step; a step on an actor
/// whose script is exhausted closes its connection).
#[derive(Clone, Debug)]
struct Case {
    two: bool,
    a: Script,
    b: Script,
    delivery: Delivery,    // applies to cache A
    fault: Option<usize>,  // applies to cache A: close after this many PDUs
    merge: Vec<u8>,        // two-cache mode: actor index per step
    per_pdu: bool,         // two-cache mode: one PDU per step instead of one segment
}

/// the passive second cache of single-cache cases: announces {a, d} once and stays up
fn passive_b() -> Script {
    Script { ver: 1, init: vec![0, 3], rounds: vec![], extra: None }
}

fn case_str(c: &Case) -> String {
    if c.two {
        let m: String = c.merge.iter().map(|&x| if x == 0 { 'A' } else { 'B' }).collect();
        format!("T|{}|{}|{}|{}", script_str(&c.a), script_str(&c.b), m, if c.per_pdu { "pdu" } else { "seg" })
    } else {
        format!("S|{}|{}|{}", script_str(&c.a), delivery_str(c.delivery), fault_str(c.fault))
    }
}

fn parse_case(s: &str) -> Option<Case> {
    let f: Vec<&str> = s.trim().split('|').collect();
    match f.first().copied()? {
        "S" if f.len() == 7 => Some(Case {
            two: false,
            a: parse_script(&f[1..5])?,
            b: passive_b(),
            delivery: parse_delivery(f[5])?,
            fault: parse_fault(f[6])?,
            merge: vec![],
            per_pdu: false,
        }),
        "T" if f.len() == 11 => Some(Case {
            two: true,
            a: parse_script(&f[1..5])?,
            b: parse_script(&f[5..9])?,
            delivery: Delivery::Whole,
            fault: None,
            merge: f[9].chars().map(|c| if c == 'A' { 0 } else { 1 }).collect(),
            per_pdu: f[10] == "pdu",
        }),
        _ => None,
    }
}

// ---------------------------------------------------------------------------
// the tap around the client's end of the duplex
// ---------------------------------------------------------------------------

#[derive(Default)]
struct IoStat {
    bytes_read: AtomicUsize,
    reads: AtomicUsize,
    parked: AtomicBool,
    /// the next read fails with ConnectionReset (set by the harness before it drops its end)
    fail: AtomicBool,
    /// every write fails with BrokenPipe
    fail_write: AtomicBool,
}

struct Tap {
    inner: DuplexStream,
    st: Arc<IoStat>,
}

impl AsyncRead for Tap {
    fn poll_read(mut self: Pin<&mut Self>, cx: &mut Context<'_>, buf: &mut ReadBuf<'_>) -> Poll<std::io::Result<()>> {
        if self.st.fail.load(Ordering::SeqCst) {
            self.st.parked.store(false, Ordering::SeqCst);
            return Poll::Ready(Err(std::io::Error::new(std::io::ErrorKind::ConnectionReset, "connection reset by peer")));
        }
        let before = buf.filled().len();
        let r = Pin::new(&mut self.inner).poll_read(cx, buf);
        match &r {
            Poll::Pending => self.st.parked.store(true, Ordering::SeqCst),
            Poll::Ready(_) => {
                let n = buf.filled().len() - before;
                if n > 0 {
                    self.st.bytes_read.fetch_add(n, Ordering::SeqCst);
                    self.st.reads.fetch_add(1, Ordering::SeqCst);
                }
                self.st.parked.store(false, Ordering::SeqCst);
            }
        }
        r
    }
}

impl AsyncWrite for Tap {
    fn poll_write(mut self: Pin<&mut Self>, cx: &mut Context<'_>, buf: &[u8]) -> Poll<std::io::Result<usize>> {
        if self.st.fail_write.load(Ordering::SeqCst) {
            return Poll::Ready(Err(std::io::Error::new(std::io::ErrorKind::BrokenPipe, "broken pipe")));
        }
        Pin::new(&mut self.inner).poll_write(cx, buf)
    }
    fn poll_flush(mut self: Pin<&mut Self>, cx: &mut Context<'_>) -> Poll<std::io::Result<()>> {
        Pin::new(&mut self.inner).poll_flush(cx)
    }
    fn poll_shutdown(mut self: Pin<&mut Self>, cx: &mut Context<'_>) -> Poll<std::io::Result<()>> {
        Pin::new(&mut self.inner).poll_shutdown(cx)
    }
}

// ---------------------------------------------------------------------------
// one scripted cache + the real client attached to it
// ---------------------------------------------------------------------------

#[derive(Clone, Copy, PartialEq, Eq, Debug)]
enum Query {
    Reset,
    Serial(u16, u32),
    Other(u8),
}

struct Actor {
    name: char,
    addr: Arc<IpAddr>,
    session: u16,
    ver: u8,
    segs: Vec<Seg>,
    next_seg: usize,
    delivery: Delivery,
    fault: Option<usize>,
    io: Option<DuplexStream>,
    st: Arc<IoStat>,
    state: Arc<RpkiState>,
    handle: Option<tokio::task::JoinHandle<Result<(), Error>>>,
    written: usize,
    chunks: usize,
    sent: Vec<Pdu>,
    inbuf: Vec<u8>,
    /// fold of the script so far (the reference: plain set operations)
    expect: BTreeSet<Vrp>,
    /// what the last reset response announced (only used to name the shape of a mismatch)
    snapshot: BTreeSet<Vrp>,
    synced: bool,
    incr_ann: BTreeSet<Vrp>,
    incr_wd: BTreeSet<Vrp>,
    closed: bool,
}

fn read_counters(s: &RpkiState) -> [i64; 7] {
    [
        s.serial_notify.load(Ordering::SeqCst),
        s.cache_response.load(Ordering::SeqCst),
        s.received_ipv4.load(Ordering::SeqCst),
        s.received_ipv6.load(Ordering::SeqCst),
        s.end_of_data.load(Ordering::SeqCst),
        s.cache_reset.load(Ordering::SeqCst),
        s.error.load(Ordering::SeqCst),
    ]
}

#[derive(Default, Clone)]
struct Outcome {
    viol: Option<(String, String)>,
    viol_actor: usize,
    mach: Option<String>,
    trace: Vec<u8>,
    checks: u64,
    max_turns: u64,
    reset_query_after_cache_reset: u64,
    cache_reset_unanswered: u64,
    no_query: u64,
    unexpected_query: u64,
    frag_chunks: u64,
    frag_reads: u64,
}

struct World {
    tables: TableHandle,
    actors: Vec<Actor>,
    out: Outcome,
    verbose: bool,
    /// observation at the last quiescent point before the current step (isolation oracle)
    before: BTreeMap<IpAddr, BTreeSet<Vrp>>,
    last_event: &'static str,
}

#[derive(Clone, Copy, PartialEq, Eq)]
enum Phase {
    ResetEod,
    IncrEod,
    Close,
}

impl World {
    fn log(&self, f: impl FnOnce() -> String) {
        if self.verbose {
            eprintln!("  step {}", f());
        }
    }

    fn broken(&self) -> bool {
        self.out.viol.is_some() || self.out.mach.is_some()
    }

    fn violate(&mut self, sig: String, what: String) {
        if self.out.viol.is_none() {
            self.log(|| format!("VIOLATION {sig}: {what}"));
            self.out.viol = Some((sig, what));
        }
    }

    fn drain(&mut self, i: usize) {
        let a = &mut self.actors[i];
        if let Some(io) = a.io.as_mut() {
            let mut buf = [0u8; 256];
            loop {
                match io.read(&mut buf).now_or_never() {
                    Some(Ok(n)) if n > 0 => a.inbuf.extend_from_slice(&buf[..n]),
                    _ => break,
                }
            }
        }
    }

    /// Wait until the client of actor `i` has read everything written to it and
    /// is parked in poll_read (true), or its task has ended (false).
    async fn settle(&mut self, i: usize) -> bool {
        let mut n = 0u64;
        let r = loop {
            self.drain(i);
            let a = &self.actors[i];
            match a.handle.as_ref() {
                None => break false,
                Some(h) if h.is_finished() => break false,
                _ => {}
            }
            if a.st.parked.load(Ordering::SeqCst) && a.st.bytes_read.load(Ordering::SeqCst) == a.written {
                break true;
            }
            tokio::task::yield_now().await;
            n += 1;
            if n > TURN_LIMIT {
                self.out.mach = Some(format!(
                    "client of cache {} neither parked nor finished within {} scheduler turns (read {} of {} bytes)",
                    a.name,
                    TURN_LIMIT,
                    a.st.bytes_read.load(Ordering::SeqCst),
                    a.written
                ));
                break false;
            }
        };
        self.drain(i);
        self.out.max_turns = self.out.max_turns.max(n);
        r
    }

    fn take_queries(&mut self, i: usize) -> Vec<Query> {
        self.drain(i);
        let a = &mut self.actors[i];
        let mut qs = Vec::new();
        // own parser for the router's PDUs (RFC 8210 5.3, 5.4): 8-byte header, length field
        while a.inbuf.len() >= 8 {
            let typ = a.inbuf[1];
            let field = u16::from_be_bytes([a.inbuf[2], a.inbuf[3]]);
            let len = u32::from_be_bytes([a.inbuf[4], a.inbuf[5], a.inbuf[6], a.inbuf[7]]) as usize;
            if len < 8 || a.inbuf.len() < len {
                break;
            }
            let pdu: Vec<u8> = a.inbuf.drain(..len).collect();
            qs.push(match (typ, len) {
                (2, 8) => Query::Reset,
                (1, 12) => Query::Serial(field, u32::from_be_bytes([pdu[8], pdu[9], pdu[10], pdu[11]])),
                (t, _) => Query::Other(t),
            });
        }
        qs
    }

    async fn start(&mut self, i: usize) {
        let (client_io, server_io) = tokio::io::duplex(1 << 16);
        let a = &mut self.actors[i];
        let tap = Tap { inner: client_io, st: a.st.clone() };
        let framed = Framed::new(tap, rpki::RtrCodec::new());
        let fut = RpkiClient::serve_inner(
            framed,
            a.addr.clone(),
            CancellationToken::new(),
            Arc::new(Notify::new()),
            a.state.clone(),
            self.tables.clone(),
        );
        a.handle = Some(tokio::spawn(fut));
        a.io = Some(server_io);
        self.log(|| format!("cache {}: client connected", self.actors[i].name));
    }

    /// close the cache's end of the connection, wait for the client task to end, check the session-end clause
    async fn close(&mut self, i: usize) {
        if self.actors[i].closed {
            return;
        }
        self.drain(i);
        if self.actors[i].fault.is_some_and(|j| j & WFAIL != 0) && self.actors[i].io.is_some() {
            // half-broken connection: the client can still read but no longer write; a Serial Notify
            // makes it try to send a Serial Query
            use tokio::io::AsyncWriteExt;
            self.actors[i].st.fail_write.store(true, Ordering::SeqCst);
            let mut b = Vec::new();
            let (ver, session) = (self.actors[i].ver, self.actors[i].session);
            encode(&Pdu::SerialNotify(4242), ver, session, &mut b);
            if let Some(io) = self.actors[i].io.as_mut() {
                let _ = io.write_all(&b).await;
            }
            self.actors[i].written += b.len();
            let _ = self.settle(i).await;
            self.out.mach = None; // the client may legitimately have ended already
        }
        if self.actors[i].fault.is_some_and(|j| j & RESET != 0) {
            // the session does not end by a clean EOF: the client's pending read fails
            self.actors[i].st.fail.store(true, Ordering::SeqCst);
        }
        self.actors[i].io = None; // drop => the client's read is woken (EOF, or the error armed above)
        let mut n = 0u64;
        loop {
            match self.actors[i].handle.as_ref() {
                Some(h) if !h.is_finished() => {}
                _ => break,
            }
            tokio::task::yield_now().await;
            n += 1;
            if n > TURN_LIMIT {
                self.out.mach = Some(format!("client of cache {} did not end within {} scheduler turns after EOF", self.actors[i].name, TURN_LIMIT));
                if let Some(h) = self.actors[i].handle.take() {
                    h.abort();
                }
                self.actors[i].closed = true;
                return;
            }
        }
        self.out.max_turns = self.out.max_turns.max(n);
        let mut panicked = None;
        if let Some(h) = self.actors[i].handle.take() {
            if let Err(e) = h.await {
                if e.is_panic() {
                    let p = e.into_panic();
                    let msg = if let Some(s) = p.downcast_ref::<&str>() {
                        s.to_string()
                    } else if let Some(s) = p.downcast_ref::<String>() {
                        s.clone()
                    } else {
                        "panic".into()
                    };
                    panicked = Some(msg);
                }
            }
        }
        self.actors[i].closed = true;
        self.log(|| format!("cache {}: connection closed after {} PDUs, client task ended", self.actors[i].name, self.actors[i].sent.len()));
        if let Some(msg) = panicked {
            if !self.broken() {
                let shape: String = msg.chars().filter(|c| !c.is_ascii_digit()).take(60).collect();
                self.violate(format!("C13/panic/{}", shape.replace(' ', "_")), format!("the client task of cache {} panicked: {}", self.actors[i].name, msg));
            }
            return;
        }
        if !self.broken() {
            self.check(i, Phase::Close);
        }
    }

    /// `collect_roa` of both families, grouped by `Roa.source`, as sets keyed by (prefix, max-len, AS)
    fn observe(&self) -> BTreeMap<IpAddr, BTreeSet<Vrp>> {
        let mut got: BTreeMap<IpAddr, BTreeSet<Vrp>> = BTreeMap::new();
        for fam in [packet::Family::IPV4, packet::Family::IPV6] {
            for (net, roa) in self.tables.collect_roa(fam) {
                let (v6, addr, plen) = match net {
                    packet::IpNet::V4(n) => {
                        let mut a = [0u8; 16];
                        a[..4].copy_from_slice(&n.addr.octets());
                        (false, a, n.mask)
                    }
                    packet::IpNet::V6(n) => (true, n.addr.octets(), n.mask),
                };
                // duplicates are invisible to a set-valued statement; not judged
                got.entry(*roa.source).or_default().insert(Vrp { v6, addr, plen, maxlen: roa.max_length, asn: roa.as_number });
            }
        }
        got
    }

    /// oracle, fold / session-end clause: the VRPs installed for cache `focus` equal the fold of its script so far
    /// (nothing after its session ended).  Evaluated at this cache's own End-of-Data and at its session end only.
    fn check(&mut self, focus: usize, phase: Phase) {
        self.out.checks += 1;
        let got = self.observe();
        // trace of observations (for outcome statistics)
        self.out.trace.push(match phase {
            Phase::ResetEod => b'R',
            Phase::IncrEod => b'I',
            Phase::Close => b'C',
        });
        for (src, set) in &got {
            self.out.trace.extend_from_slice(src.to_string().as_bytes());
            for v in set {
                self.out.trace.extend_from_slice(&v.addr[..5]);
                self.out.trace.push(v.maxlen);
            }
            self.out.trace.push(b';');
        }
        self.last_event = match phase {
            Phase::ResetEod => "on-reset-eod",
            Phase::IncrEod => "on-incremental-eod",
            Phase::Close => "on-session-end",
        };
        let empty = BTreeSet::new();
        let a = &self.actors[focus];
        if a.synced || a.closed {
            // (nothing is specified before the first End-of-Data)
            let want: &BTreeSet<Vrp> = if a.closed { &empty } else { &a.expect };
            let have = got.get(&*a.addr).unwrap_or(&empty);
            self.log(|| format!("check cache {}: installed {} expected {}", a.name, set_str(have), set_str(want)));
            if have != want {
                let missing: BTreeSet<Vrp> = want.difference(have).cloned().collect();
                let extra: BTreeSet<Vrp> = have.difference(want).cloned().collect();
                let mut classes = BTreeSet::new();
                for v in &missing {
                    classes.insert(if a.incr_ann.contains(v) { "incr-announce-lost" } else { "snapshot-vrp-lost" });
                }
                for v in &extra {
                    classes.insert(if a.closed {
                        "left-behind"
                    } else if a.incr_wd.contains(v) {
                        "incr-withdraw-undone"
                    } else {
                        "never-announced-vrp"
                    });
                }
                let classes: Vec<&str> = classes.into_iter().collect();
                let mut classes = classes.join("+");
                if !a.closed && phase == Phase::IncrEod && *have == a.snapshot {
                    // the installed set is exactly what the reset response announced: every incremental change is gone
                    classes = "reverted-to-reset-snapshot".into();
                }
                let what_sets = format!("expected {} but collect_roa has {} (missing {}, unexpected {})", set_str(want), set_str(have), set_str(&missing), set_str(&extra));
                let (sig, what) = match phase {
                    Phase::ResetEod => (
                        format!("C13/fold/reset-response/{classes}"),
                        format!("after the End-of-Data of a reset response from cache {}: {}", a.name, what_sets),
                    ),
                    Phase::IncrEod => (
                        format!("C13/fold/incremental/{classes}"),
                        format!("after the End-of-Data of an incremental (serial) response from cache {}: {}", a.name, what_sets),
                    ),
                    Phase::Close => (
                        format!("C13/session-end/{classes}"),
                        format!("after the session of cache {} ended: {}", a.name, what_sets),
                    ),
                };
                self.out.viol_actor = focus;
                self.violate(sig, what);
                return;
            }
        }
        // VRPs attributed to a source that is no cache of this run
        for (src, set) in &got {
            if !self.actors.iter().any(|a| *a.addr == *src) && !set.is_empty() {
                self.out.viol_actor = focus;
                self.violate("C13/fold/foreign-source".into(), format!("VRPs installed for unknown source {}: {}", src, set_str(set)));
                return;
            }
        }
    }

    /// oracle, isolation clause: whatever cache `i` just did (any PDU, End-of-Data, session end), the VRPs
    /// installed for every OTHER cache are exactly what they were before the step (`self.before`).
    fn check_isolation(&mut self, i: usize) {
        let after = self.observe();
        let empty = BTreeSet::new();
        for k in 0..self.actors.len() {
            if k == i {
                continue;
            }
            let a = &self.actors[k];
            let was = self.before.get(&*a.addr).unwrap_or(&empty);
            let is = after.get(&*a.addr).unwrap_or(&empty);
            if was == is {
                continue;
            }
            let removed: BTreeSet<Vrp> = was.difference(is).cloned().collect();
            let added: BTreeSet<Vrp> = is.difference(was).cloned().collect();
            let class = match (removed.is_empty(), added.is_empty()) {
                (false, true) => "vrp-removed",
                (true, false) => "vrp-added",
                _ => "vrp-removed+vrp-added",
            };
            let sig = format!("C13/isolation/{}/{}", self.last_event, class);
            let what = format!(
                "a step of cache {} ({}) changed the VRPs installed for cache {}: before {} after {} (removed {}, added {})",
                self.actors[i].name,
                &self.last_event[3..],
                a.name,
                set_str(was),
                set_str(is),
                set_str(&removed),
                set_str(&added)
            );
            self.out.viol_actor = i;
            self.violate(sig, what);
            return;
        }
    }

    /// one scheduling step of cache i, bracketed by the isolation oracle
    async fn step(&mut self, i: usize) {
        if self.actors[i].closed || self.broken() {
            return;
        }
        self.before = self.observe();
        self.last_event = "on-other-pdu";
        self.advance(i).await;
        if !self.broken() {
            self.check_isolation(i);
        }
    }

    /// progress clause: every complete PDU delivered so far has been consumed
    fn check_progress(&mut self, i: usize, finished: bool) {
        self.out.viol_actor = i;
        let a = &self.actors[i];
        let have = read_counters(&a.state);
        let mut want = [0i64; 7];
        for p in &a.sent {
            if let Some(k) = p.counter() {
                want[k] += 1;
            }
        }
        if have == want {
            return;
        }
        for k in 0..7 {
            if have[k] > want[k] {
                let sig = format!("C13/progress/pdu-processed-twice/{}", KIND_NAMES[k]);
                let what = format!("cache {} sent {} {} PDUs, the client counted {}", a.name, want[k], KIND_NAMES[k], have[k]);
                self.violate(sig, what);
                return;
            }
        }
        // find the first PDU that was not consumed: walk the sent list, consuming counted PDUs
        let mut left = have;
        let mut culprit = None;
        let mut first_unknown_since = None;
        for (idx, p) in a.sent.iter().enumerate() {
            match p.counter() {
                Some(k) => {
                    if left[k] > 0 {
                        left[k] -= 1;
                        first_unknown_since = None;
                    } else {
                        culprit = Some(first_unknown_since.unwrap_or(idx));
                        break;
                    }
                }
                None => {
                    if first_unknown_since.is_none() {
                        first_unknown_since = Some(idx);
                    }
                }
            }
        }
        let idx = culprit.unwrap_or(0);
        let p = &a.sent[idx];
        let unconsumed: Vec<String> = a.sent[idx..].iter().map(|p| p.short()).collect();
        let how = if finished { "client-quit" } else { "wedge" };
        let sig = format!("C13/progress/{}/{}-v{}", how, p.name(), a.ver);
        let what = if finished {
            format!(
                "cache {} delivered the complete, well-formed PDUs [{}]; the client ended the session at the {} PDU instead of consuming them",
                a.name,
                unconsumed.join(" "),
                p.name()
            )
        } else {
            format!(
                "cache {} delivered the complete, well-formed PDUs [{}] ({} bytes, all read by the client); the client is parked waiting for more input and has not consumed them (receive counters {:?}, expected {:?}): it stops at the {} PDU",
                a.name,
                unconsumed.join(" "),
                a.written,
                have,
                want,
                p.name()
            )
        };
        self.violate(sig, what);
    }

    /// deliver `bytes` to actor i according to its delivery plan; returns false if the client task ended
    async fn deliver(&mut self, i: usize, bytes: &[u8]) -> bool {
        let w0 = self.actors[i].written;
        let cuts: Vec<usize> = match self.actors[i].delivery {
            Delivery::Whole => vec![],
            Delivery::Bytes => (1..bytes.len()).collect(),
            Delivery::Split(k) => {
                if k > w0 && k < w0 + bytes.len() {
                    vec![k - w0]
                } else {
                    vec![]
                }
            }
        };
        let mut start = 0;
        let mut alive = true;
        for end in cuts.into_iter().chain(std::iter::once(bytes.len())) {
            let chunk = &bytes[start..end];
            start = end;
            if chunk.is_empty() {
                continue;
            }
            let reads0 = self.actors[i].st.reads.load(Ordering::SeqCst);
            let ok = match self.actors[i].io.as_mut() {
                Some(io) => io.write_all(chunk).await.is_ok(),
                None => false,
            };
            if !ok {
                alive = false;
                break;
            }
            self.actors[i].written += chunk.len();
            self.actors[i].chunks += 1;
            alive = self.settle(i).await;
            if !alive || self.out.mach.is_some() {
                break;
            }
            // non-vacuity of fragmentation: the client saw this chunk in read call(s) of its own
            self.out.frag_chunks += 1;
            if self.actors[i].st.reads.load(Ordering::SeqCst) > reads0 {
                self.out.frag_reads += 1;
            }
        }
        alive
    }

    /// advance actor i by one segment (or close it if its script is exhausted / its fault point is reached)
    async fn advance(&mut self, i: usize) {
        if self.actors[i].closed || self.broken() {
            return;
        }
        if self.actors[i].handle.is_none() {
            self.start(i).await;
            if !self.settle(i).await {
                if self.out.mach.is_none() {
                    self.out.mach = Some("client task ended before any PDU was sent".into());
                }
                return;
            }
        }
        let sent_n = self.actors[i].sent.len();
        let budget = self.actors[i].fault.map(|j| (j & !RESET & !WFAIL).saturating_sub(sent_n));
        if self.actors[i].next_seg >= self.actors[i].segs.len() || budget == Some(0) {
            self.close(i).await;
            return;
        }
        let seg = self.actors[i].segs[self.actors[i].next_seg].clone();
        self.actors[i].next_seg += 1;
        // a cache only answers queries
        if let Some(q) = seg.query {
            if !self.settle(i).await {
                self.client_gone(i).await;
                return;
            }
            let qs = self.take_queries(i);
            let a = &self.actors[i];
            let ok = match q {
                ExpectQ::Reset => qs == vec![Query::Reset],
                ExpectQ::Serial(s) => qs == vec![Query::Serial(a.session, s)],
            };
            self.log(|| format!("cache {}: client sent {:?} (script expects {:?})", a.name, qs, q));
            if !ok {
                if qs.is_empty() {
                    self.out.no_query += 1;
                } else {
                    self.out.unexpected_query += 1;
                }
                // a conforming cache has nothing scripted to say here: end the session normally
                self.close(i).await;
                return;
            }
        }
        let take = budget.map(|b| b.min(seg.pdus.len())).unwrap_or(seg.pdus.len());
        let pdus = &seg.pdus[..take];
        let mut bytes = Vec::new();
        for p in pdus {
            encode(p, self.actors[i].ver, self.actors[i].session, &mut bytes);
        }
        self.log(|| {
            let l: Vec<String> = pdus.iter().map(|p| p.short()).collect();
            format!("cache {} sends [{}] ({} bytes, stream offset {})", self.actors[i].name, l.join(" "), bytes.len(), self.actors[i].written)
        });
        let alive = self.deliver(i, &bytes).await;
        if self.out.mach.is_some() {
            return;
        }
        self.actors[i].sent.extend(pdus.iter().cloned());
        self.check_progress(i, !alive);
        if self.broken() {
            return;
        }
        if !alive {
            self.client_gone(i).await;
            return;
        }
        if take < seg.pdus.len() {
            self.close(i).await;
            return;
        }
        // End-of-Data acknowledged (end_of_data counter matched in check_progress): evaluate the fold
        if matches!(seg.pdus.last(), Some(Pdu::EndOfData(_))) {
            self.apply_fold(i, &seg);
            let phase = if seg.kind == SegKind::InitResp { Phase::ResetEod } else { Phase::IncrEod };
            self.check(i, phase);
        }
        // (PDU-granular mode: a payload PDU delivered on its own is folded when its End-of-Data arrives)
        if self.broken() {
            return;
        }
        if seg.kind == SegKind::ResetResp {
            // RFC 8210 8.4: the router should now send a Reset Query; if it does, answer it
            let qs = self.take_queries(i);
            if qs.contains(&Query::Reset) {
                self.out.reset_query_after_cache_reset += 1;
                let a = &self.actors[i];
                let serial = match seg.query {
                    Some(ExpectQ::Serial(s)) => s,
                    _ => S0,
                };
                let mut pdus = vec![Pdu::CacheResponse];
                for v in &a.expect {
                    pdus.push(Pdu::Prefix(UNI.iter().position(|u| u == v).unwrap(), true));
                }
                pdus.push(Pdu::EndOfData(serial));
                let mut bytes = Vec::new();
                for p in &pdus {
                    encode(p, a.ver, a.session, &mut bytes);
                }
                self.log(|| format!("cache {}: client sent a Reset Query after Cache Reset; answering with the full set", self.actors[i].name));
                let alive = self.deliver(i, &bytes).await;
                if self.out.mach.is_some() {
                    return;
                }
                self.actors[i].sent.extend(pdus.iter().cloned());
                self.check_progress(i, !alive);
                if self.broken() || !alive {
                    return;
                }
                self.actors[i].incr_ann.clear();
                self.actors[i].incr_wd.clear();
                self.actors[i].snapshot = self.actors[i].expect.clone();
                self.check(i, Phase::ResetEod);
            } else {
                self.out.cache_reset_unanswered += 1;
            }
        }
    }

    /// reference fold (plain set operations): the payload PDUs since the last Cache Response, applied to
    /// the expected set - replacing it for a reset response, updating it for an incremental one
    fn apply_fold(&mut self, i: usize, seg: &Seg) {
        let a = &mut self.actors[i];
        // payload PDUs since the last Cache Response in `sent`
        let start = a.sent.iter().rposition(|p| matches!(p, Pdu::CacheResponse)).unwrap_or(0);
        let payload: Vec<(usize, bool)> = a.sent[start..]
            .iter()
            .filter_map(|p| match p {
                Pdu::Prefix(r, ann) => Some((*r, *ann)),
                _ => None,
            })
            .collect();
        if seg.kind == SegKind::InitResp {
            a.expect = payload.iter().filter(|(_, ann)| *ann).map(|(r, _)| UNI[*r]).collect();
            a.snapshot = a.expect.clone();
            a.incr_ann.clear();
            a.incr_wd.clear();
        } else {
            for (r, ann) in payload {
                let v = UNI[r];
                if ann {
                    a.expect.insert(v);
                    a.incr_ann.insert(v);
                    a.incr_wd.remove(&v);
                } else {
                    a.expect.remove(&v);
                    a.incr_wd.insert(v);
                    a.incr_ann.remove(&v);
                }
            }
        }
        a.synced = true;
    }

    /// the client ended the session on its own although the cache only sent conforming PDUs
    async fn client_gone(&mut self, i: usize) {
        if !self.broken() {
            self.out.viol_actor = i;
            let a = &self.actors[i];
            let last = a.sent.last().map(|p| p.name()).unwrap_or("connect");
            self.violate(
                format!("C13/progress/client-quit/{}-v{}", last, a.ver),
                format!("the client of cache {} ended the session by itself after a well-formed {} PDU", a.name, last),
            );
        }
        self.close(i).await;
    }
}

fn make_actor(name: char, script: &Script, delivery: Delivery, fault: Option<usize>, per_pdu: bool) -> Actor {
    let (ip, session) = if name == 'A' { ([192, 0, 2, 1], 0x0a0bu16) } else { ([192, 0, 2, 2], 0x0c0d) };
    let mut segs = segments(script);
    if per_pdu {
        segs = split_per_pdu(segs);
    }
    Actor {
        name,
        addr: Arc::new(IpAddr::from(ip)),
        session,
        ver: script.ver,
        segs,
        next_seg: 0,
        delivery,
        fault,
        io: None,
        st: Arc::new(IoStat::default()),
        state: Arc::new(RpkiState::default()),
        handle: None,
        written: 0,
        chunks: 0,
        sent: Vec::new(),
        inbuf: Vec::new(),
        expect: BTreeSet::new(),
        snapshot: BTreeSet::new(),
        synced: false,
        incr_ann: BTreeSet::new(),
        incr_wd: BTreeSet::new(),
        closed: false,
    }
}

async fn drive(case: &Case, verbose: bool) -> Outcome {
    // one TableManager per worker thread (constructing and dropping one per case is dominated by the
    // cross-thread bookkeeping of its ArcSwap fields); every case starts from a fresh, empty RpkiTable
    let tables: TableHandle = TABLES.with(|t| t.clone());
    *tables.rpki.write().unwrap() = table::RpkiTable::new();
    let mut w = World {
        tables,
        actors: vec![
            make_actor('A', &case.a, case.delivery, case.fault, case.two && case.per_pdu),
            make_actor('B', &case.b, Delivery::Whole, None, case.two && case.per_pdu),
        ],
        out: Outcome::default(),
        verbose,
        before: BTreeMap::new(),
        last_event: "on-other-pdu",
    };
    let sched: Vec<u8> = if case.two {
        case.merge.clone()
    } else {
        // passive cache B syncs first, then A runs its whole script and closes, then B closes
        let mut s = vec![1u8];
        s.extend(std::iter::repeat(0u8).take(w.actors[0].segs.len() + 1));
        s.push(1);
        s
    };
    for &k in &sched {
        w.step(k as usize).await;
        if w.broken() {
            break;
        }
    }
    // tear down whatever is still up (no verdicts: `broken` or already closed)
    for i in 0..w.actors.len() {
        w.actors[i].io = None;
        if let Some(h) = w.actors[i].handle.take() {
            let mut n = 0;
            while !h.is_finished() && n < TURN_LIMIT {
                tokio::task::yield_now().await;
                n += 1;
            }
            if !h.is_finished() {
                h.abort();
            }
            let _ = h.await;
        }
    }
    w.out
}

thread_local! {
    static RT: tokio::runtime::Runtime = tokio::runtime::Builder::new_current_thread().build().expect("runtime");
    static TABLES: TableHandle = Arc::new(TableManager::new(1));
    static SLOT: std::cell::Cell<usize> = const { std::cell::Cell::new(usize::MAX) };
}

// watchdog: a client that spins without yielding can not be interrupted from inside the
// runtime; the case that is running on each worker is published here.
static HEART: Mutex<Vec<Option<(std::time::Instant, String)>>> = Mutex::new(Vec::new());

fn heart_set(case: Option<String>) {
    let slot = SLOT.with(|s| {
        if s.get() == usize::MAX {
            let mut h = HEART.lock().unwrap();
            h.push(None);
            s.set(h.len() - 1);
        }
        s.get()
    });
    let mut h = HEART.lock().unwrap();
    h[slot] = case.map(|c| (std::time::Instant::now(), c));
}

fn start_watchdog() {
    static ONCE: std::sync::Once = std::sync::Once::new();
    ONCE.call_once(|| {
        std::thread::spawn(|| loop {
            std::thread::sleep(std::time::Duration::from_secs(2));
            let stuck: Option<String> = {
                let h = HEART.lock().unwrap();
                h.iter().flatten().find(|(t, _)| t.elapsed().as_secs() > WATCHDOG_SECS).map(|(_, c)| c.clone())
            };
            if let Some(c) = stuck {
                let mut rep = Report::new("C13", "hd-c13");
                rep.exhaustive = false;
                rep.machinery_error = Some(format!("a case did not return control within {WATCHDOG_SECS} s (client task spinning without yielding?): {c}"));
                rep.finish();
                std::process::exit(2);
            }
        });
    });
}

fn evaluate(case: &Case, verbose: bool) -> Outcome {
    let r = report::catch(|| RT.with(|rt| rt.block_on(drive(case, verbose))));
    match r {
        Ok(o) => o,
        Err(msg) => Outcome { mach: Some(format!("harness panicked: {msg} in case {}", case_str(case))), ..Default::default() },
    }
}

// ---------------------------------------------------------------------------
// enumeration
// ---------------------------------------------------------------------------

/// every response a conforming cache can give in one round, given the set it has announced so far:
/// a data response of <= max_len payload PDUs (announce of an absent record / withdrawal of a present
/// one - RFC 8210 5.6/5.7 forbid duplicate announcements and withdrawals of unknown records), Cache
/// Reset, or Error Report.
fn round_choices(cur: &BTreeSet<usize>, max_len: usize) -> Vec<(Round, BTreeSet<usize>)> {
    let mut out = Vec::new();
    let mut level: Vec<(Vec<(usize, bool)>, BTreeSet<usize>)> = vec![(vec![], cur.clone())];
    out.push((Round::Data(vec![]), cur.clone()));
    for _ in 0..max_len {
        let mut next = Vec::new();
        for (seq, set) in &level {
            for r in 0..3usize {
                let mut s2 = set.clone();
                let ann = !s2.contains(&r);
                if ann {
                    s2.insert(r);
                } else {
                    s2.remove(&r);
                }
                let mut q = seq.clone();
                q.push((r, ann));
                out.push((Round::Data(q.clone()), s2.clone()));
                next.push((q, s2));
            }
        }
        level = next;
    }
    out.push((Round::Reset, cur.clone()));
    out.push((Round::Error, cur.clone()));
    out
}

fn gen_rounds(cur: &BTreeSet<usize>, left: usize, max_len: usize, acc: &mut Vec<Round>, out: &mut Vec<Vec<Round>>) {
    out.push(acc.clone());
    if left == 0 {
        return;
    }
    for (r, s2) in round_choices(cur, max_len) {
        acc.push(r);
        gen_rounds(&s2, left - 1, max_len, acc, out);
        acc.pop();
    }
}

fn inits(ordered: bool) -> Vec<Vec<usize>> {
    let mut out = Vec::new();
    for sub in enumr::subsets_upto(3, 3) {
        if ordered && sub.len() > 1 {
            for p in enumr::permutations(sub.len()) {
                out.push(p.iter().map(|&i| sub[i]).collect());
            }
        } else {
            out.push(sub);
        }
    }
    out
}

/// base scripts (no unused PDU) for the given bounds
fn base_scripts(vers: &[u8], ordered_init: bool, rounds: usize, max_len: usize) -> Vec<Script> {
    let mut out = Vec::new();
    for &ver in vers {
        for init in inits(ordered_init) {
            let cur: BTreeSet<usize> = init.iter().cloned().collect();
            let mut rs = Vec::new();
            gen_rounds(&cur, rounds, max_len, &mut Vec::new(), &mut rs);
            for r in rs {
                out.push(Script { ver, init: init.clone(), rounds: r, extra: None });
            }
        }
    }
    out
}

/// the same scripts with one Router Key PDU at every payload position of every data response (v1 only)
fn with_router_key(base: &[Script], both_flags: bool) -> Vec<Script> {
    let mut out = Vec::new();
    for s in base {
        if s.ver < 1 {
            continue;
        }
        let mut resp: Vec<(usize, usize)> = vec![(0, s.init.len())];
        for (i, r) in s.rounds.iter().enumerate() {
            if let Round::Data(d) = r {
                resp.push((i + 1, d.len()));
            }
        }
        for (r, len) in resp {
            for pos in 0..=len {
                let flags: &[bool] = if both_flags && r > 0 { &[true, false] } else { &[true] };
                for &ann in flags {
                    let mut t = s.clone();
                    t.extra = Some((r, pos, ann));
                    out.push(t);
                }
            }
        }
    }
    out
}

struct Layout {
    pdu_ends: Vec<usize>,
    seg_ends: Vec<usize>,
    total: usize,
    transcript: Vec<u8>,
    vrp_pdus: usize,
}

fn layout(s: &Script) -> Layout {
    let segs = segments(s);
    let mut l = Layout { pdu_ends: vec![], seg_ends: vec![], total: 0, transcript: vec![], vrp_pdus: 0 };
    let mut bytes = Vec::new();
    for seg in &segs {
        l.transcript.push(match seg.query {
            None => 0xF0,
            Some(ExpectQ::Reset) => 0xF1,
            Some(ExpectQ::Serial(_)) => 0xF2,
        });
        for p in &seg.pdus {
            encode(p, s.ver, 0x0a0b, &mut bytes);
            l.pdu_ends.push(bytes.len());
            if matches!(p, Pdu::Prefix(..)) {
                l.vrp_pdus += 1;
            }
        }
        l.seg_ends.push(bytes.len());
        l.transcript.extend_from_slice(&(bytes.len() as u32).to_be_bytes());
    }
    l.total = bytes.len();
    l.transcript.extend_from_slice(&bytes);
    l
}

static SCRIPTS_SEEN: Mutex<Option<HashSet<u128>>> = Mutex::new(None);
static OUTCOMES: Mutex<Option<HashSet<u128>>> = Mutex::new(None);

fn note_outcome(o: &Outcome) {
    thread_local! { static LOCAL: std::cell::RefCell<HashSet<u128>> = std::cell::RefCell::new(HashSet::new()); }
    let mut t = o.trace.clone();
    if let Some((sig, _)) = &o.viol {
        t.extend_from_slice(sig.as_bytes());
    }
    let h = hash128(&t);
    let new = LOCAL.with(|l| l.borrow_mut().insert(h));
    if new {
        OUTCOMES.lock().unwrap().get_or_insert_with(HashSet::new).insert(h);
    }
}

fn absorb(rep: &mut Report, o: &Outcome) {
    rep.evaluations += 1;
    rep.add("oracle_checks", o.checks);
    rep.add("cache_reset_not_followed_by_reset_query", o.cache_reset_unanswered);
    rep.add("cache_reset_followed_by_reset_query", o.reset_query_after_cache_reset);
    rep.add("rounds_without_query_after_notify", o.no_query);
    rep.add("rounds_with_unexpected_query", o.unexpected_query);
    rep.add("chunks_delivered", o.frag_chunks);
    rep.add("chunks_read_separately_by_client", o.frag_reads);
    let m = rep.extra.entry("max_scheduler_turns_to_ack".into()).or_insert(0);
    *m = (*m).max(o.max_turns);
    if let Some(e) = &o.mach {
        if rep.machinery_error.is_none() {
            rep.machinery_error = Some(e.clone());
        }
    }
    note_outcome(o);
}

thread_local! {
    /// signature (or none) of simplified cases already evaluated for the current work item
    static MIN_CACHE: std::cell::RefCell<std::collections::HashMap<String, Option<(String, String)>>> = std::cell::RefCell::new(std::collections::HashMap::new());
}

fn cached_verdict(rep: &mut Report, c: &Case) -> Option<(String, String)> {
    let key = case_str(c);
    if let Some(v) = MIN_CACHE.with(|m| m.borrow().get(&key).cloned()) {
        return v;
    }
    let o = evaluate(c, false);
    rep.add("minimisation_reruns", 1);
    MIN_CACHE.with(|m| m.borrow_mut().insert(key, o.viol.clone()));
    o.viol
}

fn remember_verdict(c: &Case, o: &Outcome) {
    if !c.two && c.delivery == Delivery::Whole {
        MIN_CACHE.with(|m| m.borrow_mut().insert(case_str(c), o.viol.clone()));
    }
}

fn sig_suffix(c: &Case, sig: &mut String) {
    if c.two {
        sig.push_str("+two-active-caches");
    } else {
        if c.delivery != Delivery::Whole {
            sig.push_str("+only-when-fragmented");
        }
        if c.a.extra.is_some() && !sig.starts_with("C13/progress/") {
            sig.push_str("+with-unused-pdu");
        }
    }
}

/// Report the violation of `case` under the simplest variant of the case that shows the same signature.
fn report_violation(rep: &mut Report, case: &Case, o: &Outcome) {
    let Some((sig, what)) = o.viol.clone() else { return };
    let mut best = (case.clone(), sig.clone(), what);
    // candidates, simplest first
    let mut cands: Vec<Case> = Vec::new();
    if case.two {
        // the script of the cache whose event broke the clause, alone (next to the passive second cache)
        let s = if o.viol_actor == 0 { case.a.clone() } else { case.b.clone() };
        cands.push(Case { two: false, a: s, b: passive_b(), delivery: Delivery::Whole, fault: None, merge: vec![], per_pdu: false });
    } else {
        let mut c = case.clone();
        c.delivery = Delivery::Whole;
        c.fault = None;
        c.a.extra = None;
        cands.push(c);
        let mut c = case.clone();
        c.delivery = Delivery::Whole;
        c.fault = None;
        cands.push(c);
        let mut c = case.clone();
        c.delivery = Delivery::Whole;
        cands.push(c);
    }
    let me = case_str(case);
    for c in cands {
        if case_str(&c) == me {
            break; // already as simple as this candidate
        }
        if let Some((s2, w2)) = cached_verdict(rep, &c) {
            if s2 == sig {
                best = (c, s2, w2);
                break;
            }
        }
    }
    let (c, mut sig, what) = best;
    sig_suffix(&c, &mut sig);
    let v = Violation { sig, what, case: case_str(&c) };
    // witness per signature independent of thread timing: shortest case, ties broken lexicographically
    {
        let mut b = BEST.lock().unwrap();
        match b.get_mut(&v.sig) {
            Some(old) => {
                if (v.case.len(), &v.case) < (old.case.len(), &old.case) {
                    *old = v.clone();
                }
            }
            None => {
                b.insert(v.sig.clone(), v.clone());
            }
        }
    }
    rep.violation(v);
}

static BEST: Mutex<BTreeMap<String, Violation>> = Mutex::new(BTreeMap::new());

/// Product: every delivery x every close point.  Sum: (every delivery, no fault) + ({whole, bytewise} x every
/// close point).  Coarse: {whole, bytewise} x ({no fault} + every close point).
#[derive(Clone, Copy, PartialEq, Eq, Debug)]
enum Mode {
    Product,
    Sum,
    Coarse,
}

/// all (delivery, fault) variants of one script, canonicalised: a split beyond the close point or on a
/// segment boundary is the same execution as `whole`.
fn variants(l: &Layout, mode: Mode) -> Vec<(Delivery, Option<usize>)> {
    let (splits, faults) = (mode != Mode::Coarse, true);
    let n = l.pdu_ends.len();
    let mut seen: HashSet<(usize, u8, usize)> = HashSet::new();
    let mut out = Vec::new();
    let mut fs: Vec<Option<usize>> = vec![None];
    if faults {
        fs.extend((0..n).map(Some));
    }
    // the same close points once more with the session ending in a read error instead of EOF
    let resets: Vec<Option<usize>> = if faults { (0..n).map(|j| Some(j | RESET)).collect() } else { vec![] };
    for f in &resets {
        out.push((Delivery::Whole, *f));
    }
    // ... and with the client's write side broken before the cache's next Serial Notify
    if faults {
        for j in 0..n {
            out.push((Delivery::Whole, Some(j | WFAIL)));
        }
    }
    for f in fs {
        let close_off = match f {
            None => l.total,
            Some(0) => 0,
            Some(j) => l.pdu_ends[j - 1],
        };
        let fkey = f.map(|j| j + 1).unwrap_or(0);
        let mut ds = vec![Delivery::Whole, Delivery::Bytes];
        if splits && (mode == Mode::Product || f.is_none()) {
            ds.extend((1..l.total).map(Delivery::Split));
        }
        for d in ds {
            let key = match d {
                Delivery::Whole => (fkey, 0u8, 0usize),
                Delivery::Bytes => {
                    if close_off <= 1 {
                        (fkey, 0, 0)
                    } else {
                        (fkey, 1, 0)
                    }
                }
                Delivery::Split(k) => {
                    if k >= close_off || l.seg_ends.contains(&k) {
                        (fkey, 0, 0)
                    } else {
                        (fkey, 2, k)
                    }
                }
            };
            if seen.insert(key) {
                out.push((d, f));
            }
        }
    }
    out
}

fn explore_single(rep: &mut Report, name: &str, scripts: Vec<Script>, mode: Mode) {
    let t0 = std::time::Instant::now();
    let ev0 = rep.evaluations;
    let d0 = rep.distinct_nontrivial;
    let v0 = rep.violations.len();
    let n = scripts.len() as u64;
    enumr::par_range(n, rep, |i, local| {
        let s = &scripts[i as usize];
        let l = layout(s);
        let fresh = SCRIPTS_SEEN.lock().unwrap().get_or_insert_with(HashSet::new).insert(hash128(&l.transcript));
        if !fresh {
            local.add("duplicate_scripts_skipped", 1);
            return;
        }
        let nontrivial = l.vrp_pdus > 0 || !s.rounds.is_empty() || s.extra.is_some();
        local.add("distinct_scripts", 1);
        heart_set(Some(script_str(s)));
        MIN_CACHE.with(|m| m.borrow_mut().clear());
        for (d, f) in variants(&l, mode) {
            let case = Case { two: false, a: s.clone(), b: passive_b(), delivery: d, fault: f, merge: vec![], per_pdu: false };
            let o = evaluate(&case, false);
            remember_verdict(&case, &o);
            absorb(local, &o);
            if nontrivial {
                local.distinct_nontrivial += 1;
            }
            if o.viol.is_some() {
                report_violation(local, &case, &o);
            }
            let idx = local.evaluations;
            local.sample(idx, || format!("{} -> {} oracle checks, {}", case_str(&case), o.checks, o.viol.as_ref().map(|v| v.0.clone()).unwrap_or_else(|| "ok".into())));
        }
        heart_set(None);
    });
    rep.notes.push(format!(
        "{name} [{mode:?}]: {} scripts, {} executions, {} distinct non-trivial (script,delivery,fault) cases, {} new violation signatures, {:.1}s",
        n,
        rep.evaluations - ev0,
        rep.distinct_nontrivial - d0,
        rep.violations.len() - v0,
        t0.elapsed().as_secs_f64()
    ));
}

/// all interleavings of na steps of actor 0 and nb steps of actor 1
fn merges(na: usize, nb: usize) -> Vec<Vec<u8>> {
    fn rec(na: usize, nb: usize, cur: &mut Vec<u8>, out: &mut Vec<Vec<u8>>) {
        if na == 0 && nb == 0 {
            out.push(cur.clone());
            return;
        }
        if na > 0 {
            cur.push(0);
            rec(na - 1, nb, cur, out);
            cur.pop();
        }
        if nb > 0 {
            cur.push(1);
            rec(na, nb - 1, cur, out);
            cur.pop();
        }
    }
    let mut out = Vec::new();
    rec(na, nb, &mut Vec::new(), &mut out);
    out
}

fn explore_two(rep: &mut Report, name: &str, sa: Vec<Script>, sb: Vec<Script>, per_pdu: bool) {
    // the two caches differ only in their address: when both range over the same script list, (A=x,B=y,m) and
    // (A=y,B=x,complement of m) are the same case - evaluate one of them
    let symmetric = sa == sb;
    let t0 = std::time::Instant::now();
    let ev0 = rep.evaluations;
    let v0 = rep.violations.len();
    let n = (sa.len() * sb.len()) as u64;
    let steps = |s: &Script| -> usize {
        let segs = segments(s);
        (if per_pdu { segs.iter().map(|g| g.pdus.len()).sum::<usize>() } else { segs.len() }) + 1
    };
    enumr::par_range(n, rep, |i, local| {
        let (ia, ib) = (i as usize / sb.len(), i as usize % sb.len());
        if symmetric && ia > ib {
            return;
        }
        let a = &sa[ia];
        let b = &sb[ib];
        heart_set(Some(format!("T|{}|{}", script_str(a), script_str(b))));
        MIN_CACHE.with(|m| m.borrow_mut().clear());
        for m in merges(steps(a), steps(b)) {
            if symmetric && ia == ib {
                let comp: Vec<u8> = m.iter().map(|x| 1 - x).collect();
                if comp < m {
                    continue;
                }
            }
            let case = Case { two: true, a: a.clone(), b: b.clone(), delivery: Delivery::Whole, fault: None, merge: m, per_pdu };
            let o = evaluate(&case, false);
            absorb(local, &o);
            // distinct by construction: (unordered pair of scripts, interleaving up to the A<->B symmetry)
            if !(a.init.is_empty() && a.rounds.is_empty() && b.init.is_empty() && b.rounds.is_empty()) {
                local.distinct_nontrivial += 1;
            }
            if o.viol.is_some() {
                report_violation(local, &case, &o);
            }
            let idx = local.evaluations;
            local.sample(idx, || format!("{} -> {} oracle checks, {}", case_str(&case), o.checks, o.viol.as_ref().map(|v| v.0.clone()).unwrap_or_else(|| "ok".into())));
        }
        heart_set(None);
    });
    rep.notes.push(format!(
        "{name}: {} ordered script pairs (mirror images evaluated once), {} executions (every interleaving at {} granularity incl. the two closes), {} new violation signatures, {:.1}s",
        n,
        rep.evaluations - ev0,
        if per_pdu { "PDU" } else { "segment" },
        rep.violations.len() - v0,
        t0.elapsed().as_secs_f64()
    ));
}

/// Decoder-level facts behind the progress clause, observed directly on `RtrCodec::decode`
/// (diagnostic notes only - the verdicts come from the executions above).
fn decoder_probe(rep: &mut Report) {
    use bytes::BytesMut;
    use tokio_util::codec::Decoder;
    let mut codec = rpki::RtrCodec::new();
    // a complete Router Key PDU followed by a complete End-of-Data
    let mut b = Vec::new();
    encode(&Pdu::RouterKey(true), 1, 1, &mut b);
    let rk = b.len();
    encode(&Pdu::EndOfData(9), 1, 1, &mut b);
    let mut buf = BytesMut::from(&b[..]);
    let r = report::catch(|| codec.decode(&mut buf).map(|m| m.is_some()).map_err(|e| e.to_string()));
    rep.notes.push(format!(
        "decoder probe: buffer = complete Router Key PDU ({rk} bytes) + complete End-of-Data: RtrCodec::decode -> {:?}, {} of {} bytes left in the buffer",
        r,
        buf.len(),
        b.len()
    ));
    // header with length 0 (malformed, C03 territory): does decode return a message without consuming?
    let mut buf = BytesMut::from(&[1u8, 3, 0, 1, 0, 0, 0, 0][..]);
    let r = report::catch(|| codec.decode(&mut buf).map(|m| m.is_some()).map_err(|e| e.to_string()));
    rep.notes.push(format!(
        "decoder probe (malformed input, outside C13's conforming grammar): Cache Response header with length field 0: RtrCodec::decode -> {:?}, {} of 8 bytes left",
        r,
        buf.len()
    ));
}


// ---------------------------------------------------------------------------
// The operator ends the session (DeleteRpki / DisableRpki / hard ResetRpki cancel the
// client's token): RpkiClient::try_connect over loopback TCP, VRPs installed, token
// cancelled, task awaited.  "All of a cache's VRPs are removed when its session ends."
// The branch tokio::select! takes when several are ready is drawn from a generator the
// harness does not own, so this part REPEATS the scenario; it is a supplement, not an
// exhaustive exploration, and it can only alarm when VRPs really stayed behind.
// ---------------------------------------------------------------------------

// ---------------------------------------------------------------------------
// Two caches reachable at ONE IP address (different ports): they are different sources.
// Both announce the same VRP; while either of them still announces it, it stays installed.
// ---------------------------------------------------------------------------

fn same_address_caches(rep: &mut Report) {
    use tokio::io::{AsyncReadExt, AsyncWriteExt};
    let rt = match tokio::runtime::Builder::new_current_thread().enable_all().build() {
        Ok(r) => r,
        Err(e) => {
            rep.machinery_error = Some(format!("runtime: {e}"));
            return;
        }
    };
    // (which cache finishes its snapshot first, which one takes the VRP back, how)
    for first in [0usize, 1] {
        for leaver in [0usize, 1] {
            for withdraw in [false, true] {
                let case = format!("same-address#first={}#leaver={}#{}", ["A", "B"][first], ["A", "B"][leaver], if withdraw { "withdraw" } else { "session-end" });
                let r: Result<Option<String>, String> = rt.block_on(async {
                    let tables: TableHandle = Arc::new(crate::table_manager::TableManager::new(1));
                    let ip: IpAddr = "192.0.2.77".parse().unwrap();
                    let mut ends: Vec<Option<DuplexStream>> = Vec::new();
                    let mut states = Vec::new();
                    let mut tasks = Vec::new();
                    for _ in 0..2 {
                        let (ours, theirs) = tokio::io::duplex(1 << 16);
                        let st = Arc::new(RpkiState::default());
                        let lines = Framed::new(theirs, rpki::RtrCodec::new());
                        let h = tokio::spawn(RpkiClient::serve_inner(lines, Arc::new(ip), tokio_util::sync::CancellationToken::new(), Arc::new(tokio::sync::Notify::new()), st.clone(), tables.clone()));
                        ends.push(Some(ours));
                        states.push(st);
                        tasks.push(Some(h));
                    }
                    let installed = |t: &TableHandle| t.collect_roa(packet::Family::IPV4).len();
                    let wait_eod = |st: Arc<RpkiState>, n: i64| async move {
                        let t0 = std::time::Instant::now();
                        while st.end_of_data.load(Ordering::SeqCst) < n {
                            if t0.elapsed() > std::time::Duration::from_secs(10) {
                                return Err("End of Data was not processed".to_string());
                            }
                            tokio::time::sleep(std::time::Duration::from_micros(200)).await;
                        }
                        Ok(())
                    };
                    for i in [first, 1 - first] {
                        let e = ends[i].as_mut().unwrap();
                        let mut q = [0u8; 8];
                        e.read_exact(&mut q).await.map_err(|e| format!("reset query: {e}"))?;
                        let mut out = Vec::new();
                        encode(&Pdu::CacheResponse, 1, 7 + i as u16, &mut out);
                        encode(&Pdu::Prefix(0, true), 1, 7 + i as u16, &mut out);
                        encode(&Pdu::EndOfData(1), 1, 7 + i as u16, &mut out);
                        e.write_all(&out).await.map_err(|e| e.to_string())?;
                        wait_eod(states[i].clone(), 1).await?;
                    }
                    if installed(&tables) == 0 {
                        return Ok(Some("vrp-lost/after-both-snapshots: both caches announced the VRP, none is installed".into()));
                    }
                    // one cache takes it back
                    if withdraw {
                        let e = ends[leaver].as_mut().unwrap();
                        let mut out = Vec::new();
                        encode(&Pdu::SerialNotify(2), 1, 7 + leaver as u16, &mut out);
                        e.write_all(&out).await.map_err(|e| e.to_string())?;
                        let mut q = [0u8; 12];
                        tokio::time::timeout(std::time::Duration::from_secs(10), e.read_exact(&mut q)).await.map_err(|_| "no Serial Query".to_string())?.map_err(|e| e.to_string())?;
                        let mut out = Vec::new();
                        encode(&Pdu::CacheResponse, 1, 7 + leaver as u16, &mut out);
                        encode(&Pdu::Prefix(0, false), 1, 7 + leaver as u16, &mut out);
                        encode(&Pdu::EndOfData(2), 1, 7 + leaver as u16, &mut out);
                        e.write_all(&out).await.map_err(|e| e.to_string())?;
                        wait_eod(states[leaver].clone(), 2).await?;
                    } else {
                        ends[leaver] = None;
                        if let Some(h) = tasks[leaver].take() {
                            let _ = tokio::time::timeout(std::time::Duration::from_secs(10), h).await.map_err(|_| "the client task did not end at end of stream".to_string())?;
                        }
                    }
                    if installed(&tables) == 0 {
                        return Ok(Some(format!("vrp-lost/{}: cache {} took the VRP back, cache {} still announces it, yet it is no longer installed", if withdraw { "other-cache-withdrew" } else { "other-cache-session-ended" }, ["A", "B"][leaver], ["A", "B"][1 - leaver])));
                    }
                    // the other one goes too
                    ends[1 - leaver] = None;
                    if let Some(h) = tasks[1 - leaver].take() {
                        let _ = tokio::time::timeout(std::time::Duration::from_secs(10), h).await.map_err(|_| "the client task did not end at end of stream".to_string())?;
                    }
                    if withdraw {
                        ends[leaver] = None;
                        if let Some(h) = tasks[leaver].take() {
                            let _ = tokio::time::timeout(std::time::Duration::from_secs(10), h).await;
                        }
                    }
                    if installed(&tables) != 0 {
                        return Ok(Some("left-behind: both sessions have ended, the VRP is still installed".into()));
                    }
                    Ok(None)
                });
                rep.evaluations += 1;
                match r {
                    Err(e) => {
                        rep.machinery_error = Some(format!("c13 same-address caches ({case}): {e}"));
                        return;
                    }
                    Ok(None) => {}
                    Ok(Some(msg)) => {
                        let clause = msg.split(':').next().unwrap_or("").to_string();
                        rep.violation(Violation { sig: format!("C13/isolation/same-address/{clause}"), what: format!("two caches at one IP address ({case}): {msg}"), case });
                    }
                }
            }
        }
    }
    rep.notes.push("c13-same-address: two caches at one IP address announcing an identical VRP; 8 orders of snapshot completion x who takes it back x (incremental withdrawal | session end)".into());
}

fn operator_cancel_once() -> Result<usize, String> {
    use tokio::io::{AsyncReadExt, AsyncWriteExt};
    let rt = tokio::runtime::Builder::new_current_thread().enable_all().build().map_err(|e| e.to_string())?;
    rt.block_on(async {
        let listener = tokio::net::TcpListener::bind("127.0.0.1:0").await.map_err(|e| format!("bind: {e}"))?;
        let sockaddr = listener.local_addr().map_err(|e| e.to_string())?;
        let tables: TableHandle = Arc::new(crate::table_manager::TableManager::new(1));
        let cancel = tokio_util::sync::CancellationToken::new();
        let state = Arc::new(RpkiState::default());
        RpkiClient::try_connect(sockaddr, cancel.clone(), Arc::new(tokio::sync::Notify::new()), state.clone(), tables.clone());
        let (mut sock, _) = tokio::time::timeout(std::time::Duration::from_secs(10), listener.accept()).await.map_err(|_| "the client did not connect".to_string())?.map_err(|e| e.to_string())?;
        let mut q = [0u8; 8];
        tokio::time::timeout(std::time::Duration::from_secs(10), sock.read_exact(&mut q)).await.map_err(|_| "no Reset Query".to_string())?.map_err(|e| e.to_string())?;
        let mut out = Vec::new();
        encode(&Pdu::CacheResponse, 1, 7, &mut out);
        encode(&Pdu::Prefix(0, true), 1, 7, &mut out);
        encode(&Pdu::EndOfData(1), 1, 7, &mut out);
        sock.write_all(&out).await.map_err(|e| e.to_string())?;
        let t0 = std::time::Instant::now();
        while tables.collect_roa(packet::Family::IPV4).is_empty() {
            if t0.elapsed() > std::time::Duration::from_secs(10) {
                return Err("the snapshot was not installed".to_string());
            }
            tokio::time::sleep(std::time::Duration::from_millis(1)).await;
        }
        cancel.cancel();
        // the client task ends on cancellation: wait until its end of the socket is closed
        let mut b = [0u8; 64];
        let _ = tokio::time::timeout(std::time::Duration::from_secs(10), async {
            loop {
                match sock.read(&mut b).await {
                    Ok(0) | Err(_) => break,
                    Ok(_) => {}
                }
            }
        })
        .await;
        tokio::time::sleep(std::time::Duration::from_millis(20)).await;
        Ok(tables.collect_roa(packet::Family::IPV4).len())
    })
}

fn operator_cancel(rep: &mut Report, runs: usize) {
    let mut left = 0usize;
    for _ in 0..runs {
        match operator_cancel_once() {
            Ok(n) => {
                rep.evaluations += 1;
                if n > 0 {
                    left += 1;
                }
            }
            Err(e) => {
                rep.machinery_error = Some(format!("c13 operator-cancel: {e}"));
                return;
            }
        }
    }
    rep.notes.push(format!("c13-operator-cancel: {runs} repetitions (NOT exhaustive: tokio::select!'s choice among ready branches is not owned by the harness) of try_connect over loopback TCP, snapshot installed, token cancelled; VRPs left behind in {left}"));
    if left > 0 {
        rep.violation(Violation {
            sig: "C13/session-end/left-behind/operator-cancel".into(),
            what: format!("the session was ended by cancelling the client's token (DeleteRpki / DisableRpki / hard ResetRpki) after a snapshot of one VRP had been installed: in {left} of {runs} repetitions the VRP is still installed after the client task has gone"),
            case: "operator-cancel".into(),
        });
    }
}

pub(crate) fn run_c13(replay: Option<&str>) -> Report {
    let mut rep = Report::new("C13", "hd-c13");
    report::quiet_panics();
    start_watchdog();
    if replay.is_some_and(|c| c.starts_with("same-address#")) {
        same_address_caches(&mut rep);
        return rep;
    }
    if replay == Some("operator-cancel") {
        operator_cancel(&mut rep, 200);
        return rep;
    }
    if let Some(case) = replay {
        let Some(c) = parse_case(case) else {
            rep.machinery_error = Some(format!("unparsable case {case:?}"));
            return rep;
        };
        eprintln!("replay {}", case_str(&c));
        let o = evaluate(&c, true);
        absorb(&mut rep, &o);
        if let Some((sig, what)) = &o.viol {
            let mut sig = sig.clone();
            sig_suffix(&c, &mut sig);
            eprintln!("replay: {} :: {}", sig, what);
            rep.violation(Violation { sig, what: what.clone(), case: case_str(&c) });
        } else {
            eprintln!("replay: no violation ({} oracle checks)", o.checks);
        }
        return rep;
    }

    let thorough = rep.thorough();
    rep.rule = "case = (cache script from the RFC 6810/8210 grammar: version in {0,1}; reset response announcing a subset of {v4a,v4b (same prefix, other max-len),v6a}; <=R rounds of Serial Notify -> observed Serial Query -> data response (<=L announce-of-absent/withdraw-of-present PDUs) | Cache Reset | Error Report; optional Router Key PDU at every payload position) x delivery (whole segments, byte-by-byte, every single split offset) x session loss after every PDU, all run against the real serve_inner next to a second cache holding an identical VRP; plus two scripted caches under every interleaving. Distinct = distinct wire transcript x canonical (split offset, close point); non-trivial = at least one VRP PDU, round or unused PDU".into();

    decoder_probe(&mut rep);
    operator_cancel(&mut rep, if thorough { 200 } else { 40 });
    same_address_caches(&mut rep);

    if !thorough {
        // full product delivery x fault for one round, sum for two rounds
        explore_single(&mut rep, "single R<=1 L<=1", base_scripts(&[0, 1], false, 1, 1), Mode::Product);
        explore_single(&mut rep, "single R<=2 L<=1", base_scripts(&[0, 1], false, 2, 1), Mode::Sum);
        explore_single(&mut rep, "router-key R=0", with_router_key(&base_scripts(&[1], false, 0, 1), false), Mode::Product);
        explore_single(&mut rep, "router-key R<=1 L<=1", with_router_key(&base_scripts(&[1], false, 1, 1), false), Mode::Sum);
        explore_single(&mut rep, "single R<=2 L<=2", base_scripts(&[0, 1], false, 2, 2), Mode::Coarse);
        let s2: Vec<Script> = base_scripts(&[1], false, 1, 1).into_iter().filter(|s| matches!(s.init.as_slice(), [] | [0] | [0, 1] | [0, 2])).collect();
        explore_two(&mut rep, "two caches R<=1 L<=1 segment interleavings", s2.clone(), s2, false);
    } else {
        explore_single(&mut rep, "single R<=2 L<=2", base_scripts(&[0, 1], false, 2, 2), Mode::Product);
        explore_single(&mut rep, "single R<=1 L<=1 ordered reset responses", base_scripts(&[0, 1], true, 1, 1), Mode::Product);
        explore_single(&mut rep, "single R<=3 L<=1", base_scripts(&[0, 1], false, 3, 1), Mode::Sum);
        explore_single(&mut rep, "router-key R<=1 L<=1", with_router_key(&base_scripts(&[1], false, 1, 1), true), Mode::Product);
        explore_single(&mut rep, "router-key R<=2 L<=1", with_router_key(&base_scripts(&[1], false, 2, 1), true), Mode::Sum);
        explore_single(&mut rep, "single R<=3 L<=2", base_scripts(&[0, 1], false, 3, 2), Mode::Coarse);
        let sa = base_scripts(&[1], false, 2, 1);
        let sb: Vec<Script> = base_scripts(&[1], false, 1, 1).into_iter().filter(|s| matches!(s.init.as_slice(), [] | [0] | [0, 1] | [0, 2])).collect();
        explore_two(&mut rep, "two caches R<=2/R<=1 L<=1 segment interleavings", sa, sb, false);
        let tiny: Vec<Script> = base_scripts(&[1], false, 1, 1).into_iter().filter(|s| matches!(s.init.as_slice(), [] | [0])).collect();
        explore_two(&mut rep, "two caches R<=1 L<=1 PDU interleavings", tiny.clone(), tiny, true);
    }

    for (sig, v) in BEST.lock().unwrap().iter() {
        if let Some((w, _)) = rep.violations.get_mut(sig) {
            *w = v.clone();
        }
    }
    let outcomes = OUTCOMES.lock().unwrap().as_ref().map(|s| s.len()).unwrap_or(0);
    rep.add("distinct_observation_traces", outcomes as u64);
    rep.notes.push(format!("{} distinct observation traces (sequence of per-source VRP sets seen at the oracle points + verdict)", outcomes));
    let chunks = rep.extra.get("chunks_delivered").cloned().unwrap_or(0);
    let sep = rep.extra.get("chunks_read_separately_by_client").cloned().unwrap_or(0);
    if chunks != sep && rep.machinery_error.is_none() {
        rep.machinery_error = Some(format!("fragmentation not effective: {chunks} chunks delivered but only {sep} were read by the client in a read of their own"));
    }
    rep.notes.push("assume: a version-0 cache answers the client's version-1 queries with version-0 PDUs (RFC 8210 section 7, case 2); the client's queries are always version 1".into());
    rep.notes.push("assume: acknowledgement = the client has read every byte and is parked in poll_read (tap on its end of the duplex) + its public receive counters; no sleeps, no wall clock".into());
    rep.notes.push("assume: Error Report rounds use error code 2 (No Data Available, non-fatal); fatal Error Reports are covered only as 'connection closed after the PDU'".into());
    rep.notes.push("assume: a conforming cache never announces a record it already announced nor withdraws an unknown one (RFC 8210 5.6/5.7), so scripts contain neither".into());
    rep
}
