// Driver-level parts of C03 and C04: the session's own I/O code (run_select's read loop,
// flush_tx) around the codecs that the hx parts explore.  A socket-less PeerSession whose
// arbiter is Established is given one end of a loopback TCP pair; the harness plays the peer.

use super::super::*;
use super::common::*;
use crate::verif::vx::report::{Report, Violation};
use std::net::{IpAddr, Ipv4Addr, SocketAddr};

async fn established_session(addr: IpAddr) -> Result<(PeerSession, Daemon), String> {
    let d = Daemon::new(1);
    let caps = vec![packet::Capability::MultiProtocol(Family::IPV4), packet::Capability::FourOctetAsNumber(65001)];
    let fsm = crate::fsm::PeerFsm::new(u32::from(Ipv4Addr::new(1, 0, 0, 1)), 65001, caps, 90, 0, FnvHashMap::default());
    let conn_arbiter = Arc::new(std::sync::Mutex::new(ConnArbiter::new(fsm)));
    let ctx = Arc::new(std::sync::Mutex::new(PeerContext {
        conn_arbiter: conn_arbiter.clone(),
        active_connect_cancel_tx: None,
        active_connect_join_handle: None,
        gr_state: crate::gr::GrState::new(),
        gr_restart_timer: None,
        llgr_family_timers: FnvHashMap::default(),
        rtc_state: crate::rtc::RtcState::new(),
        rtc_eor_timer: None,
    }));
    let mut session = PeerSession::new_for_test(addr, ctx, d.tables.clone());
    session.conn_arbiter = conn_arbiter.clone();
    session.context.lock().unwrap().conn_arbiter = conn_arbiter.clone();
    let role = session.role;
    {
        let mut arb = conn_arbiter.lock().unwrap();
        arb.process(role, crate::fsm::Input::Connected(false));
        let outs = arb.process(
            role,
            crate::fsm::Input::MessageReceived(bgp::Message::Open(bgp::Open { as_number: 65002, holdtime: HoldTime::new(90).ok_or("hold time")?, router_id: 20, capability: vec![packet::Capability::MultiProtocol(Family::IPV4), packet::Capability::FourOctetAsNumber(65002)] })),
        );
        for o in outs {
            if let crate::fsm::PeerFsmOutput::Connection(_, crate::fsm::Output::SessionNegotiated(c)) = o {
                session.codec = c;
            }
        }
        arb.process(role, crate::fsm::Input::MessageReceived(bgp::Message::Keepalive));
        if arb.state(role) != crate::fsm::State::Established {
            return Err("arbiter did not reach Established".to_string());
        }
    }
    session.source.insert(Family::IPV4, Arc::new(table::Source::new(addr, IpAddr::V4(Ipv4Addr::new(127, 0, 0, 1)), 65002, 65001, Ipv4Addr::new(0, 0, 0, 20), table::PeerRole::Ebgp)));
    Ok((session, d))
}

fn keepalive() -> Vec<u8> {
    let mut v = vec![0xffu8; 16];
    v.extend_from_slice(&[0, 19, 4]);
    v
}

/// number of COMPLETE frames at the start of `b`
fn complete_frames(b: &[u8]) -> usize {
    let (mut p, mut n) = (0usize, 0usize);
    while b.len() >= p + 19 {
        let l = u16::from_be_bytes([b[p + 16], b[p + 17]]) as usize;
        if l < 19 || b.len() < p + l {
            break;
        }
        p += l;
        n += 1;
    }
    n
}

/// C03, driver: a burst of N complete frames that arrives in ONE read is consumed (or rejected)
/// completely by that wake-up: nothing complete may be left in the receive buffer waiting for
/// the neighbour's next bytes.
pub(crate) fn run_c03(_replay: Option<&str>) -> Report {
    let mut rep = Report::new("C03", "hd-c03drv");
    rep.rule = "bursts of N in {1, 2, 63, 64, 65, 100, 300, 1000} KEEPALIVE frames (optionally followed by a frame with an unknown type) written in one piece to the socket of an Established session; the real run_select is woken once all bytes are in the socket buffer; afterwards every complete frame must have been counted or the session ended with a NOTIFICATION".into();
    let rt = runtime();
    for n in [1usize, 2, 63, 64, 65, 100, 300, 1000] {
        for bad_tail in [false, true] {
            let case = format!("burst#{n}#{}", bad_tail as u8);
            let r: Result<Option<String>, String> = rt.block_on(async {
                use tokio::io::AsyncWriteExt;
                let addr = IpAddr::V4(Ipv4Addr::new(127, 0, 8, 210));
                let (mut session, d) = established_session(addr).await?;
                let la = SocketAddr::new(IpAddr::V4(Ipv4Addr::new(127, 0, 0, 1)), 179);
                let ra = SocketAddr::new(addr, 40000);
                let (mut client, mut server) = socket_pair(addr).await?;
                let mut bytes = Vec::new();
                for _ in 0..n {
                    bytes.extend(keepalive());
                }
                if bad_tail {
                    let mut f = vec![0xffu8; 16];
                    f.extend_from_slice(&[0, 19, 9]);
                    bytes.extend(f);
                }
                client.write_all(&bytes).await.map_err(|e| format!("write: {e}"))?;
                // all bytes in the server's socket buffer before the driver is woken
                let t0 = std::time::Instant::now();
                loop {
                    let mut probe = vec![0u8; bytes.len()];
                    match server.peek(&mut probe).await {
                        Ok(k) if k >= bytes.len() => break,
                        Ok(_) => {}
                        Err(e) => return Err(format!("peek: {e}")),
                    }
                    if t0.elapsed() > std::time::Duration::from_secs(5) {
                        return Err("the burst did not arrive in the socket buffer".to_string());
                    }
                    tokio::time::sleep(std::time::Duration::from_millis(1)).await;
                }
                let mut rxbuf = bytes::BytesMut::with_capacity(1 << 17);
                let mut close_rx: CloseRxFuture = None.into();
                let before = session.counter_rx.total.load(Ordering::Relaxed);
                let mut terminated = false;
                // one wake-up reads everything (the buffer holds 128 KiB); a second call is allowed for
                // the write-readiness arm the select may serve first
                for _ in 0..3 {
                    match tokio::time::timeout(std::time::Duration::from_millis(1500), session.run_select(&d.global, &mut server, &mut rxbuf, ra, la, &mut close_rx)).await {
                        Ok(Step::Continue) => {}
                        Ok(_) => {
                            terminated = true;
                            break;
                        }
                        Err(_) => break, // nothing more to wake up for
                    }
                    if session.counter_rx.total.load(Ordering::Relaxed) - before >= (n + bad_tail as usize) as u64 {
                        break;
                    }
                }
                let counted = (session.counter_rx.total.load(Ordering::Relaxed) - before) as usize;
                let left = complete_frames(&rxbuf);
                if terminated {
                    return Ok(if bad_tail && counted >= n { None } else { Some(format!("session-ended: the session ended after {counted} of {n} KEEPALIVEs")) });
                }
                if left > 0 {
                    return Ok(Some(format!("complete-frames-left-unparsed: {left} complete frame(s) sit in the receive buffer after the wake-up ({counted} of {} counted); they are looked at only when the neighbour sends something else", n + bad_tail as usize)));
                }
                if bad_tail {
                    return Ok(Some(format!("bad-frame-not-rejected: a frame with message type 9 behind {n} KEEPALIVEs was neither rejected nor left ({counted} counted)")));
                }
                if counted < n {
                    return Ok(Some(format!("frames-lost: {counted} of {n} KEEPALIVEs counted and nothing left in the buffer")));
                }
                Ok(None)
            });
            rep.evaluations += 1;
            match r {
                Err(e) => {
                    rep.machinery_error = Some(format!("c03 driver ({case}): {e}"));
                    return rep;
                }
                Ok(None) => {}
                Ok(Some(msg)) => {
                    let clause = msg.split(':').next().unwrap_or("").to_string();
                    rep.violation(Violation { sig: format!("C03/stall/driver/{clause}"), what: format!("burst of {n} KEEPALIVEs{} in one read: {msg}", if bad_tail { " + one frame of unknown type" } else { "" }), case });
                }
            }
        }
    }
    rep.exhaustive = true;
    rep.machinery_error = take_machinery();
    rep
}

fn reach(prefixes: &[(u8, u8, u8)], attrs: Vec<packet::Attribute>) -> bgp::Message {
    bgp::Message::Update(bgp::Update::Reach {
        family: Family::IPV4,
        entries: prefixes.iter().map(|(a, b, c)| packet::PathNlri { path_id: 0, nlri: packet::Nlri::V4(packet::bgp::Ipv4Net { addr: Ipv4Addr::new(*a, *b, *c, 0), mask: 24 }) }).collect(),
        nexthop: Some(bgp::Nexthop::V4(Ipv4Addr::new(192, 0, 2, 1))),
        attr: Arc::new(attrs),
    })
}

fn base_attrs() -> Vec<packet::Attribute> {
    vec![packet::Attribute::new_with_value(packet::Attribute::ORIGIN, 0).unwrap(), packet::Attribute::new_with_bin(packet::Attribute::AS_PATH, vec![2, 1, 0, 0, 0xfd, 0xe9]).unwrap()]
}

/// C04, driver: flush_tx with several UPDATEs of one family pending, one of which cannot be
/// encoded (its attributes leave no room for a single NLRI): every OTHER update of the flush
/// reaches the peer, well-framed.
pub(crate) fn run_c04(_replay: Option<&str>) -> Report {
    let mut rep = Report::new("C04", "hd-c04drv");
    rep.rule = "flush_tx on an Established session with pending UPDATE lists [good], [good, unencodable], [unencodable, good], [good, unencodable, good] (unencodable = 1020 communities: no NLRI fits a 4096-octet frame); the bytes written are walked as frames and decoded with the repository's parser: every prefix of every good UPDATE arrives exactly once".into();
    let rt = runtime();
    let shapes: [(&str, &[u8]); 4] = [("good", &[0]), ("good+unencodable", &[0, 9]), ("unencodable+good", &[9, 0]), ("good+unencodable+good", &[0, 9, 1])];
    for (name, shape) in shapes {
        let case = format!("flush#{name}");
        let r: Result<Option<String>, String> = rt.block_on(async {
            use tokio::io::AsyncReadExt;
            let addr = IpAddr::V4(Ipv4Addr::new(127, 0, 8, 211));
            let (mut session, _d) = established_session(addr).await?;
            let mut want: Vec<String> = Vec::new();
            let mut msgs = Vec::new();
            for k in shape {
                match k {
                    9 => {
                        let mut a = base_attrs();
                        a.push(packet::Attribute::new_with_bin(packet::Attribute::COMMUNITY, (0..1020u32).flat_map(|i| (0xfde8_0000 + i).to_be_bytes()).collect()).unwrap());
                        msgs.push(reach(&[(10, 99, 1)], a));
                    }
                    g => {
                        let p: Vec<(u8, u8, u8)> = (0..3).map(|i| (10, 10 + *g, i)).collect();
                        for (a, b, c) in &p {
                            want.push(format!("{a}.{b}.{c}.0/24"));
                        }
                        msgs.push(reach(&p, base_attrs()));
                    }
                }
            }
            let mut p = crate::peer_tx::PendingTx::new(false);
            p.buffer_messages(msgs);
            session.pending.insert(Family::IPV4, p);
            let (mut client, mut server) = socket_pair(addr).await?;
            if !session.flush_tx(&mut server).await {
                return Ok(Some("write-error: flush_tx reported a write error".into()));
            }
            drop(server);
            let mut got = Vec::new();
            let _ = tokio::time::timeout(std::time::Duration::from_secs(5), client.read_to_end(&mut got)).await;
            // frame walk
            let mut pos = 0usize;
            let mut seen: Vec<String> = Vec::new();
            let mut codec = bgp::PeerCodec::new();
            codec.set_family(Family::IPV4, bgp::FamilyState::default());
            while pos < got.len() {
                if got.len() < pos + 19 {
                    return Ok(Some(format!("frame-truncated: {} stray octet(s) at the end of what flush_tx wrote", got.len() - pos)));
                }
                let l = u16::from_be_bytes([got[pos + 16], got[pos + 17]]) as usize;
                if !(19..=4096).contains(&l) || got.len() < pos + l {
                    return Ok(Some(format!("frame-length: frame at offset {pos} declares {l} octets, {} remain", got.len() - pos)));
                }
                let mut b = bytes::BytesMut::from(&got[pos..pos + l]);
                match codec.try_parse(&mut b) {
                    Ok(Some(bgp::ParsedMessage::Update(bgp::ParsedUpdate::Routes { reach, mp_reach, .. }))) => {
                        for r in reach.into_iter().chain(mp_reach) {
                            for e in r.entries {
                                seen.push(format!("{}", e.nlri));
                            }
                        }
                    }
                    Ok(_) => {}
                    Err(e) => return Ok(Some(format!("frame-unparsable: frame at offset {pos}: {e:?}"))),
                }
                pos += l;
            }
            let mut w = want.clone();
            w.sort();
            seen.sort();
            if seen != w {
                return Ok(Some(format!("routes-lost-or-duplicated: pending {:?}; the peer decodes {:?}", w, seen)));
            }
            Ok(None)
        });
        rep.evaluations += 1;
        match r {
            Err(e) => {
                rep.machinery_error = Some(format!("c04 driver ({case}): {e}"));
                return rep;
            }
            Ok(None) => {}
            Ok(Some(msg)) => {
                let clause = msg.split(':').next().unwrap_or("").to_string();
                rep.violation(Violation { sig: format!("C04/driver/flush/{clause}"), what: format!("pending {name}: {msg}"), case });
            }
        }
    }
    rep.exhaustive = true;
    rep.machinery_error = take_machinery();
    rep
}

/// C07, driver: a connection collision between two LIVE sessions of one neighbour (the daemon's
/// active and passive connection, both in the OPEN exchange): exactly the connection RFC 4271 6.8
/// names survives; the other one is sent Cease / connection collision resolution and closed.
pub(crate) fn run_c07(_replay: Option<&str>) -> Report {
    let mut rep = Report::new("C07", "hd-c07live");
    rep.rule = "two live sessions (daemon roles active and passive) of one neighbour over loopback TCP; the neighbour's OPEN is sent on one, then on the other (both orders), with its BGP identifier below / above the daemon's; the loser must receive NOTIFICATION 6/7 and end-of-stream, the survivor a KEEPALIVE and nothing else, and it must reach Established after the neighbour's KEEPALIVE".into();
    let rt = runtime();
    let local_id = u32::from(Ipv4Addr::new(10, 0, 0, 254));
    for (remote_bigger, first_active, silent) in [(false, false, false), (false, true, false), (true, false, false), (true, true, false), (false, false, true), (false, true, true), (true, false, true), (true, true, true)] {
        {
            let remote_id = if remote_bigger { local_id + 1 } else { local_id - 1 };
            let case = format!("collision#{}#{}{}", if remote_bigger { "remote-id-above" } else { "remote-id-below" }, if first_active { "open-on-active-first" } else { "open-on-passive-first" }, if silent { "#then-silent" } else { "" });
            let r: Result<Vec<String>, String> = rt.block_on(async {
                use crate::fsm::Role::{Active, Passive};
                let addr = IpAddr::V4(Ipv4Addr::new(127, 0, 8, 212));
                let d = Daemon::new(1);
                add_simple_peer(&d, addr, 90, 65001).await?;
                let (r1, r2) = if first_active { (Active, Passive) } else { (Passive, Active) };
                let mut c1 = connect(&d, addr, r1).await?.ok_or("first connection refused")?;
                let mut c2 = connect(&d, addr, r2).await?.ok_or("second connection refused")?;
                let caps = vec![packet::Capability::MultiProtocol(Family::IPV4), packet::Capability::FourOctetAsNumber(65001)];
                // hold time 3: the survivor owes a KEEPALIVE every second
                let my_open = bgp::Message::Open(bgp::Open { as_number: 65001, holdtime: HoldTime::new(3).ok_or("hold")?, router_id: remote_id, capability: caps });
                for c in [&mut c1, &mut c2] {
                    match c.read_msg().await? {
                        Some(bgp::ParsedMessage::Open(_)) => {}
                        _ => return Err("a connection did not start with the daemon's OPEN".into()),
                    }
                }
                if !c1.send(&my_open).await {
                    return Err("could not send OPEN on the first connection".into());
                }
                match c1.read_msg().await? {
                    Some(bgp::ParsedMessage::Keepalive) => {}
                    other => return Err(format!("first connection: expected the daemon's KEEPALIVE, got {}", if other.is_some() { "another message" } else { "end of stream" })),
                }
                if !c2.send(&my_open).await {
                    return Err("could not send OPEN on the second connection".into());
                }
                // RFC 4271 6.8: local id < remote id -> the connection the REMOTE initiated (daemon role passive) survives
                let survivor_role = if local_id < remote_id { Passive } else { Active };
                let (mut win, mut lose, win_is_first) = if r1 == survivor_role { (c1, c2, true) } else { (c2, c1, false) };
                let mut vs = Vec::new();
                // the loser: NOTIFICATION 6/7, then end of stream
                let mut got_cease = false;
                let mut closed = false;
                let t_lose = std::time::Instant::now();
                while t_lose.elapsed() < Duration::from_millis(2500) {
                    match tokio::time::timeout(Duration::from_millis(2500).saturating_sub(t_lose.elapsed()), lose.read_msg()).await {
                        Ok(Ok(Some(bgp::ParsedMessage::Notification(n)))) => {
                            if n.notification_code() == 6 && n.notification_subcode() == 7 {
                                got_cease = true;
                            } else {
                                vs.push(format!("loser-wrong-notification: the losing connection got NOTIFICATION {}/{}", n.notification_code(), n.notification_subcode()));
                            }
                        }
                        Ok(Ok(Some(_))) => {}
                        Ok(Ok(None)) => {
                            closed = true;
                            break;
                        }
                        Ok(Err(e)) => return Err(e),
                        Err(_) => break,
                    }
                }
                if !got_cease {
                    vs.push("loser-no-cease: the connection that loses the collision was not sent Cease / connection collision resolution".into());
                }
                if !closed {
                    vs.push("loser-not-closed: the connection that loses the collision is still open 2.5 s later".into());
                }
                // the survivor: its KEEPALIVE (if it was the second to get our OPEN), then Established on our KEEPALIVE
                if !win_is_first {
                    match tokio::time::timeout(Duration::from_secs(3), win.read_msg()).await {
                        Ok(Ok(Some(bgp::ParsedMessage::Keepalive))) => {}
                        Ok(Ok(Some(bgp::ParsedMessage::Notification(n)))) => vs.push(format!("wrong-survivor: the connection RFC 4271 6.8 keeps got NOTIFICATION {}/{}", n.notification_code(), n.notification_subcode())),
                        Ok(Ok(None)) => vs.push("wrong-survivor: the connection RFC 4271 6.8 keeps was closed".into()),
                        _ => vs.push("survivor-stuck: the surviving connection did not answer the OPEN with a KEEPALIVE".into()),
                    }
                }
                if silent && vs.iter().all(|v| !v.starts_with("wrong-survivor")) {
                    // the neighbour says nothing more: the survivor, in OpenConfirm with a negotiated hold time of
                    // 3 s, must give up with Hold Timer Expired (real time: 9 s allowed, verdict dropped if the
                    // machine could not keep a 20 ms timer within 2 s)
                    let t0 = std::time::Instant::now();
                    let mut worst = Duration::ZERO;
                    let mut expired = false;
                    while t0.elapsed() < Duration::from_secs(9) {
                        let t = std::time::Instant::now();
                        match tokio::time::timeout(Duration::from_millis(20), win.read_msg()).await {
                            Ok(Ok(Some(bgp::ParsedMessage::Notification(n)))) => {
                                if n.notification_code() == 4 {
                                    expired = true;
                                } else {
                                    vs.push(format!("survivor-disturbed: the silent survivor got NOTIFICATION {}/{}", n.notification_code(), n.notification_subcode()));
                                    expired = true;
                                }
                                break;
                            }
                            Ok(Ok(None)) => {
                                vs.push("survivor-closed-without-notification: the silent survivor was closed without Hold Timer Expired".into());
                                expired = true;
                                break;
                            }
                            Ok(Ok(Some(_))) => {}
                            Ok(Err(e)) => return Err(e),
                            Err(_) => worst = worst.max(t.elapsed().saturating_sub(Duration::from_millis(20))),
                        }
                    }
                    if !expired && worst < Duration::from_secs(2) {
                        vs.push("survivor-timers-off: the surviving connection (OpenConfirm, negotiated hold time 3 s) was still open after 9 s of silence: its hold timer does not run".into());
                    }
                } else if vs.iter().all(|v| !v.starts_with("wrong-survivor")) {
                    if !(win.send(&bgp::Message::Keepalive).await && win.barrier().await) {
                        vs.push("survivor-disturbed: the surviving connection ended after the collision was resolved".into());
                    } else {
                        let st = arbiter_view(&d, addr).await;
                        let est = st.map(|(a, p, _, _)| if survivor_role == Active { a } else { p });
                        if est != Some(crate::fsm::State::Established) {
                            vs.push(format!("survivor-not-established: after the neighbour's KEEPALIVE the surviving connection is in {:?}", est));
                        } else {
                            // the survivor's own timers run with the negotiated values: a KEEPALIVE is due after 1 s.
                            // Real time: six intervals are allowed, and the verdict is dropped if the machine
                            // itself could not keep a 20 ms timer within 2 s during the wait.
                            let t0 = std::time::Instant::now();
                            let mut worst = Duration::ZERO;
                            let mut got_ka = false;
                            while t0.elapsed() < Duration::from_secs(6) {
                                let t = std::time::Instant::now();
                                match tokio::time::timeout(Duration::from_millis(20), win.read_msg()).await {
                                    Ok(Ok(Some(bgp::ParsedMessage::Keepalive))) => {
                                        got_ka = true;
                                        break;
                                    }
                                    Ok(Ok(Some(bgp::ParsedMessage::Notification(n)))) => {
                                        vs.push(format!("survivor-disturbed: the surviving connection got NOTIFICATION {}/{} while it was being kept alive", n.notification_code(), n.notification_subcode()));
                                        got_ka = true;
                                        break;
                                    }
                                    Ok(Ok(None)) => {
                                        vs.push("survivor-disturbed: the surviving connection was closed".into());
                                        got_ka = true;
                                        break;
                                    }
                                    Ok(Ok(Some(_))) => {}
                                    Ok(Err(e)) => return Err(e),
                                    Err(_) => worst = worst.max(t.elapsed().saturating_sub(Duration::from_millis(20))),
                                }
                                // keep our side alive as well
                                if t0.elapsed().as_millis() % 1000 < 25 {
                                    let _ = win.send(&bgp::Message::Keepalive).await;
                                }
                            }
                            if !got_ka && worst < Duration::from_secs(2) {
                                vs.push("survivor-timers-off: the surviving connection (negotiated hold time 3 s) sent no KEEPALIVE within 6 s of reaching Established".into());
                            }
                        }
                    }
                }
                // verdicts are in: end both tasks without further waiting
                for c in [&mut win, &mut lose] {
                    c.stream = None;
                    if let Some(j) = c.join.take() {
                        if vs.is_empty() {
                            let _ = tokio::time::timeout(WAIT, j).await;
                        } else {
                            j.abort();
                        }
                    }
                }
                Ok(vs)
            });
            rep.evaluations += 1;
            match r {
                Err(e) => {
                    rep.machinery_error = Some(format!("c07 live collision ({case}): {e}"));
                    return rep;
                }
                Ok(vs) => {
                    for msg in vs {
                        let clause = msg.split(':').next().unwrap_or("").to_string();
                        rep.violation(Violation { sig: format!("C07/live-collision/{clause}"), what: format!("{case}: {msg}"), case: case.clone() });
                    }
                }
            }
        }
    }
    rep.exhaustive = true;
    if rep.machinery_error.is_none() {
        rep.machinery_error = take_machinery();
    }
    rep
}

/// C18, handler level: the WatchEvent API with `init` set, one table filter kind at a time. What the
/// watcher is handed - snapshot first, live events afterwards - is the view it asked for: the
/// pre-policy Adj-RIB-In (every received route, as received) or the post-policy one (accepted
/// routes only).
pub(crate) fn run_c18api(_replay: Option<&str>) -> Report {
    use api::go_bgp_service_server::GoBgpService;
    use futures::StreamExt;
    let mut rep = Report::new("C18", "hd-c18api");
    rep.rule = "WatchEvent through the real gRPC handler, one table filter kind (ADJIN / POST_POLICY / unspecified) with init = true, against a RIB holding a route the import policy accepts and one it rejects; then one more of each announced live and one withdrawn; the prefixes the watcher has been handed (reach minus withdraw) must be exactly those of the view it asked for".into();
    let rt = runtime();
    let net = |k: u8| packet::Nlri::V4(packet::bgp::Ipv4Net { addr: Ipv4Addr::new(10, 40 + k, 0, 0), mask: 24 });
    // kinds: (name, filter type, post-policy view?)
    let kinds = [("adjin", api::watch_event_request::table::filter::Type::Adjin, false), ("post-policy", api::watch_event_request::table::filter::Type::PostPolicy, true), ("unspecified", api::watch_event_request::table::filter::Type::Unspecified, false)];
    for (kname, ktype, post) in kinds {
        let case = format!("watch#{kname}");
        let r: Result<Option<String>, String> = rt.block_on(async {
            let d = Daemon::new(2);
            // import policy: reject odd-numbered probe prefixes
            let mut pt = table::PolicyTable::new();
            pt.add_defined_set(table::DefinedSetConfig::Prefix { name: "R".into(), prefixes: [1u8, 3].iter().map(|k| table::PrefixConfig { ip_prefix: format!("{}", net(*k)), mask_length_min: 24, mask_length_max: 24 }).collect() }).map_err(|e| format!("{e:?}"))?;
            pt.add_statement("s", vec![table::ConditionConfig::PrefixSet("R".into(), table::MatchOption::Any)], Some(table::Disposition::Reject), table::Actions::default()).map_err(|e| format!("{e:?}"))?;
            pt.add_policy("p", vec!["s".into()]).map_err(|e| format!("{e:?}"))?;
            d.tables.import_policy.store(Some(pt.build_assignment(None, "global", table::PolicyDirection::Import, table::Disposition::Accept, vec!["p".into()]).map_err(|e| format!("{e:?}"))?));
            let src = Arc::new(table::Source::new(IpAddr::V4(Ipv4Addr::new(10, 9, 0, 1)), IpAddr::V4(Ipv4Addr::new(10, 9, 0, 254)), 65009, 65000, Ipv4Addr::new(10, 9, 0, 1), table::PeerRole::Ebgp));
            let attrs = || Arc::new(vec![packet::Attribute::new_with_value(packet::Attribute::ORIGIN, 0).unwrap(), packet::Attribute::new_with_bin(packet::Attribute::AS_PATH, vec![2, 1, 0, 0, 0xfd, 0xf1]).unwrap()]);
            let ins = |k: u8| {
                d.tables.insert_route(src.clone(), Family::IPV4, packet::PathNlri::new(net(k)), Some(bgp::Nexthop::V4(Ipv4Addr::new(192, 0, 2, 1))), attrs(), None, 0);
            };
            ins(0); // accepted
            ins(1); // rejected by the import policy (stored, filtered)
            let svc = super::super::grpc::GrpcService::new(Arc::new(tokio::sync::Notify::new()), d.active_tx.clone(), d.global.clone(), d.tables.clone());
            let req = api::WatchEventRequest { table: Some(api::watch_event_request::Table { filters: vec![api::watch_event_request::table::Filter { r#type: ktype as i32, init: true, ..Default::default() }] }), ..Default::default() };
            let mut stream = svc.watch_event(tonic::Request::new(req)).await.map_err(|e| format!("watch_event: {e}"))?.into_inner();
            let mut view: std::collections::BTreeSet<u8> = std::collections::BTreeSet::new();
            let mut drain = |view: &mut std::collections::BTreeSet<u8>, stream: &mut <super::super::grpc::GrpcService as GoBgpService>::WatchEventStream| {
                let v: *mut std::collections::BTreeSet<u8> = view;
                let s: *mut <super::super::grpc::GrpcService as GoBgpService>::WatchEventStream = stream;
                async move {
                    // quiescence: nothing for 300 ms, twice in a row with a yield in between (a process that was
                    // not scheduled for a while must not mistake its own pause for the handler's silence)
                    let mut quiet = 0;
                    loop {
                        // SAFETY: single-threaded runtime, the borrows do not outlive this future
                        let (view, stream) = unsafe { (&mut *v, &mut *s) };
                        match tokio::time::timeout(Duration::from_millis(300), stream.next()).await {
                            Ok(Some(Ok(resp))) => {
                                quiet = 0;
                                if let Some(api::watch_event_response::Event::Table(t)) = resp.event {
                                    for p in t.paths {
                                        let txt = format!("{:?}", p.nlri);
                                        for k in 0..4u8 {
                                            if txt.contains(&format!("10.{}.0.0", 40 + k)) {
                                                // (the handler reports a withdrawal as a path without attributes; it sets
                                                // is_withdraw only on End-of-RIB markers)
                                                if p.is_withdraw || p.pattrs.is_empty() {
                                                    view.remove(&k);
                                                } else {
                                                    view.insert(k);
                                                }
                                            }
                                        }
                                    }
                                }
                            }
                            Ok(Some(Err(e))) => return Err(format!("stream error: {e}")),
                            Ok(None) => return Err("the watch stream ended".to_string()),
                            Err(_) => {
                                quiet += 1;
                                if quiet >= 2 {
                                    return Ok(());
                                }
                                for _ in 0..16 {
                                    tokio::task::yield_now().await;
                                }
                                continue;
                            }
                        }
                    }
                }
            };
            drain(&mut view, &mut stream).await?;
            let want0: std::collections::BTreeSet<u8> = if post { [0u8].into_iter().collect() } else { [0u8, 1].into_iter().collect() };
            if view != want0 {
                return Ok(Some(format!("snapshot: after the initial snapshot the watcher holds prefixes {:?} (0 = accepted route, 1 = route rejected by import policy), the {kname} view is {:?}", view, want0)));
            }
            ins(2); // accepted, live
            ins(3); // rejected, live
            d.tables.remove_route(src.clone(), Family::IPV4, packet::PathNlri::new(net(0)), None, 0);
            drain(&mut view, &mut stream).await?;
            let want1: std::collections::BTreeSet<u8> = if post { [2u8].into_iter().collect() } else { [1u8, 2, 3].into_iter().collect() };
            if view != want1 {
                return Ok(Some(format!("live: after two live announcements (2 accepted, 3 rejected) and the withdrawal of 0 the watcher holds {:?}, the {kname} view is {:?}", view, want1)));
            }
            Ok(None)
        });
        rep.evaluations += 1;
        match r {
            Err(e) => {
                rep.machinery_error = Some(format!("c18 watch_event ({case}): {e}"));
                return rep;
            }
            Ok(None) => {}
            Ok(Some(msg)) => {
                let clause = msg.split(':').next().unwrap_or("").to_string();
                rep.violation(Violation { sig: format!("C18/api/watch/{kname}/{clause}"), what: msg, case });
            }
        }
    }
    rep.exhaustive = true;
    rep.machinery_error = take_machinery();
    rep
}

/// C17, handler level: "a path added through the API is listed with the same content" through the
/// real AddPath / ListPath / DeletePath handlers, for the global table and for a VRF, with several
/// paths of one prefix told apart by their identifier.
pub(crate) fn run_c17api(_replay: Option<&str>) -> Report {
    use api::go_bgp_service_server::GoBgpService;
    use futures::StreamExt;
    let mut rep = Report::new("C17", "hd-c17api");
    rep.rule = "AddPath through the real gRPC handler into (the global table | a VRF) for identifier lists [0], [7], [7, 9], [0, 9], each path with its own MED; ListPath must return exactly the (identifier, MED) pairs added; after DeletePath of the first one, exactly the rest".into();
    let rt = runtime();
    let med_of = |p: &api::Path| -> Option<u32> {
        p.pattrs.iter().find_map(|a| match &a.attr {
            Some(api::attribute::Attr::MultiExitDisc(m)) => Some(m.med),
            _ => None,
        })
    };
    for vrf in [false, true] {
        for ids in [vec![0u32], vec![7], vec![7, 9], vec![0, 9]] {
            let case = format!("addpath#{}#{:?}", if vrf { "vrf" } else { "global" }, ids);
            let r: Result<Option<String>, String> = rt.block_on(async {
                let d = Daemon::new(2);
                let svc = super::super::grpc::GrpcService::new(Arc::new(tokio::sync::Notify::new()), d.active_tx.clone(), d.global.clone(), d.tables.clone());
                if vrf {
                    let rtarget = api::RouteTarget { rt: Some(api::route_target::Rt::TwoOctetAsSpecific(api::TwoOctetAsSpecificExtended { is_transitive: true, sub_type: 2, asn: 65000, local_admin: 100 })) };
                    svc.add_vrf(tonic::Request::new(api::AddVrfRequest {
                        vrf: Some(api::Vrf {
                            name: "vrf1".into(),
                            rd: Some(api::RouteDistinguisher { rd: Some(api::route_distinguisher::Rd::TwoOctetAsn(api::RouteDistinguisherTwoOctetAsn { admin: 65000, assigned: 100 })) }),
                            import_rt: vec![rtarget.clone()],
                            export_rt: vec![rtarget],
                            ..Default::default()
                        }),
                    }))
                    .await
                    .map_err(|e| format!("add_vrf: {e}"))?;
                }
                let mut want: Vec<(u32, Option<u32>)> = Vec::new();
                let mut uuids = Vec::new();
                for (i, id) in ids.iter().enumerate() {
                    let med = 70 + 10 * i as u32;
                    let path = api::Path {
                        identifier: *id,
                        nlri: Some(api::Nlri { nlri: Some(api::nlri::Nlri::Prefix(api::IpAddressPrefix { prefix_len: 24, prefix: "10.9.0.0".into() })) }),
                        pattrs: vec![
                            api::Attribute { attr: Some(api::attribute::Attr::Origin(api::OriginAttribute { origin: 0 })) },
                            api::Attribute { attr: Some(api::attribute::Attr::NextHop(api::NextHopAttribute { next_hop: "10.0.0.1".into() })) },
                            api::Attribute { attr: Some(api::attribute::Attr::MultiExitDisc(api::MultiExitDiscAttribute { med })) },
                        ],
                        ..Default::default()
                    };
                    let resp = svc
                        .add_path(tonic::Request::new(api::AddPathRequest { table_type: if vrf { api::TableType::Vrf as i32 } else { api::TableType::Global as i32 }, vrf_id: if vrf { "vrf1".into() } else { String::new() }, path: Some(path) }))
                        .await
                        .map_err(|e| format!("add_path: {e}"))?;
                    uuids.push(resp.into_inner().uuid);
                    want.push((*id, Some(med)));
                }
                macro_rules! list {
                    () => {{
                        let fam = if vrf { api::Family { afi: 1, safi: 128 } } else { api::Family { afi: 1, safi: 1 } };
                        let s = svc.list_path(tonic::Request::new(api::ListPathRequest { table_type: api::TableType::Global as i32, family: Some(fam), ..Default::default() })).await.map_err(|e| format!("list_path: {e}"))?.into_inner();
                        let v: Vec<_> = s.collect::<Vec<_>>().await;
                        let mut got: Vec<(u32, Option<u32>)> = v.into_iter().filter_map(|r| r.ok()?.destination).flat_map(|d| d.paths.into_iter()).map(|p| (p.identifier, med_of(&p))).collect();
                        got.sort();
                        got
                    }};
                }
                want.sort();
                let got = list!();
                if got != want {
                    return Ok(Some(format!("listed-differs: added (identifier, MED) {:?}, ListPath returns {:?}", want, got)));
                }
                svc.delete_path(tonic::Request::new(api::DeletePathRequest { uuid: uuids[0].clone(), ..Default::default() })).await.map_err(|e| format!("delete_path: {e}"))?;
                let first = (ids[0], Some(70u32));
                let want2: Vec<_> = want.iter().filter(|x| **x != first).cloned().collect();
                let got2 = list!();
                if got2 != want2 {
                    return Ok(Some(format!("after-delete-differs: after DeletePath of {:?} the paths {:?} remain to be listed, ListPath returns {:?}", first, want2, got2)));
                }
                Ok(None)
            });
            rep.evaluations += 1;
            match r {
                Err(e) => {
                    rep.machinery_error = Some(format!("c17 api ({case}): {e}"));
                    return rep;
                }
                Ok(None) => {}
                Ok(Some(msg)) => {
                    let clause = msg.split(':').next().unwrap_or("").to_string();
                    rep.violation(Violation { sig: format!("C17/api/add-list/{}/{clause}", if vrf { "vrf" } else { "global" }), what: format!("{case}: {msg}"), case });
                }
            }
        }
    }
    rep.exhaustive = true;
    rep.machinery_error = take_machinery();
    rep
}

/// C16, established dynamic neighbours: "a dynamic neighbour's record disappears with its last
/// connection" also when that connection was Established and ended in a way that starts graceful
/// restart helper mode (the BFS part of C16 never completes an OPEN exchange).
pub(crate) fn run_c16dyn(_replay: Option<&str>) -> Report {
    let mut rep = Report::new("C16", "hd-c16dyn");
    rep.rule = "a dynamic neighbour (peer group with / without graceful restart, prefix 127.0.8.0/24) completes the OPEN exchange (with / without the GR capability), announces a route, and its connection ends (TCP close | Cease NOTIFICATION); afterwards Global.peers must not hold a record for its address, and a new connection from the address is admitted as a dynamic neighbour again".into();
    let rt = runtime();
    for group_gr in [false, true] {
        for peer_gr in [false, true] {
            for cease in [false, true] {
                let case = format!("dynamic#group-gr={group_gr}#peer-gr={peer_gr}#{}", if cease { "cease" } else { "tcp-close" });
                let r: Result<Option<String>, String> = rt.block_on(async {
                    let addr = IpAddr::V4(Ipv4Addr::new(127, 0, 8, 213));
                    let d = Daemon::new(1);
                    {
                        let mut g = d.global.write().await;
                        g.peer_group.insert(
                            "dyn".to_string(),
                            PeerGroup {
                                as_number: 65001,
                                dynamic_peers: vec![DynamicPeer { prefix: "127.0.8.0/24".parse().unwrap() }],
                                route_server_client: false,
                                holdtime: Some(90),
                                local_asn: 0,
                                passive: true,
                                route_reflector: RouteReflectorConfig::default(),
                                multihop_ttl: None,
                                ttl_security: None,
                                auth_password: None,
                                connect_retry_time: None,
                                families: [(Family::IPV4, 0u8)].into_iter().collect(),
                                send_max: FnvHashMap::default(),
                                graceful_restart: if group_gr { Some(peer::GrPeerConfig { restart_time: 90, notification_enabled: false, families: vec![Family::IPV4] }) } else { None },
                                llgr: None,
                            },
                        );
                    }
                    let mut c = connect(&d, addr, crate::fsm::Role::Passive).await?.ok_or("the dynamic neighbour was refused")?;
                    let mut caps = vec![packet::Capability::MultiProtocol(Family::IPV4), packet::Capability::FourOctetAsNumber(65001)];
                    if peer_gr {
                        caps.push(packet::Capability::GracefulRestart { flags: 0, restart_time: 120, families: vec![(Family::IPV4, 0x80)] });
                    }
                    if !c.establish(65001, 0x0a000001, 90, caps).await? {
                        return Err("the dynamic neighbour's session did not establish".into());
                    }
                    let upd = bgp::Message::Update(bgp::Update::Reach {
                        family: Family::IPV4,
                        entries: vec![packet::PathNlri { path_id: 0, nlri: packet::Nlri::V4(packet::bgp::Ipv4Net { addr: Ipv4Addr::new(10, 77, 0, 0), mask: 24 }) }],
                        nexthop: Some(bgp::Nexthop::V4(Ipv4Addr::new(127, 0, 8, 213))),
                        attr: Arc::new(vec![packet::Attribute::new_with_value(packet::Attribute::ORIGIN, 0).unwrap(), packet::Attribute::new_with_bin(packet::Attribute::AS_PATH, vec![2, 1, 0, 0, 0xfd, 0xe9]).unwrap()]),
                    });
                    if !(c.send(&upd).await && c.barrier().await) {
                        return Err("the session ended on a plain UPDATE".into());
                    }
                    if cease {
                        c.send(&bgp::Message::Notification(packet::Notification::CeaseAdminShutdown)).await;
                        c.wait_end(false).await;
                    } else {
                        c.wait_end(true).await;
                    }
                    // timer tasks / effects of the disconnect
                    for _ in 0..50 {
                        tokio::time::sleep(Duration::from_micros(200)).await;
                    }
                    let still = d.global.read().await.peers.contains_key(&addr);
                    if still {
                        return Ok(Some(format!("record-left-behind: the connection has ended, Global.peers still holds a record for {addr}")));
                    }
                    match connect(&d, addr, crate::fsm::Role::Passive).await? {
                        Some(mut c2) => {
                            c2.wait_end(true).await;
                        }
                        None => return Ok(Some("readmission-refused: a new connection from inside the dynamic prefix is refused after the first session ended".into())),
                    }
                    Ok(None)
                });
                rep.evaluations += 1;
                match r {
                    Err(e) => {
                        rep.machinery_error = Some(format!("c16 dynamic ({case}): {e}"));
                        return rep;
                    }
                    Ok(None) => {}
                    Ok(Some(msg)) => {
                        let clause = msg.split(':').next().unwrap_or("").to_string();
                        rep.violation(Violation { sig: format!("C16/dynamic-established/{clause}"), what: format!("{case}: {msg}"), case });
                    }
                }
            }
        }
    }
    rep.exhaustive = true;
    if rep.machinery_error.is_none() {
        rep.machinery_error = take_machinery();
    }
    rep
}
