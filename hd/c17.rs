// C17 -- what the gRPC API accepts is stored faithfully, shown back unchanged, and safe.
//
// In-crate harness part (included from hd/root.rs as `crate::verif::c17`).  Subject:
// `crate::convert::{attr_to_api, attr_from_api, nlri_to_api, net_from_api}` plus the
// way `event/grpc.rs::local_path` assembles a path from them (mirrored by
// `local_path_model`, because `local_path` is a private method of GrpcService).
//
// Three bounded-exhaustive sweeps (see `run`):
//   S1 round trip      every Attribute / Nlri from mkmsg and from decoding the encoded
//                      corpus (19 families, every attribute kind, 4- and 2-octet AS codecs)
//   S2 display total.  every attribute the wire decoder accepts out of a byte-level
//                      single-field mutation corpus of attribute bodies -> attr_to_api
//   S3 input totality  schema-driven boundary mutation of the protobuf encoding of valid
//                      api::Attribute / api::Nlri messages (the .proto files are parsed at
//                      start-up; every declared field of every reachable message gets its
//                      boundary domain), decoded by prost exactly as tonic would, fed to
//                      attr_from_api / net_from_api; accepted values are checked against
//                      independent structural invariants, re-encoded + re-decoded by the
//                      wire codec, inserted beside another path, run through a probing
//                      policy and through the export transformations + encode_to.
//
// Replay descriptors:
//   attr:v:<code>:<value>            attr:b:<code>:<hex body>     attr:o:<code>:<flags>:<hex>
//   frame:<4|2>:<hex BGP frame>      (all attributes of the decoded UPDATE; mframe: = frame
//                                    of the S2 mutation corpus, coarse round-trip shapes)
//   nlri:<afi>/<safi>:<hex wire NLRI>
//   api-attr:<hex protobuf api.Attribute>
//   api-nlri:<afi>/<safi>:<hex protobuf api.NLRI>

use crate::api;
use crate::convert;
use crate::verif::vx::enumr;
use crate::verif::vx::report::{catch, hex, trunc, unhex, Report, Violation};
use prost::Message as _;
use rustybgp_packet as pk;
use rustybgp_packet::bgp::{
    Attribute, Family, FamilyState, Message, Nexthop, Nlri, ParsedMessage, ParsedUpdate,
    PathNlri, PeerCodec, Update,
};
use rustybgp_table as tb;
use std::collections::{BTreeMap, BTreeSet, HashSet};
use std::net::{IpAddr, Ipv4Addr};
use std::str::FromStr;
use std::sync::{Arc, Mutex, OnceLock};

#[allow(dead_code, unused_imports, unused_variables, clippy::all)]
mod mkmsg {
    include!(concat!(env!("OSRG_RUSTYBGP_VERIF_DIR"), "/hx/src/mkmsg.rs"));
}

// ===========================================================================
// small helpers
// ===========================================================================

fn fnv(b: &[u8]) -> u64 {
    let mut h: u64 = 0xcbf2_9ce4_8422_2325;
    for x in b {
        h ^= *x as u64;
        h = h.wrapping_mul(0x0000_0100_0000_01b3);
    }
    h
}

/// Sharded set of hashes: measured count of distinct cases.
struct Distinct {
    shards: Vec<Mutex<HashSet<u64>>>,
}
impl Distinct {
    fn new() -> Self {
        Distinct { shards: (0..64).map(|_| Mutex::new(HashSet::new())).collect() }
    }
    /// true if new
    fn insert(&self, h: u64) -> bool {
        self.shards[(h >> 58) as usize].lock().unwrap().insert(h)
    }
    fn len(&self) -> u64 {
        self.shards.iter().map(|s| s.lock().unwrap().len() as u64).sum()
    }
}

/// "msg @ /abs/path/daemon/src/convert.rs:123" -> "daemon/src/convert.rs:123"
fn panic_loc(e: &str) -> String {
    let loc = e.rsplit(" @ ").next().unwrap_or("");
    for key in ["daemon/src/", "packet/src/", "table/src/", "api/src/", "hd/", "hx/src/", "library/"] {
        if let Some(i) = loc.rfind(key) {
            return loc[i..].to_string();
        }
    }
    loc.rsplit('/').next().unwrap_or(loc).to_string()
}

fn attr_name(code: u8) -> &'static str {
    match code {
        1 => "ORIGIN",
        2 => "AS_PATH",
        3 => "NEXTHOP",
        4 => "MED",
        5 => "LOCAL_PREF",
        6 => "ATOMIC_AGGREGATE",
        7 => "AGGREGATOR",
        8 => "COMMUNITY",
        9 => "ORIGINATOR_ID",
        10 => "CLUSTER_LIST",
        14 => "MP_REACH",
        15 => "MP_UNREACH",
        16 => "EXTENDED_COMMUNITY",
        17 => "AS4_PATH",
        18 => "AS4_AGGREGATOR",
        23 => "TUNNEL_ENCAP",
        26 => "AIGP",
        29 => "LS",
        32 => "LARGE_COMMUNITY",
        40 => "PREFIX_SID",
        _ => "UNKNOWN",
    }
}

fn is_known_code(code: u8) -> bool {
    attr_name(code) != "UNKNOWN"
}

/// Replay descriptor of an attribute value that was built with the public constructors.
fn attr_case(a: &Attribute) -> String {
    if a.is_opaque() {
        format!("attr:o:{}:{}:{}", a.code(), a.flags(), hex(a.binary().unwrap()))
    } else if let Some(v) = a.value() {
        format!("attr:v:{}:{}", a.code(), v)
    } else {
        format!("attr:b:{}:{}", a.code(), hex(a.binary().unwrap()))
    }
}

fn attr_from_case(s: &str) -> Option<Attribute> {
    let p: Vec<&str> = s.split(':').collect();
    match (p.first().copied(), p.get(1).copied()) {
        (Some("attr"), Some("v")) => Attribute::new_with_value(p.get(2)?.parse().ok()?, p.get(3)?.parse().ok()?),
        (Some("attr"), Some("b")) => Attribute::new_with_bin(p.get(2)?.parse().ok()?, unhex(p.get(3).copied().unwrap_or(""))),
        (Some("attr"), Some("o")) => Some(Attribute::new_opaque(
            p.get(2)?.parse().ok()?,
            p.get(3)?.parse().ok()?,
            unhex(p.get(4).copied().unwrap_or("")),
        )),
        _ => None,
    }
}

fn codec(family: Family, two_byte: bool) -> PeerCodec {
    let mut c = PeerCodec::new();
    c.set_family(Family::IPV4, FamilyState::default());
    c.set_family(family, FamilyState::default());
    c.two_byte_as = two_byte;
    c
}

fn variant_name(n: &Nlri) -> String {
    let d = format!("{n:?}");
    // "Evpn(MacIpAdvertisement(..." -> "Evpn.MacIpAdvertisement"; "V4(Ipv4Net {" -> "V4"
    let mut parts = Vec::new();
    let mut cur = String::new();
    for ch in d.chars() {
        if ch.is_alphanumeric() || ch == '_' {
            cur.push(ch);
        } else if ch == '(' {
            parts.push(cur.clone());
            cur.clear();
            if parts.len() == 2 {
                break;
            }
        } else {
            break;
        }
    }
    if parts.is_empty() {
        return "?".into();
    }
    let two = matches!(parts[0].as_str(), "Evpn" | "Mup" | "Ls");
    if two && parts.len() > 1 {
        format!("{}.{}", parts[0], parts[1])
    } else {
        parts[0].clone()
    }
}

/// Path of struct field names (outermost first) inside whose value two Debug renderings
/// first differ, e.g. "local_node.ospf_area_id" or "link_desc".
fn debug_diff_field(a: &str, b: &str) -> String {
    let ab = a.as_bytes();
    let bb = b.as_bytes();
    let mut i = 0;
    while i < ab.len() && i < bb.len() && ab[i] == bb[i] {
        i += 1;
    }
    let mut names: Vec<String> = vec![String::new()];
    let mut ident = String::new();
    for (k, ch) in ab.iter().enumerate().take(i) {
        let c = *ch as char;
        if c.is_ascii_alphanumeric() || c == '_' {
            ident.push(c);
            continue;
        }
        match c {
            ':' if ab.get(k + 1) == Some(&b' ') && !ident.is_empty() && !ident.as_bytes()[0].is_ascii_digit() => {
                *names.last_mut().unwrap() = ident.clone();
            }
            '{' | '(' | '[' => names.push(String::new()),
            '}' | ')' | ']' => {
                if names.len() > 1 {
                    names.pop();
                }
            }
            _ => {}
        }
        ident.clear();
    }
    let path: Vec<String> = names.into_iter().filter(|n| !n.is_empty()).collect();
    if path.is_empty() { "value".to_string() } else { path.join(".") }
}

// ===========================================================================
// independent TLV splitters (for order-insensitive comparison of structured bodies)
// ===========================================================================

/// (type, value) items; None if the body does not split cleanly.
fn split_tlvs(body: &[u8], type_len: usize, len_len: usize, ext_from: Option<u8>) -> Option<Vec<(u32, Vec<u8>)>> {
    let mut out = Vec::new();
    let mut p = 0usize;
    while p < body.len() {
        if p + type_len > body.len() {
            return None;
        }
        let t = if type_len == 2 { u16::from_be_bytes([body[p], body[p + 1]]) as u32 } else { body[p] as u32 };
        p += type_len;
        let ll = match ext_from {
            Some(x) if t >= x as u32 => 2,
            Some(_) => 1,
            None => len_len,
        };
        if p + ll > body.len() {
            return None;
        }
        let l = if ll == 2 { u16::from_be_bytes([body[p], body[p + 1]]) as usize } else { body[p] as usize };
        p += ll;
        if p + l > body.len() {
            return None;
        }
        out.push((t, body[p..p + l].to_vec()));
        p += l;
    }
    Some(out)
}

fn tlvs_of(code: u8, body: &[u8]) -> Option<Vec<(u32, Vec<u8>)>> {
    match code {
        Attribute::LS => split_tlvs(body, 2, 2, None),
        Attribute::PREFIX_SID => split_tlvs(body, 1, 2, None),
        Attribute::TUNNEL_ENCAP => {
            // canonicalise each tunnel TLV: sorted sub-TLVs
            let outer = split_tlvs(body, 2, 2, None)?;
            let mut v = Vec::new();
            for (t, val) in outer {
                match split_tlvs(&val, 1, 1, Some(128)) {
                    Some(mut subs) => {
                        subs.sort();
                        let mut c = Vec::new();
                        for (st, sv) in subs {
                            c.extend_from_slice(&st.to_be_bytes());
                            c.extend_from_slice(&(sv.len() as u32).to_be_bytes());
                            c.extend_from_slice(&sv);
                        }
                        v.push((t, c));
                    }
                    None => v.push((t, val)),
                }
            }
            Some(v)
        }
        _ => None,
    }
}

/// For a structured attribute: None if both bodies hold the same multiset of TLVs
/// (pure reordering), else the smallest TLV type whose multiset differs.
fn tlv_multiset_diff(code: u8, a: &[u8], b: &[u8]) -> Option<Option<String>> {
    let (ta, tb_) = (tlvs_of(code, a)?, tlvs_of(code, b)?);
    let mut ma: BTreeMap<(u32, Vec<u8>), i64> = BTreeMap::new();
    for x in ta {
        *ma.entry(x).or_insert(0) += 1;
    }
    for x in tb_ {
        *ma.entry(x).or_insert(0) -= 1;
    }
    let first = ma.iter().find(|(_, n)| **n != 0).map(|((t, _), _)| *t);
    match first {
        None => Some(None),
        Some(t) => {
            // for TUNNEL_ENCAP go one level down to name the sub-TLV when the tunnel type is on both sides
            if code == Attribute::TUNNEL_ENCAP {
                let oa = split_tlvs(a, 2, 2, None).unwrap_or_default();
                let ob = split_tlvs(b, 2, 2, None).unwrap_or_default();
                let fa = oa.iter().find(|x| x.0 == t);
                let fb = ob.iter().find(|x| x.0 == t);
                if let (Some(fa), Some(fb)) = (fa, fb) {
                    if let (Some(sa), Some(sb)) = (split_tlvs(&fa.1, 1, 1, Some(128)), split_tlvs(&fb.1, 1, 1, Some(128))) {
                        let mut m: BTreeMap<(u32, Vec<u8>), i64> = BTreeMap::new();
                        for x in sa {
                            *m.entry(x).or_insert(0) += 1;
                        }
                        for x in sb {
                            *m.entry(x).or_insert(0) -= 1;
                        }
                        if let Some(((st, _), _)) = m.iter().find(|(_, n)| **n != 0) {
                            return Some(Some(format!("tunnel{t}.sub{st}")));
                        }
                    }
                }
                return Some(Some(format!("tunnel{t}")));
            }
            Some(Some(format!("tlv{t}")))
        }
    }
}

// ===========================================================================
// mini proto3 schema parser (the API's .proto sources, embedded at compile time)
// ===========================================================================

const PROTO_SOURCES: [&str; 4] = [
    include_str!(concat!(env!("CARGO_MANIFEST_DIR"), "/../api/proto/common.proto")),
    include_str!(concat!(env!("CARGO_MANIFEST_DIR"), "/../api/proto/extcom.proto")),
    include_str!(concat!(env!("CARGO_MANIFEST_DIR"), "/../api/proto/nlri.proto")),
    include_str!(concat!(env!("CARGO_MANIFEST_DIR"), "/../api/proto/attribute.proto")),
];

#[derive(Clone, Debug, PartialEq)]
enum Ty {
    U32,
    U64,
    I32,
    Bool,
    Float,
    Str,
    Bytes,
    Enum(String),
    Msg(String),
}

#[derive(Clone, Debug, PartialEq)]
enum Label {
    Single,
    Repeated,
}

#[derive(Clone, Debug)]
struct FieldDef {
    name: String,
    no: u32,
    ty: Ty,
    label: Label,
    oneof: Option<String>,
}

#[derive(Clone, Debug, Default)]
struct MsgDef {
    fields: Vec<FieldDef>,
}

#[derive(Default)]
struct Schema {
    msgs: BTreeMap<String, MsgDef>,
    enums: BTreeMap<String, Vec<i64>>,
}

fn tokenize(src: &str) -> Vec<String> {
    let mut out = Vec::new();
    let b: Vec<char> = src.chars().collect();
    let mut i = 0;
    while i < b.len() {
        let c = b[i];
        if c.is_whitespace() {
            i += 1;
        } else if c == '/' && i + 1 < b.len() && b[i + 1] == '/' {
            while i < b.len() && b[i] != '\n' {
                i += 1;
            }
        } else if c == '/' && i + 1 < b.len() && b[i + 1] == '*' {
            i += 2;
            while i + 1 < b.len() && !(b[i] == '*' && b[i + 1] == '/') {
                i += 1;
            }
            i += 2;
        } else if c == '"' {
            let mut s = String::from("\"");
            i += 1;
            while i < b.len() && b[i] != '"' {
                s.push(b[i]);
                i += 1;
            }
            i += 1;
            out.push(s);
        } else if c.is_alphanumeric() || c == '_' {
            let mut s = String::new();
            while i < b.len() && (b[i].is_alphanumeric() || b[i] == '_' || b[i] == '.') {
                s.push(b[i]);
                i += 1;
            }
            out.push(s);
        } else {
            out.push(c.to_string());
            i += 1;
        }
    }
    out
}

struct RawField {
    scope: String,
    name: String,
    no: u32,
    tyname: String,
    label: Label,
    oneof: Option<String>,
    map: Option<(String, String)>,
}

struct Parser {
    t: Vec<String>,
    p: usize,
    raw: Vec<(String, RawField)>, // (owner message, field)
    msgs: BTreeSet<String>,
    enums: BTreeMap<String, Vec<i64>>,
}

impl Parser {
    fn peek(&self) -> &str {
        self.t.get(self.p).map(|s| s.as_str()).unwrap_or("")
    }
    fn next(&mut self) -> String {
        let s = self.t.get(self.p).cloned().unwrap_or_default();
        self.p += 1;
        s
    }
    fn skip_stmt(&mut self) {
        while self.p < self.t.len() && self.next() != ";" {}
    }
    fn skip_block(&mut self) {
        while self.p < self.t.len() && self.next() != "{" {}
        let mut d = 1;
        while self.p < self.t.len() && d > 0 {
            match self.next().as_str() {
                "{" => d += 1,
                "}" => d -= 1,
                _ => {}
            }
        }
    }
    fn file(&mut self) {
        while self.p < self.t.len() {
            match self.peek() {
                "message" => {
                    self.next();
                    self.message("");
                }
                "enum" => {
                    self.next();
                    self.enumeration("");
                }
                "service" => self.skip_block(),
                _ => self.skip_stmt(),
            }
        }
    }
    fn qual(scope: &str, name: &str) -> String {
        if scope.is_empty() { name.to_string() } else { format!("{scope}.{name}") }
    }
    fn enumeration(&mut self, scope: &str) {
        let name = self.next();
        let full = Self::qual(scope, &name);
        assert_eq!(self.next(), "{");
        let mut vals = Vec::new();
        while self.peek() != "}" && self.p < self.t.len() {
            if self.peek() == "option" || self.peek() == "reserved" {
                self.skip_stmt();
                continue;
            }
            let _n = self.next();
            assert_eq!(self.next(), "=");
            let mut v = self.next();
            let mut neg = false;
            if v == "-" {
                neg = true;
                v = self.next();
            }
            let x: i64 = v.parse().unwrap_or(0);
            vals.push(if neg { -x } else { x });
            self.skip_stmt();
        }
        self.next();
        self.enums.insert(full, vals);
    }
    fn field_tail(&mut self) -> (String, u32) {
        let name = self.next();
        assert_eq!(self.next(), "=", "field {name}");
        let no: u32 = self.next().parse().expect("field number");
        self.skip_stmt();
        (name, no)
    }
    fn message(&mut self, scope: &str) {
        let name = self.next();
        let full = Self::qual(scope, &name);
        self.msgs.insert(full.clone());
        assert_eq!(self.next(), "{");
        let mut oneof: Option<String> = None;
        loop {
            match self.peek() {
                "" => break,
                "}" => {
                    self.next();
                    if oneof.is_some() {
                        oneof = None;
                        continue;
                    }
                    break;
                }
                "message" => {
                    self.next();
                    self.message(&full);
                }
                "enum" => {
                    self.next();
                    self.enumeration(&full);
                }
                "oneof" => {
                    self.next();
                    oneof = Some(self.next());
                    assert_eq!(self.next(), "{");
                }
                "option" | "reserved" => self.skip_stmt(),
                "repeated" => {
                    self.next();
                    let ty = self.next();
                    let (n, no) = self.field_tail();
                    self.raw.push((full.clone(), RawField { scope: full.clone(), name: n, no, tyname: ty, label: Label::Repeated, oneof: None, map: None }));
                }
                "map" => {
                    self.next();
                    assert_eq!(self.next(), "<");
                    let k = self.next();
                    assert_eq!(self.next(), ",");
                    let v = self.next();
                    assert_eq!(self.next(), ">");
                    let (n, no) = self.field_tail();
                    self.raw.push((full.clone(), RawField { scope: full.clone(), name: n, no, tyname: String::new(), label: Label::Repeated, oneof: None, map: Some((k, v)) }));
                }
                _ => {
                    let ty = self.next();
                    let (n, no) = self.field_tail();
                    self.raw.push((full.clone(), RawField { scope: full.clone(), name: n, no, tyname: ty, label: Label::Single, oneof: oneof.clone(), map: None }));
                }
            }
        }
    }
    fn resolve(&self, scope: &str, ty: &str) -> Ty {
        match ty {
            "uint32" | "fixed32" => return Ty::U32,
            "uint64" | "fixed64" => return Ty::U64,
            "int32" | "int64" | "sint32" | "sint64" => return Ty::I32,
            "bool" => return Ty::Bool,
            "float" => return Ty::Float,
            "string" => return Ty::Str,
            "bytes" => return Ty::Bytes,
            _ => {}
        }
        let ty = ty.strip_prefix("api.").unwrap_or(ty);
        let mut sc = scope.to_string();
        loop {
            let cand = Self::qual(&sc, ty);
            if self.msgs.contains(&cand) {
                return Ty::Msg(cand);
            }
            if self.enums.contains_key(&cand) {
                return Ty::Enum(cand);
            }
            if sc.is_empty() {
                break;
            }
            sc = match sc.rfind('.') {
                Some(i) => sc[..i].to_string(),
                None => String::new(),
            };
        }
        panic!("c17 schema: unresolved type {ty} in {scope}");
    }
}

fn load_schema() -> Schema {
    let mut p = Parser { t: Vec::new(), p: 0, raw: Vec::new(), msgs: BTreeSet::new(), enums: BTreeMap::new() };
    for src in PROTO_SOURCES {
        p.t = tokenize(src);
        p.p = 0;
        p.file();
    }
    let mut s = Schema::default();
    for m in &p.msgs {
        s.msgs.insert(m.clone(), MsgDef::default());
    }
    let raws = std::mem::take(&mut p.raw);
    for (owner, rf) in raws {
        let ty = if let Some((k, v)) = &rf.map {
            // synthetic entry message {1: key, 2: value}
            let en = format!("{}.{}@entry", owner, rf.name);
            let kd = FieldDef { name: "key".into(), no: 1, ty: p.resolve(&rf.scope, k), label: Label::Single, oneof: None };
            let vd = FieldDef { name: "value".into(), no: 2, ty: p.resolve(&rf.scope, v), label: Label::Single, oneof: None };
            s.msgs.insert(en.clone(), MsgDef { fields: vec![kd, vd] });
            Ty::Msg(en)
        } else {
            p.resolve(&rf.scope, &rf.tyname)
        };
        s.msgs.get_mut(&owner).unwrap().fields.push(FieldDef { name: rf.name, no: rf.no, ty, label: rf.label, oneof: rf.oneof });
    }
    s.enums = p.enums;
    s
}

// ===========================================================================
// dynamic protobuf values (schema-guided parse / serialise)
// ===========================================================================

#[derive(Clone, Debug, PartialEq)]
enum DV {
    Varint(u64),
    F32(u32),
    F64(u64),
    Len(Vec<u8>),
    Msg(DMsg),
    PackedVar(Vec<u64>),
    PackedF32(Vec<u32>),
}
type DMsg = Vec<(u32, DV)>;

fn rd_varint(b: &[u8], p: &mut usize) -> Option<u64> {
    let mut v: u64 = 0;
    let mut sh = 0;
    loop {
        let x = *b.get(*p)?;
        *p += 1;
        if sh < 64 {
            v |= ((x & 0x7f) as u64) << sh;
        }
        sh += 7;
        if x & 0x80 == 0 {
            return Some(v);
        }
        if sh > 70 {
            return None;
        }
    }
}

fn wr_varint(mut v: u64, o: &mut Vec<u8>) {
    loop {
        let x = (v & 0x7f) as u8;
        v >>= 7;
        if v == 0 {
            o.push(x);
            return;
        }
        o.push(x | 0x80);
    }
}

fn dparse(s: &Schema, mname: &str, b: &[u8]) -> Option<DMsg> {
    let def = s.msgs.get(mname)?;
    let mut out = Vec::new();
    let mut p = 0usize;
    while p < b.len() {
        let tag = rd_varint(b, &mut p)?;
        let no = (tag >> 3) as u32;
        let fd = def.fields.iter().find(|f| f.no == no);
        match tag & 7 {
            0 => out.push((no, DV::Varint(rd_varint(b, &mut p)?))),
            1 => {
                let x = b.get(p..p + 8)?;
                p += 8;
                out.push((no, DV::F64(u64::from_le_bytes(x.try_into().ok()?))));
            }
            5 => {
                let x = b.get(p..p + 4)?;
                p += 4;
                out.push((no, DV::F32(u32::from_le_bytes(x.try_into().ok()?))));
            }
            2 => {
                let l = rd_varint(b, &mut p)? as usize;
                let x = b.get(p..p + l)?;
                p += l;
                match fd {
                    Some(FieldDef { ty: Ty::Msg(sub), .. }) => out.push((no, DV::Msg(dparse(s, sub, x)?))),
                    Some(FieldDef { label: Label::Repeated, ty: Ty::Float, .. }) => {
                        let mut v = Vec::new();
                        for c in x.chunks(4) {
                            v.push(u32::from_le_bytes(c.try_into().ok()?));
                        }
                        out.push((no, DV::PackedF32(v)));
                    }
                    Some(FieldDef { label: Label::Repeated, ty: Ty::U32 | Ty::U64 | Ty::I32 | Ty::Bool | Ty::Enum(_), .. }) => {
                        let mut v = Vec::new();
                        let mut q = 0usize;
                        while q < x.len() {
                            v.push(rd_varint(x, &mut q)?);
                        }
                        out.push((no, DV::PackedVar(v)));
                    }
                    _ => out.push((no, DV::Len(x.to_vec()))),
                }
            }
            _ => return None,
        }
    }
    Some(out)
}

fn dser(m: &DMsg, o: &mut Vec<u8>) {
    for (no, v) in m {
        let tag = |wt: u64| ((*no as u64) << 3) | wt;
        match v {
            DV::Varint(x) => {
                wr_varint(tag(0), o);
                wr_varint(*x, o);
            }
            DV::F64(x) => {
                wr_varint(tag(1), o);
                o.extend_from_slice(&x.to_le_bytes());
            }
            DV::F32(x) => {
                wr_varint(tag(5), o);
                o.extend_from_slice(&x.to_le_bytes());
            }
            DV::Len(b) => {
                wr_varint(tag(2), o);
                wr_varint(b.len() as u64, o);
                o.extend_from_slice(b);
            }
            DV::Msg(sub) => {
                let mut t = Vec::new();
                dser(sub, &mut t);
                wr_varint(tag(2), o);
                wr_varint(t.len() as u64, o);
                o.extend_from_slice(&t);
            }
            DV::PackedVar(vs) => {
                let mut t = Vec::new();
                for x in vs {
                    wr_varint(*x, &mut t);
                }
                wr_varint(tag(2), o);
                wr_varint(t.len() as u64, o);
                o.extend_from_slice(&t);
            }
            DV::PackedF32(vs) => {
                wr_varint(tag(2), o);
                wr_varint(vs.len() as u64 * 4, o);
                for x in vs {
                    o.extend_from_slice(&x.to_le_bytes());
                }
            }
        }
    }
}

// ===========================================================================
// schema-driven boundary mutations
// ===========================================================================

#[derive(Clone, Debug)]
struct Mutn {
    /// (field number, occurrence) steps from the root to the message node that is edited
    path: Vec<(u32, usize)>,
    /// field numbers whose entries are removed from that node
    clear: Vec<u32>,
    /// entries appended afterwards
    add: Vec<(u32, DV)>,
    /// "<Message>.<field>" of the edited field (site identity)
    site: String,
    /// value belongs to the reduced boundary domain used for the pair sweep
    core: bool,
}

const U32_DOM: [u64; 12] = [0, 1, 3, 32, 33, 128, 129, 255, 256, 65535, 65536, 0xffff_ffff];
const U64_DOM: [u64; 7] = [0, 1, 255, 256, 0xffff_ffff, 0x1_0000_0000, u64::MAX];
const F32_DOM: [u32; 6] = [0, 0x3f80_0000, 0xbf80_0000, 0x7fc0_0000, 0x7f80_0000, 0x7f7f_ffff];

fn str_dom() -> Vec<Vec<u8>> {
    let mut v: Vec<Vec<u8>> = [
        "192.0.2.1", "2001:db8::1", "", "zz:zz!", "0.0.0.0", "::", "::ffff:192.0.2.1", "10.0.0.0/8", "2001:db8::/32",
        "10.0.0.0/33", "10.0.0.0/200", "2001:db8::/129", "2001:db8::/200", "10.0.0.0/", "/", "00:11:22:33:44:55",
        "0000.0000.0001", "0000.0000.0001.02", "é€/1:2.3",
    ]
    .iter()
    .map(|s| s.as_bytes().to_vec())
    .collect();
    v.push(vec![b'a'; 300]);
    v.push(format!("{}.1.1.1", "1".repeat(300)).into_bytes());
    v
}

fn bytes_dom() -> Vec<Vec<u8>> {
    [0usize, 1, 3, 4, 8, 9, 10, 15, 16, 17, 255, 256, 300].iter().map(|n| vec![0xa5u8; *n]).collect()
}

fn scalar_dom(s: &Schema, ty: &Ty) -> Vec<(DV, bool)> {
    match ty {
        Ty::U32 => U32_DOM.iter().map(|v| (DV::Varint(*v), matches!(*v, 0 | 255 | 256 | 65535 | 65536 | 0xffff_ffff))).collect(),
        Ty::U64 => U64_DOM.iter().map(|v| (DV::Varint(*v), matches!(*v, 0 | 0x1_0000_0000 | u64::MAX))).collect(),
        Ty::I32 => [0u64, 1, u64::MAX, 0x7fff_ffff].iter().map(|v| (DV::Varint(*v), true)).collect(),
        Ty::Bool => vec![(DV::Varint(0), true), (DV::Varint(1), true)],
        Ty::Float => F32_DOM.iter().enumerate().map(|(i, v)| (DV::F32(*v), matches!(i, 0 | 1 | 3))).collect(),
        Ty::Str => str_dom().into_iter().map(|b| {
            let core = matches!(b.as_slice(), b"192.0.2.1" | b"2001:db8::1" | b"" | b"zz:zz!") || (b.len() == 300);
            (DV::Len(b), core)
        }).collect(),
        Ty::Bytes => bytes_dom().into_iter().map(|b| {
            let core = matches!(b.len(), 0 | 3 | 4 | 16 | 300);
            (DV::Len(b), core)
        }).collect(),
        Ty::Enum(e) => {
            let vals = s.enums.get(e).cloned().unwrap_or_default();
            let max = vals.iter().copied().max().unwrap_or(0);
            let mut d: BTreeSet<u64> = BTreeSet::new();
            d.insert(u64::MAX); // -1
            d.insert(0);
            d.insert((max + 1) as u64);
            for v in vals.iter().take(8) {
                d.insert(*v as u64);
            }
            d.insert(max as u64);
            for v in [255u64, 256, 258, 65535, 65536, 0x7fff_ffff] {
                d.insert(v);
            }
            d.into_iter().map(|v| (DV::Varint(v), v == u64::MAX || v == 0 || v == (max + 1) as u64 || v == 256)).collect()
        }
        Ty::Msg(_) => vec![],
    }
}

fn default_elem(ty: &Ty) -> DV {
    match ty {
        Ty::Float => DV::F32(0x3f80_0000),
        Ty::Str | Ty::Bytes => DV::Len(vec![]),
        Ty::Msg(_) => DV::Msg(vec![]),
        _ => DV::Varint(1),
    }
}

const LIST_SIZES: [usize; 4] = [0, 1, 255, 256];

fn enum_muts(s: &Schema, mname: &str, node: &DMsg, path: &mut Vec<(u32, usize)>, out: &mut Vec<Mutn>) {
    let Some(def) = s.msgs.get(mname) else { return };
    for f in &def.fields {
        let site = format!("{}.{}", mname, f.name);
        let clear: Vec<u32> = match &f.oneof {
            Some(o) => def.fields.iter().filter(|g| g.oneof.as_ref() == Some(o)).map(|g| g.no).collect(),
            None => vec![f.no],
        };
        let present: Vec<&DV> = node.iter().filter(|e| e.0 == f.no).map(|e| &e.1).collect();
        let mkc = |add: Vec<(u32, DV)>, core: bool| Mutn { path: path.clone(), clear: clear.clone(), add, site: site.clone(), core };
        let mk = |add: Vec<(u32, DV)>| mkc(add, true);
        match (&f.label, &f.ty) {
            (Label::Single, Ty::Msg(sub)) => {
                out.push(mk(vec![]));
                out.push(mk(vec![(f.no, DV::Msg(vec![]))]));
                for (k, v) in present.iter().enumerate() {
                    if let DV::Msg(m) = v {
                        path.push((f.no, k));
                        enum_muts(s, sub, m, path, out);
                        path.pop();
                    }
                }
            }
            (Label::Single, ty) => {
                for (v, core) in scalar_dom(s, ty) {
                    out.push(mkc(vec![(f.no, v)], core));
                }
            }
            (Label::Repeated, Ty::Msg(sub)) => {
                let e0 = present.first().map(|v| (*v).clone()).unwrap_or(DV::Msg(vec![]));
                for n in LIST_SIZES {
                    out.push(mk((0..n).map(|_| (f.no, e0.clone())).collect()));
                }
                for (k, v) in present.iter().enumerate() {
                    if let DV::Msg(m) = v {
                        path.push((f.no, k));
                        enum_muts(s, sub, m, path, out);
                        path.pop();
                    }
                }
            }
            (Label::Repeated, Ty::Str | Ty::Bytes) => {
                let e0 = present.first().map(|v| (*v).clone()).unwrap_or(default_elem(&f.ty));
                for n in LIST_SIZES {
                    out.push(mk((0..n).map(|_| (f.no, e0.clone())).collect()));
                }
                for (v, core) in scalar_dom(s, &f.ty) {
                    let mut add = vec![(f.no, v)];
                    for r in present.iter().skip(1) {
                        add.push((f.no, (*r).clone()));
                    }
                    out.push(mkc(add, core));
                }
            }
            (Label::Repeated, ty) => {
                // numeric: one packed entry
                let (elems_v, elems_f): (Vec<u64>, Vec<u32>) = match present.first() {
                    Some(DV::PackedVar(v)) => (v.clone(), vec![]),
                    Some(DV::PackedF32(v)) => (vec![], v.clone()),
                    _ => (vec![], vec![]),
                };
                let is_f = matches!(ty, Ty::Float);
                for n in LIST_SIZES.iter().copied().chain([7usize, 8, 9]) {
                    let dv = if is_f {
                        DV::PackedF32(vec![elems_f.first().copied().unwrap_or(0x3f80_0000); n])
                    } else {
                        DV::PackedVar(vec![elems_v.first().copied().unwrap_or(1); n])
                    };
                    out.push(mkc(vec![(f.no, dv)], LIST_SIZES.contains(&n)));
                }
                for (v, core) in scalar_dom(s, ty) {
                    let dv = match v {
                        DV::F32(x) => {
                            let mut e = elems_f.clone();
                            if e.is_empty() { e.push(x) } else { e[0] = x }
                            DV::PackedF32(e)
                        }
                        DV::Varint(x) => {
                            let mut e = elems_v.clone();
                            if e.is_empty() { e.push(x) } else { e[0] = x }
                            DV::PackedVar(e)
                        }
                        o => o,
                    };
                    out.push(mkc(vec![(f.no, dv)], core));
                }
            }
        }
    }
}

fn apply_mut(root: &mut DMsg, m: &Mutn) -> bool {
    let mut node: &mut DMsg = root;
    for (no, k) in &m.path {
        let mut seen = 0usize;
        let mut idx = None;
        for (i, e) in node.iter().enumerate() {
            if e.0 == *no {
                if seen == *k {
                    idx = Some(i);
                    break;
                }
                seen += 1;
            }
        }
        let Some(i) = idx else { return false };
        match &mut node[i].1 {
            DV::Msg(sub) => node = sub,
            _ => return false,
        }
    }
    node.retain(|e| !m.clear.contains(&e.0));
    node.extend(m.add.iter().cloned());
    true
}

/// Two single mutations can be combined if neither edits inside a field the other replaces
/// and they do not edit the same field / oneof of the same node.
fn compatible(a: &Mutn, b: &Mutn) -> bool {
    if a.path == b.path {
        return !a.clear.iter().any(|x| b.clear.contains(x));
    }
    let under = |outer: &Mutn, inner: &Mutn| {
        inner.path.len() > outer.path.len()
            && inner.path[..outer.path.len()] == outer.path[..]
            && outer.clear.contains(&inner.path[outer.path.len()].0)
    };
    !under(a, b) && !under(b, a)
}

// ===========================================================================
// oracle 1: round trip (attr / nlri)
// ===========================================================================

/// Violations are collected centrally so that the witness kept per signature is the
/// minimum by (length, text) of the case descriptor, independent of thread scheduling.
/// A per-thread filter keeps the global lock (and the formatting of `what`) off the hot path.
fn collector() -> &'static Mutex<BTreeMap<String, (Violation, u64)>> {
    static C: OnceLock<Mutex<BTreeMap<String, (Violation, u64)>>> = OnceLock::new();
    C.get_or_init(|| Mutex::new(BTreeMap::new()))
}

#[derive(Default)]
struct LocalAgg {
    best: std::collections::HashMap<String, String>,
    counts: std::collections::HashMap<String, u64>,
}
impl LocalAgg {
    fn flush(&mut self) {
        if self.counts.is_empty() {
            return;
        }
        let mut c = collector().lock().unwrap();
        for (k, n) in self.counts.drain() {
            if let Some(e) = c.get_mut(&k) {
                e.1 += n;
            }
        }
    }
}
impl Drop for LocalAgg {
    fn drop(&mut self) {
        self.flush();
    }
}
thread_local! {
    static LOCAL: std::cell::RefCell<LocalAgg> = std::cell::RefCell::new(LocalAgg::default());
}

fn viol(_rep: &mut Report, sig: String, what: impl FnOnce() -> String, case: &str) {
    let better = |a: &str, b: &str| (a.len(), a) < (b.len(), b);
    let go_global = LOCAL.with(|l| {
        let mut l = l.borrow_mut();
        match l.best.get(&sig) {
            Some(b) if !better(case, b) => {
                *l.counts.entry(sig.clone()).or_insert(0) += 1;
                false
            }
            _ => {
                l.best.insert(sig.clone(), case.to_string());
                true
            }
        }
    });
    if !go_global {
        return;
    }
    let mut c = collector().lock().unwrap();
    match c.get_mut(&sig) {
        Some((old, n)) => {
            *n += 1;
            if better(case, &old.case) {
                *old = Violation { sig, what: what(), case: case.to_string() };
            }
        }
        None => {
            c.insert(sig.clone(), (Violation { sig, what: what(), case: case.to_string() }, 1));
        }
    }
}

fn flush_violations(rep: &mut Report) {
    LOCAL.with(|l| l.borrow_mut().flush());
    let mut c = collector().lock().unwrap();
    for (k, v) in std::mem::take(&mut *c) {
        rep.violations.insert(k, v);
    }
}

/// Shape class of the difference between an attribute and what came back, None if equal
/// (modulo the extended-length flag bit, which only records how the length was encoded,
/// and modulo a pure reordering of the TLVs of a structured attribute).
fn attr_diff(a: &Attribute, b: &Attribute) -> Option<String> {
    if a.code() != b.code() {
        return Some("code".into());
    }
    if a.is_opaque() != b.is_opaque() || a.value().is_some() != b.value().is_some() {
        return Some("representation".into());
    }
    let (fa, fb) = (a.flags() & !0x10, b.flags() & !0x10);
    if a.value() != b.value() {
        return Some("value".into());
    }
    if a.binary() != b.binary() {
        let (x, y) = (a.binary().unwrap(), b.binary().unwrap());
        match tlv_multiset_diff(a.code(), x, y) {
            Some(None) => {} // reordered only
            Some(Some(t)) => return Some(t),
            None => return Some("value".into()),
        }
    }
    if fa != fb {
        return Some(if fa ^ fb == 0x20 { "partial-flag".into() } else { "flags".into() });
    }
    None
}

/// attr_from_api(attr_to_api(a)) == a ; no panic on either side.
/// TLV shape names that occur in the valid corpus (everything else a mutated body may
/// contain is reported under the one shape "uninterpreted-tlv").
fn fine_shapes() -> &'static BTreeSet<String> {
    static S: OnceLock<BTreeSet<String>> = OnceLock::new();
    S.get_or_init(|| {
        let mut set = BTreeSet::new();
        let mut all: Vec<Attribute> = mkmsg::attr_kinds().into_iter().flat_map(|(_, v)| v).collect();
        all.extend(extra_attrs());
        for a in all {
            let Some(b) = a.binary() else { continue };
            match a.code() {
                Attribute::LS => {
                    for (t, _) in split_tlvs(b, 2, 2, None).unwrap_or_default() {
                        set.insert(format!("LS:tlv{t}"));
                    }
                }
                Attribute::PREFIX_SID => {
                    for (t, _) in split_tlvs(b, 1, 2, None).unwrap_or_default() {
                        set.insert(format!("PREFIX_SID:tlv{t}"));
                    }
                }
                Attribute::TUNNEL_ENCAP => {
                    for (t, v) in split_tlvs(b, 2, 2, None).unwrap_or_default() {
                        set.insert(format!("TUNNEL_ENCAP:tunnel{t}"));
                        for (st, _) in split_tlvs(&v, 1, 1, Some(128)).unwrap_or_default() {
                            set.insert(format!("TUNNEL_ENCAP:tunnel{t}.sub{st}"));
                        }
                    }
                }
                _ => {}
            }
        }
        set
    })
}

fn check_attr_roundtrip(rep: &mut Report, a: &Attribute, case: &str, ctx: &str) {
    let fine = Some(fine_shapes());
    let corpus = ctx == "corpus value" || case.starts_with("attr:") || case.starts_with("frame:");
    let kind = attr_name(a.code());
    let api_a = match catch(|| convert::attr_to_api(a)) {
        Ok(x) => x,
        Err(e) => {
            viol(rep, format!("C17/panic/to-api/{}", panic_loc(&e)), || format!("attr_to_api panicked on a stored {kind} attribute ({ctx}): {}", trunc(&e, 160)), case);
            return;
        }
    };
    let back = match catch(|| convert::attr_from_api(api_a.clone())) {
        Ok(x) => x,
        Err(e) => {
            viol(rep, format!("C17/panic/from-api/{}", panic_loc(&e)), || format!("attr_from_api panicked on the API form of a stored {kind} attribute ({ctx}): {}", trunc(&e, 160)), case);
            return;
        }
    };
    match back {
        Err(e) => viol(
            rep,
            format!("C17/roundtrip/attr/{kind}:rejected"),
            || format!("expected attr_from_api(attr_to_api(a)) == a; observed Err({e:?}) for code {} flags {:#x}", a.code(), a.flags()),
            case,
        ),
        Ok(b) => {
            if let Some(d) = attr_diff(a, &b) {
                // values outside the valid corpus (mutated bodies, API-built bodies): one shape per kind
                let d = match fine {
                    _ if d == "partial-flag" => d,
                    _ if !corpus => "noncorpus-value".to_string(),
                    Some(set) if (d.starts_with("tlv") || d.starts_with("tunnel")) && !set.contains(&format!("{kind}:{d}")) => "uninterpreted-tlv".to_string(),
                    _ => d,
                };
                let kind_sig = if d == "partial-flag" { "ANY" } else { kind };
                viol(
                    rep,
                    format!("C17/roundtrip/attr/{kind_sig}:{d}"),
                    || format!(
                        "expected identical attribute back; differs in {d}: in flags={:#x} {} / out flags={:#x} {}",
                        a.flags(),
                        trunc(&a.binary().map(|x| hex(x)).unwrap_or_else(|| format!("{:?}", a.value())), 120),
                        b.flags(),
                        trunc(&b.binary().map(|x| hex(x)).unwrap_or_else(|| format!("{:?}", b.value())), 120)
                    ),
                    case,
                );
            } else if a.binary() != b.binary() {
                rep.add("roundtrip.reordered-only", 1);
            }
        }
    }
}

fn nlri_case(family: Family, n: &Nlri) -> String {
    format!("nlri:{}/{}:{}", family.afi(), family.safi(), hex(&n.encode_to_bytes()))
}

fn check_nlri_roundtrip(rep: &mut Report, family: Family, n: &Nlri, case: &str) {
    let fname = mkmsg::family_name(family);
    let api_n = match catch(|| convert::nlri_to_api(n)) {
        Ok(x) => x,
        Err(e) => {
            viol(rep, format!("C17/panic/to-api/{}", panic_loc(&e)), || format!("nlri_to_api panicked ({fname}): {}", trunc(&e, 160)), case);
            return;
        }
    };
    let back = match catch(|| convert::net_from_api(api_n.clone(), family)) {
        Ok(x) => x,
        Err(e) => {
            viol(rep, format!("C17/panic/from-api/{}", panic_loc(&e)), || format!("net_from_api panicked on the API form of a stored NLRI ({fname}): {}", trunc(&e, 160)), case);
            return;
        }
    };
    let var = variant_name(n);
    match back {
        Err(e) => viol(
            rep,
            format!("C17/roundtrip/nlri/{fname}:{var}:rejected"),
            || format!("expected net_from_api(nlri_to_api(n)) == n; observed Err({e:?}) for {}", trunc(&format!("{n:?}"), 200)),
            case,
        ),
        Ok(b) => {
            if &b != n {
                let (da, db) = (format!("{n:?}"), format!("{b:?}"));
                let field = debug_diff_field(&da, &db);
                viol(
                    rep,
                    format!("C17/roundtrip/nlri/{fname}:{var}:{field}"),
                    || format!("expected identical NLRI back; in {} / out {}", trunc(&da, 260), trunc(&db, 260)),
                    case,
                );
            }
        }
    }
}

// ===========================================================================
// mirror of event/grpc.rs GrpcService::local_path (attribute part)
// ===========================================================================

struct Stored {
    attrs: Vec<Attribute>,
    nexthop: Option<Nexthop>,
    /// a NEXT_HOP / MP_REACH attribute was supplied
    nexthop_given: bool,
}

fn is_flowspec(f: Family) -> bool {
    matches!(f, Family::IPV4_FLOWSPEC | Family::IPV6_FLOWSPEC | Family::IPV4_FLOWSPEC_VPN | Family::IPV6_FLOWSPEC_VPN)
}

fn local_path_model(family: Family, input: Vec<Attribute>) -> Result<Stored, &'static str> {
    let mut attr = Vec::new();
    let mut nexthop = None;
    let mut nexthop_given = false;
    for a in input {
        match a.code() {
            Attribute::MP_REACH => {
                nexthop_given = true;
                let nh_len = a.binary().and_then(|b| b.get(3).copied()).unwrap_or(1) as usize;
                nexthop = a.binary().and_then(|b| {
                    let len = *b.get(3)? as usize;
                    if b.len() < 5 + len {
                        return None;
                    }
                    Nexthop::from_bytes(&b[4..4 + len])
                });
                if nexthop.is_none() && !(nh_len == 0 && is_flowspec(family)) {
                    return Err("malformed MP_REACH nexthop");
                }
            }
            Attribute::NEXTHOP => {
                nexthop_given = true;
                nexthop = a.binary().and_then(|b| Nexthop::from_bytes(b));
            }
            Attribute::ORIGINATOR_ID | Attribute::CLUSTER_LIST | Attribute::MP_UNREACH => {}
            _ => attr.push(a),
        }
    }
    if !attr.iter().any(|a| a.code() == Attribute::ORIGIN) {
        attr.push(Attribute::new_with_value(Attribute::ORIGIN, 0).unwrap());
    }
    if !attr.iter().any(|a| a.code() == Attribute::AS_PATH) {
        attr.push(Attribute::empty_as_path());
    }
    Ok(Stored { attrs: attr, nexthop, nexthop_given })
}

// ===========================================================================
// oracle 2: structural invariants of stored attributes (independent, RFC-driven)
// ===========================================================================

/// (which, detail) for the first broken invariant of this attribute, as the wire decoder
/// (packet/src/bgp.rs Attribute::decode) would enforce it on receipt.
fn attr_invariant(a: &Attribute) -> Option<(&'static str, String)> {
    let code = a.code();
    let val_coded = matches!(code, 1 | 4 | 5 | 9);
    if val_coded && a.value().is_none() {
        return Some(("value-representation", format!("{} holds bytes instead of a number", attr_name(code))));
    }
    if !val_coded && a.binary().is_none() {
        return Some(("value-representation", format!("{} holds a number instead of bytes", attr_name(code))));
    }
    if a.is_opaque() && is_known_code(code) {
        return Some(("known-code-as-opaque", format!("code {code}")));
    }
    if let Some(b) = a.binary() {
        // RFC 4271 4.3: the (extended) attribute length field has 16 bits
        if b.len() > 65535 {
            return Some(("attribute-too-long", format!("{} bytes cannot be expressed in the 16-bit attribute length", b.len())));
        }
    }
    match code {
        1 => {
            // RFC 4271 4.3: 0 IGP, 1 EGP, 2 INCOMPLETE
            let v = a.value().unwrap();
            if v > 2 {
                return Some(("origin-out-of-range", format!("ORIGIN {v}")));
            }
        }
        2 => {
            let b = a.binary().unwrap();
            let mut p = 0usize;
            while p < b.len() {
                if p + 2 > b.len() {
                    return Some(("as-path-segment-length", "dangling segment header".into()));
                }
                let (t, n) = (b[p], b[p + 1] as usize);
                if !(1..=4).contains(&t) {
                    return Some(("as-path-segment-type", format!("segment type {t}")));
                }
                p += 2 + 4 * n;
                if p > b.len() {
                    return Some(("as-path-segment-length", format!("segment of {n} ASNs overruns the attribute")));
                }
            }
        }
        6 => {
            if !a.binary().unwrap().is_empty() {
                return Some(("atomic-aggregate-length", format!("{} bytes", a.binary().unwrap().len())));
            }
        }
        7 => {
            if a.binary().unwrap().len() != 8 {
                return Some(("aggregator-length", format!("{} bytes", a.binary().unwrap().len())));
            }
        }
        8 | 10 => {
            if a.binary().unwrap().len() % 4 != 0 {
                return Some(("community-length", format!("{} bytes, not a multiple of 4", a.binary().unwrap().len())));
            }
        }
        16 => {
            if a.binary().unwrap().len() % 8 != 0 {
                return Some(("community-length", format!("{} bytes, not a multiple of 8", a.binary().unwrap().len())));
            }
        }
        32 => {
            if a.binary().unwrap().len() % 12 != 0 {
                return Some(("community-length", format!("{} bytes, not a multiple of 12", a.binary().unwrap().len())));
            }
        }
        17 | 18 => {
            // RFC 6793: consumed by the receiver, never part of a stored path
            return Some(("as4-attribute-stored", format!("{} kept in the path", attr_name(code))));
        }
        3 | 14 | 15 => {
            return Some(("nlri-attribute-stored", format!("{} kept in the path", attr_name(code))));
        }
        _ => {}
    }
    None
}

fn as_path_segments(b: &[u8]) -> Option<Vec<(u8, Vec<u32>)>> {
    let mut out = Vec::new();
    let mut p = 0usize;
    while p < b.len() {
        if p + 2 > b.len() {
            return None;
        }
        let (t, n) = (b[p], b[p + 1] as usize);
        p += 2;
        if p + 4 * n > b.len() {
            return None;
        }
        out.push((t, (0..n).map(|i| u32::from_be_bytes(b[p + 4 * i..p + 4 * i + 4].try_into().unwrap())).collect()));
        p += 4 * n;
    }
    Some(out)
}

/// hop count per RFC 4271 9.1.2.2 (SET = 1, SEQUENCE = n, confed = 0); None if malformed
fn as_path_hops(b: &[u8]) -> Option<usize> {
    Some(as_path_segments(b)?.iter().map(|(t, v)| match t { 1 => 1, 2 => v.len(), _ => 0 }).sum())
}

// ===========================================================================
// oracle 3: wire re-encode / re-decode, comparator, policy, export + encode
// ===========================================================================

fn base_net() -> Nlri {
    Nlri::V4(pk::bgp::Ipv4Net { addr: Ipv4Addr::new(10, 0, 0, 0), mask: 24 })
}

fn peer_source(last: u8, role: tb::PeerRole) -> Arc<tb::Source> {
    Arc::new(tb::Source::new(
        IpAddr::V4(Ipv4Addr::new(192, 0, 2, last)),
        IpAddr::V4(Ipv4Addr::new(192, 0, 2, 254)),
        if role == tb::PeerRole::Ibgp { 65000 } else { 65001 },
        65000,
        Ipv4Addr::new(192, 0, 2, last),
        role,
    ))
}

struct Probe {
    export: Arc<tb::PolicyAssignment>,
    import: Arc<tb::PolicyAssignment>,
    rpki: tb::RpkiTable,
    statements: usize,
}

fn build_probe() -> Probe {
    use tb::{Actions, Comparison, ConditionConfig as C, DefinedSetConfig as D, Disposition, MatchOption as M};
    let mut pt = tb::PolicyTable::new();
    let mut names: Vec<String> = Vec::new();
    let mut n = 0usize;
    let mut add = |pt: &mut tb::PolicyTable, conds: Vec<C>, actions: Actions| {
        let name = format!("s{n}");
        n += 1;
        pt.add_statement(&name, conds, None, actions).expect("probe statement");
        names.push(name);
    };
    let aspats = ["_65001_", "^65001_", "_65001$", "^65001$", "_65000-65010_", "^65000-65010_", "_65000-65010$", "^65000-65010$"];
    for (i, p) in aspats.iter().enumerate() {
        pt.add_defined_set(D::AsPath { name: format!("ap{i}"), patterns: vec![p.to_string()] }).expect("aspath set");
        add(&mut pt, vec![C::AsPathSet(format!("ap{i}"), M::Any)], Actions::default());
        add(&mut pt, vec![C::AsPathSet(format!("ap{i}"), M::Invert)], Actions::default());
    }
    for (c, v) in [(Comparison::Eq, 1u32), (Comparison::Ge, 0), (Comparison::Le, 255)] {
        add(&mut pt, vec![C::AsPathLength(c, v)], Actions::default());
    }
    pt.add_defined_set(D::Community { name: "cs".into(), patterns: vec!["65001:100".into(), "^65001:.*$".into(), "no-export".into()] }).expect("cs");
    pt.add_defined_set(D::ExtCommunity { name: "es".into(), patterns: vec!["^rt:65000:100$".into(), "^soo:.*$".into()] }).expect("es");
    pt.add_defined_set(D::LargeCommunity { name: "ls".into(), patterns: vec!["^65001:1:.*$".into()] }).expect("ls");
    for o in [M::Any, M::All, M::Invert] {
        add(&mut pt, vec![C::CommunitySet("cs".into(), o.clone())], Actions::default());
        add(&mut pt, vec![C::ExtCommunitySet("es".into(), o.clone())], Actions::default());
        add(&mut pt, vec![C::LargeCommunitySet("ls".into(), o.clone())], Actions::default());
    }
    for (c, v) in [(Comparison::Eq, 0u32), (Comparison::Ge, 1), (Comparison::Le, 255)] {
        add(&mut pt, vec![C::CommunityCount(c, v)], Actions::default());
    }
    pt.add_defined_set(D::Prefix { name: "ps".into(), prefixes: vec![tb::PrefixConfig { ip_prefix: "10.0.0.0/8".into(), mask_length_min: 8, mask_length_max: 32 }, tb::PrefixConfig { ip_prefix: "2001:db8::/32".into(), mask_length_min: 32, mask_length_max: 128 }] }).expect("ps");
    pt.add_defined_set(D::Neighbor { name: "ns".into(), neighbors: vec!["192.0.2.0/24".into()] }).expect("ns");
    add(&mut pt, vec![C::PrefixSet("ps".into(), M::Any)], Actions::default());
    add(&mut pt, vec![C::PrefixSet("ps".into(), M::Invert)], Actions::default());
    add(&mut pt, vec![C::NeighborSet("ns".into(), M::Any)], Actions::default());
    add(&mut pt, vec![C::Nexthop(vec![IpAddr::V4(Ipv4Addr::new(192, 0, 2, 1))])], Actions::default());
    for st in [tb::RpkiValidationState::Valid, tb::RpkiValidationState::Invalid, tb::RpkiValidationState::NotFound] {
        add(&mut pt, vec![C::Rpki(st)], Actions::default());
    }
    add(&mut pt, vec![C::LocalPrefEq(100)], Actions::default());
    add(&mut pt, vec![C::MedEq(0)], Actions::default());
    for o in 0..3u8 {
        add(&mut pt, vec![C::Origin(o)], Actions::default());
    }
    for rt in [tb::RouteType::Local, tb::RouteType::Internal, tb::RouteType::External] {
        add(&mut pt, vec![C::RouteType(rt)], Actions::default());
    }
    add(&mut pt, vec![C::AfiSafiIn(vec![Family::IPV4, Family::L2VPN_EVPN])], Actions::default());
    // actions that read the attribute they rewrite
    add(&mut pt, vec![], Actions { as_prepend: Some(tb::AsPrependAction { asn: 65000, repeat: 2, use_left_most: true }), ..Default::default() });
    add(&mut pt, vec![], Actions { community: Some(tb::CommunityAction { action_type: tb::CommunityActionType::Add, communities: vec![0xfde8_0001] }), ..Default::default() });
    add(&mut pt, vec![], Actions { community: Some(tb::CommunityAction { action_type: tb::CommunityActionType::Remove, communities: vec![0xfde8_0001] }), ..Default::default() });
    add(&mut pt, vec![], Actions { ext_community: Some(tb::ExtCommunityAction { action_type: tb::CommunityActionType::Add, communities: vec![[0, 2, 0xfd, 0xe8, 0, 0, 0, 1]] }), ..Default::default() });
    add(&mut pt, vec![], Actions { large_community: Some(tb::LargeCommunityAction { action_type: tb::CommunityActionType::Add, communities: vec![(65000, 1, 1)] }), ..Default::default() });
    add(&mut pt, vec![], Actions { med: Some(tb::MedAction { action_type: tb::MedActionType::Mod, value: 1 }), ..Default::default() });
    add(&mut pt, vec![], Actions { local_pref: Some(tb::LocalPrefAction { value: 200 }), ..Default::default() });
    add(&mut pt, vec![], Actions { origin: Some(tb::OriginAction { origin: 1 }), ..Default::default() });
    pt.add_policy("probe", names.clone()).expect("probe policy");
    let (_, export) = pt.add_assignment("g", tb::PolicyDirection::Export, Disposition::Accept, vec!["probe".into()]).expect("export assignment");
    let (_, import) = pt.add_assignment("g", tb::PolicyDirection::Import, Disposition::Accept, vec!["probe".into()]).expect("import assignment");
    let mut rpki = tb::RpkiTable::new();
    let src = Arc::new(IpAddr::V4(Ipv4Addr::new(198, 51, 100, 1)));
    rpki.insert(pk::IpNet::from_str("10.0.0.0/8").unwrap(), Arc::new(tb::Roa::new(24, 65001, src.clone())));
    rpki.insert(pk::IpNet::from_str("2001:db8::/32").unwrap(), Arc::new(tb::Roa::new(64, 65001, src)));
    Probe { export, import, rpki, statements: names.len() }
}

thread_local! {
    static PROBE: std::cell::OnceCell<Probe> = const { std::cell::OnceCell::new() };
}

fn with_probe<R>(f: impl FnOnce(&Probe) -> R) -> R {
    PROBE.with(|p| f(p.get_or_init(build_probe)))
}

/// EVPN type-2 destination: its comparator walks EXTENDED_COMMUNITY (MAC mobility).
fn evpn_mac_net() -> Nlri {
    Nlri::Evpn(pk::evpn::EvpnNlri::MacIpAdvertisement(pk::evpn::MacIpAdvertisement {
        rd: pk::rd::RouteDistinguisher::TwoOctetAs { admin: 65000, assigned: 1 },
        esi: pk::evpn::Esi::ZERO,
        etag: 0,
        mac: [0, 1, 2, 3, 4, 5],
        ip: None,
        label1: 100,
        label2: None,
    }))
}

/// Insert the stored path beside another path for the same destination (both orders, a
/// path with identical attributes so that every tie-break is evaluated, and a plain one).
fn stage_comparator(family: Family, net: &Nlri, attrs: &[Attribute], nexthop: Option<Nexthop>) -> Result<(), String> {
    catch(|| {
        let mine = Arc::new(attrs.to_vec());
        let twin = Arc::new(attrs.to_vec());
        let plain = Arc::new(mkmsg::base_attrs());
        for order in 0..2 {
            for other in [&twin, &plain] {
                let mut t = tb::Table::new(0);
                let ins = |t: &mut tb::Table, src: Arc<tb::Source>, a: &Arc<Vec<Attribute>>| {
                    let _ = t.insert(src, family, net.clone(), 0, nexthop, a.clone(), None, false, false, None, 0);
                };
                if order == 0 {
                    ins(&mut t, peer_source(1, tb::PeerRole::Ebgp), other);
                    ins(&mut t, tb::Source::local(), &mine);
                } else {
                    ins(&mut t, tb::Source::local(), &mine);
                    ins(&mut t, peer_source(1, tb::PeerRole::Ibgp), other);
                }
                let _ = t.collect_loc_rib_paths(&family);
            }
        }
    })
    .map(|_| ())
}

fn stage_policy(net: &Nlri, attrs: &[Attribute], nexthop: Option<Nexthop>) -> Result<(), String> {
    catch(|| {
        with_probe(|p| {
            let local = IpAddr::V4(Ipv4Addr::new(192, 0, 2, 254));
            let peer = IpAddr::V4(Ipv4Addr::new(192, 0, 2, 1));
            for confed in [false, true] {
                let mut a = Arc::new(attrs.to_vec());
                let mut nh = nexthop;
                let _ = tb::Table::apply_policy(&p.export, &tb::Source::local(), net, &mut a, &mut nh, local, peer, Some(&p.rpki), nexthop, confed);
            }
            let a = Arc::new(attrs.to_vec());
            let mut nh = nexthop;
            let _ = tb::apply_import(&p.import, Some(&p.rpki), &tb::Source::local(), net, &a, &mut nh);
        })
    })
    .map(|_| ())
}

/// Result of sending `attrs` over a session and receiving them again.
enum Wire {
    Same,
    Rejected(Vec<u8>),      // attribute codes the receiver put into error_attrs
    Differs(u8),            // first attribute code that came back different / missing
    Fatal(String),          // NOTIFICATION
}

fn wire_trip(family: Family, net: &Nlri, nexthop: Option<Nexthop>, attrs: &[Attribute], two_byte: bool) -> Result<Wire, String> {
    catch(|| {
        // extended messages (RFC 8654) negotiated: attribute sizes up to 65535 are legal
        let mut s = codec(family, two_byte);
        let mut r = codec(family, two_byte);
        s.extended_length = true;
        r.extended_length = true;
        let msg = mkmsg::reach(family, vec![PathNlri { path_id: 0, nlri: net.clone() }], nexthop, attrs);
        let frames = match mkmsg::encode(&mut s, &msg) {
            Ok(f) => f,
            Err(e) => return Wire::Fatal(e),
        };
        let mut got: Vec<Attribute> = Vec::new();
        let mut nets: Vec<Nlri> = Vec::new();
        for f in frames {
            match mkmsg::decode_frame(&mut r, &f) {
                Ok(ParsedMessage::Update(ParsedUpdate::Routes { reach, mp_reach, attrs, error_attrs, unreach, mp_unreach })) => {
                    if !error_attrs.is_empty() {
                        return Wire::Rejected(error_attrs.iter().map(|e| e.attr_code).collect());
                    }
                    got = attrs.clone();
                    for x in reach.iter().chain(mp_reach.iter()) {
                        nets.extend(x.entries.iter().map(|e| e.nlri.clone()));
                    }
                    let pm = ParsedMessage::Update(ParsedUpdate::Routes { reach, mp_reach, attrs, error_attrs, unreach, mp_unreach });
                    match pk::bgp::validate_message(pm, false) {
                        Ok(it) => {
                            let ms: Vec<Message> = it.collect();
                            if !ms.iter().any(|m| matches!(m, Message::Update(Update::Reach { .. }))) {
                                return Wire::Rejected(vec![]);
                            }
                        }
                        Err(n) => return Wire::Fatal(format!("{n}")),
                    }
                }
                Ok(_) => return Wire::Fatal("not a route-carrying UPDATE".into()),
                Err(n) => return Wire::Fatal(format!("{n}")),
            }
        }
        if nets != vec![net.clone()] {
            return Wire::Differs(0);
        }
        if !two_byte {
            let (ka, kb) = (mkmsg::attr_keys(attrs), mkmsg::attr_keys(&got));
            if ka != kb {
                for (i, k) in ka.iter().enumerate() {
                    if kb.get(i) != Some(k) {
                        return Wire::Differs(k.0);
                    }
                }
                return Wire::Differs(kb.get(ka.len()).map(|k| k.0).unwrap_or(0));
            }
        }
        Wire::Same
    })
}

/// The transformations event/export.rs applies to AS_PATH before encode_to, followed by
/// encode_to for both AS widths.
fn stage_export_encode(family: Family, net: &Nlri, nexthop: Option<Nexthop>, attrs: &[Attribute]) -> Result<(), String> {
    catch(|| {
        let mut ebgp: Vec<Attribute> = Vec::new();
        let mut confed: Vec<Attribute> = Vec::new();
        for a in attrs {
            if a.code() == Attribute::AS_PATH {
                let _ = a.as_path_count(65000);
                let _ = a.as_path_origin();
                ebgp.push(a.as_path_strip_confed().as_path_prepend(65000));
                confed.push(a.as_path_prepend_confed(65000));
            } else {
                ebgp.push(a.clone());
                confed.push(a.clone());
            }
        }
        for set in [&ebgp, &confed] {
            for two in [false, true] {
                let mut s = codec(family, two);
                let msg = mkmsg::reach(family, vec![PathNlri { path_id: 0, nlri: net.clone() }], nexthop, set);
                let mut buf: Vec<u8> = Vec::new();
                let _ = s.encode_to(&msg, &mut buf);
            }
        }
    })
    .map(|_| ())
}

fn codec_all(two_byte: bool) -> PeerCodec {
    let mut c = PeerCodec::new();
    for f in mkmsg::families() {
        c.set_family(f, FamilyState::default());
    }
    c.two_byte_as = two_byte;
    c
}

// ===========================================================================
// checks on values ACCEPTED by attr_from_api / net_from_api
// ===========================================================================

fn downstream(rep: &mut Report, case: &str, stage: &str, r: Result<(), String>, wire_valid: bool, subject: &str) {
    if let Err(e) = r {
        let suffix = if wire_valid { ":wire-valid" } else { "" };
        viol(
            rep,
            format!("C17/downstream-panic/{stage}/{}{suffix}", panic_loc(&e)),
            || format!(
                "a value accepted from the API ({subject}) must survive {stage}; it panicked: {}{}",
                trunc(&e, 160),
                if wire_valid { " [the value satisfies every wire invariant: equally reachable from a peer]" } else { "" }
            ),
            case,
        );
    }
}

fn check_accepted_attr(rep: &mut Report, case: &str, msg: &api::Attribute, a: &Attribute) {
    use api::attribute::Attr;
    let via_unknown = matches!(msg.attr, Some(Attr::Unknown(_)));
    let family = match &msg.attr {
        Some(Attr::MpReach(m)) => {
            let f = m.family.as_ref().map(|f| Family::new(f.afi as u16, f.safi as u8)).unwrap_or(Family::IPV4);
            if mkmsg::families().contains(&f) { f } else { Family::IPV4 }
        }
        _ => Family::IPV4,
    };
    let net = if family == Family::IPV4 { base_net() } else { mkmsg::nlris(family, mkmsg::NlriSize::Min).remove(0) };
    let stored = match local_path_model(family, vec![a.clone()]) {
        Ok(s) => s,
        Err(_) => {
            rep.add("s3.attr.rejected-by-local_path", 1);
            return;
        }
    };
    rep.add("s3.attr.stored", 1);
    let name = attr_name(a.code());
    let mut broken = false;
    for sa in stored.attrs.iter().filter(|x| x.code() == a.code()) {
        if attr_invariant(sa).is_none() {
            // shown back unchanged (ListPath) + re-accepted identically
            check_attr_roundtrip(rep, sa, case, "stored by AddPath");
        }
        if let Some((which, detail)) = attr_invariant(sa) {
            broken = true;
            let which = if via_unknown && is_known_code(sa.code()) { "known-code-as-unknown" } else { which };
            viol(
                rep,
                format!("C17/invariant/{which}/{name}"),
                || format!("accepted API input yields a stored {name} the wire decoder would never deliver: {detail}"),
                case,
            );
        }
    }
    // faithful storage of lists / enums (typed inputs)
    if let (Some(Attr::AsPath(p)), Some(b)) = (&msg.attr, a.binary()) {
        let want: Vec<(i32, Vec<u32>)> = p.segments.iter().map(|s| (s.r#type, s.numbers.clone())).collect();
        let got = as_path_segments(b).map(|v| v.into_iter().map(|(t, n)| (t as i32, n)).collect::<Vec<_>>());
        if got.as_ref() != Some(&want) {
            let which = if p.segments.iter().any(|s| s.numbers.len() > 255) {
                "list-length-truncated"
            } else if p.segments.iter().any(|s| !(0..=255).contains(&s.r#type)) {
                "field-truncated"
            } else {
                "stored-differs"
            };
            if !(broken && which == "stored-differs") {
                viol(
                    rep,
                    format!("C17/invariant/{which}/AS_PATH"),
                    || format!(
                        "stored AS_PATH must hold the segments of the API message; API {} segment(s) (types {:?}, lengths {:?}), stored {}",
                        want.len(),
                        want.iter().map(|s| s.0).collect::<Vec<_>>(),
                        want.iter().map(|s| s.1.len()).collect::<Vec<_>>(),
                        match &got {
                            Some(g) => format!("types {:?} lengths {:?}", g.iter().map(|s| s.0).collect::<Vec<_>>(), g.iter().map(|s| s.1.len()).collect::<Vec<_>>()),
                            None => "an unparsable body".into(),
                        }
                    ),
                    case,
                );
                broken = true;
            }
        }
    }
    if stored.nexthop_given && stored.nexthop.is_none() && !is_flowspec(family) {
        viol(
            rep,
            format!("C17/invariant/nexthop-unparsable/{name}"),
            || format!("a {name} attribute was accepted although it carries no usable next hop ({} body bytes); the path is stored without next hop", a.binary().map(|b| b.len()).unwrap_or(0)),
            case,
        );
    }
    let nh = if is_flowspec(family) { None } else { stored.nexthop.filter(|n| family != Family::IPV4 || matches!(n, Nexthop::V4(_))).or(mkmsg::default_nexthop(family)) };
    // wire invariants as a whole: what we send must be accepted and give the same attributes
    if !broken {
        match wire_trip(family, &net, nh, &stored.attrs, false) {
            Err(e) => {
                downstream(rep, case, "encode", Err(e), false, name);
                broken = true;
            }
            Ok(Wire::Same) => match wire_trip(family, &net, nh, &stored.attrs, true) {
                Err(e) => downstream(rep, case, "encode", Err(e), true, name),
                Ok(Wire::Same) => {}
                Ok(_) => rep.add("s3.attr.two-byte-trip-differs", 1),
            },
            Ok(w) => {
                broken = true;
                let (which, detail) = match w {
                    Wire::Rejected(c) => ("wire-rejected", format!("receiver flags attribute code(s) {c:?} as malformed")),
                    Wire::Differs(c) => ("wire-mismatch", format!("attribute code {c} comes back different or not at all")),
                    Wire::Fatal(e) => ("wire-rejected", format!("receiver answers {e}")),
                    Wire::Same => unreachable!(),
                };
                let which2 = if via_unknown && is_known_code(a.code()) { "known-code-as-unknown" } else { which };
                viol(
                    rep,
                    format!("C17/invariant/{which2}/{name}"),
                    || format!("the stored attributes, encoded by PeerCodec::encode_to, must be accepted by the wire decoder and decode to the same value: {detail}"),
                    case,
                );
            }
        }
    }
    let wire_valid = !broken;
    downstream(rep, case, "comparator", stage_comparator(family, &net, &stored.attrs, nh), wire_valid, name);
    if family == Family::IPV4 {
        downstream(rep, case, "comparator", stage_comparator(Family::L2VPN_EVPN, &evpn_mac_net(), &stored.attrs, nh), wire_valid, name);
    }
    downstream(rep, case, "policy", stage_policy(&net, &stored.attrs, nh), wire_valid, name);
    downstream(rep, case, "encode", stage_export_encode(family, &net, nh, &stored.attrs), wire_valid, name);
}

/// Families a stored NLRI variant may live in (packet/src/bgp.rs Nlri::decode yields exactly these).
fn nlri_fits_family(n: &Nlri, f: Family) -> bool {
    match n {
        Nlri::V4(_) => matches!(f, Family::IPV4 | Family::IPV4_MC),
        Nlri::V6(_) => matches!(f, Family::IPV6 | Family::IPV6_MC),
        Nlri::LabeledV4(_) => f == Family::IPV4_MPLS,
        Nlri::LabeledV6(_) => f == Family::IPV6_MPLS,
        Nlri::VpnV4(_) => f == Family::IPV4_VPN,
        Nlri::VpnV6(_) => f == Family::IPV6_VPN,
        Nlri::Evpn(_) => f == Family::L2VPN_EVPN,
        Nlri::Rtc(_) => f == Family::RTC,
        Nlri::FlowspecV4(_) => f == Family::IPV4_FLOWSPEC,
        Nlri::FlowspecV6(_) => f == Family::IPV6_FLOWSPEC,
        Nlri::FlowspecVpnV4(_) => f == Family::IPV4_FLOWSPEC_VPN,
        Nlri::FlowspecVpnV6(_) => f == Family::IPV6_FLOWSPEC_VPN,
        Nlri::Ls(_) => f == Family::LS,
        Nlri::Mup(_) => matches!(f, Family::IPV4_MUP | Family::IPV6_MUP),
        Nlri::SrPolicy(_) => matches!(f, Family::IPV4_SRPOLICY | Family::IPV6_SRPOLICY),
    }
}

/// Structural invariants of prefixes embedded in an NLRI (RFC 4271 4.3: the length is at
/// most the address width and the bits beyond it are zero; the decoders enforce both).
fn nlri_invariant(n: &Nlri) -> Option<(&'static str, String)> {
    fn v4(a: Ipv4Addr, m: u8) -> Option<(&'static str, String)> {
        if m > 32 {
            return Some(("prefix-length", format!("mask {m} exceeds 32 bits")));
        }
        // the decoders read ceil(m/8) octets and do not mask inside the last one
        let bits = u32::from(a);
        let keep = (m as u32).div_ceil(8) * 8;
        let host = if keep == 0 { bits } else if keep >= 32 { 0 } else { bits & (u32::MAX >> keep) };
        if host != 0 {
            return Some(("prefix-host-bits", format!("{a}/{m} has bits set beyond the octets its length covers")));
        }
        None
    }
    fn v6(a: std::net::Ipv6Addr, m: u8) -> Option<(&'static str, String)> {
        if m > 128 {
            return Some(("prefix-length", format!("mask {m} exceeds 128 bits")));
        }
        let bits = u128::from(a);
        let keep = (m as u32).div_ceil(8) * 8;
        let host = if keep == 0 { bits } else if keep >= 128 { 0 } else { bits & (u128::MAX >> keep) };
        if host != 0 {
            return Some(("prefix-host-bits", format!("{a}/{m} has bits set beyond the octets its length covers")));
        }
        None
    }
    fn ip(a: IpAddr, m: u8) -> Option<(&'static str, String)> {
        match a {
            IpAddr::V4(x) => v4(x, m),
            IpAddr::V6(x) => v6(x, m),
        }
    }
    use pk::flowspec::{FlowspecV4Component as F4, FlowspecV6Component as F6};
    match n {
        Nlri::V4(x) => v4(x.addr, x.mask),
        Nlri::V6(x) => v6(x.addr, x.mask),
        Nlri::LabeledV4(x) => v4(x.prefix.addr, x.prefix.mask),
        Nlri::LabeledV6(x) => v6(x.prefix.addr, x.prefix.mask),
        Nlri::VpnV4(x) => v4(x.prefix.addr, x.prefix.mask),
        Nlri::VpnV6(x) => v6(x.prefix.addr, x.prefix.mask),
        Nlri::FlowspecV4(x) => x.components.iter().find_map(|c| match c {
            F4::DstPrefix(p) | F4::SrcPrefix(p) => if p.mask > 32 { Some(("prefix-length", format!("flowspec prefix mask {} exceeds 32 bits", p.mask))) } else { None },
            _ => None,
        }),
        Nlri::FlowspecVpnV4(x) => x.components.iter().find_map(|c| match c {
            F4::DstPrefix(p) | F4::SrcPrefix(p) => if p.mask > 32 { Some(("prefix-length", format!("flowspec prefix mask {} exceeds 32 bits", p.mask))) } else { None },
            _ => None,
        }),
        Nlri::FlowspecV6(x) => x.components.iter().find_map(|c| match c {
            F6::DstPrefix { prefix, .. } | F6::SrcPrefix { prefix, .. } => if prefix.mask > 128 { Some(("prefix-length", format!("flowspec prefix mask {} exceeds 128 bits", prefix.mask))) } else { None },
            _ => None,
        }),
        Nlri::FlowspecVpnV6(x) => x.components.iter().find_map(|c| match c {
            F6::DstPrefix { prefix, .. } | F6::SrcPrefix { prefix, .. } => if prefix.mask > 128 { Some(("prefix-length", format!("flowspec prefix mask {} exceeds 128 bits", prefix.mask))) } else { None },
            _ => None,
        }),
        Nlri::Mup(pk::mup::MupNlri::InterworkSegmentDiscovery(r)) => ip(r.prefix_addr, r.prefix_len).filter(|x| x.0 == "prefix-length"),
        Nlri::Mup(pk::mup::MupNlri::Type1SessionTransformed(r)) => ip(r.prefix_addr, r.prefix_len).filter(|x| x.0 == "prefix-length"),
        Nlri::Evpn(pk::evpn::EvpnNlri::EthernetIpPrefix(r)) => ip(r.ip_prefix, r.prefix_len).filter(|x| x.0 == "prefix-length"),
        _ => None,
    }
}

fn check_accepted_nlri(rep: &mut Report, case: &str, family: Family, msg: &api::Nlri, n: &Nlri) {
    use api::nlri::Nlri as A;
    let fname = mkmsg::family_name(family);
    let var = variant_name(n);
    let mut broken = false;
    if !nlri_fits_family(n, family) {
        broken = true;
        viol(
            rep,
            "C17/invariant/nlri-family-mismatch/net_from_api".to_string(),
            || format!("net_from_api(_, {fname}) returned a {var} NLRI, which the wire decoder never yields for that family; local_path stores it in the {fname} table"),
            case,
        );
    }
    // numeric fields stored faithfully (prefix length)
    let want_len: Option<u32> = match &msg.nlri {
        Some(A::Prefix(p)) => Some(p.prefix_len),
        Some(A::LabeledPrefix(p)) => Some(p.prefix_len),
        Some(A::LabeledVpnIpPrefix(p)) => Some(p.prefix_len),
        _ => None,
    };
    let got_len: Option<u32> = match n {
        Nlri::V4(x) => Some(x.mask as u32),
        Nlri::V6(x) => Some(x.mask as u32),
        Nlri::LabeledV4(x) => Some(x.prefix.mask as u32),
        Nlri::LabeledV6(x) => Some(x.prefix.mask as u32),
        Nlri::VpnV4(x) => Some(x.prefix.mask as u32),
        Nlri::VpnV6(x) => Some(x.prefix.mask as u32),
        _ => None,
    };
    if let (Some(w), Some(g)) = (want_len, got_len) {
        if w != g {
            broken = true;
            viol(rep, format!("C17/invariant/nlri-field-truncated/{var}"), || format!("API prefix_len {w} stored as mask {g}"), case);
        }
    }
    if let Some((which, detail)) = nlri_invariant(n) {
        broken = true;
        viol(
            rep,
            format!("C17/invariant/nlri-{which}/{var}"),
            || format!("accepted API input yields a stored NLRI the wire decoder would never deliver: {detail}"),
            case,
        );
    }
    let nh = mkmsg::default_nexthop(family);
    let base = mkmsg::base_attrs();
    if !broken && mkmsg::families().contains(&family) {
        match wire_trip(family, n, nh, &base, false) {
            Err(e) => {
                broken = true;
                downstream(rep, case, "encode", Err(e), false, &format!("{fname} NLRI"));
            }
            Ok(Wire::Same) => {}
            Ok(w) => {
                broken = true;
                let detail = match w {
                    Wire::Rejected(c) => format!("receiver flags attribute code(s) {c:?} / treats as withdraw"),
                    Wire::Differs(_) => "a different NLRI (or none) comes back".to_string(),
                    Wire::Fatal(e) => format!("receiver answers {e}"),
                    Wire::Same => unreachable!(),
                };
                viol(
                    rep,
                    format!("C17/invariant/nlri-wire-mismatch/{var}"),
                    || format!("an accepted NLRI, encoded by encode_to, must be accepted by the wire decoder and decode to the same value: {detail}; stored {}", trunc(&format!("{n:?}"), 200)),
                    case,
                );
            }
        }
    }
    let wire_valid = !broken;
    if wire_valid {
        // shown back unchanged (ListPath) + re-accepted identically
        check_nlri_roundtrip(rep, family, n, case);
    }
    let subject = format!("{fname} NLRI");
    downstream(rep, case, "comparator", stage_comparator(family, n, &base, nh), wire_valid, &subject);
    downstream(rep, case, "policy", stage_policy(n, &base, nh), wire_valid, &subject);
    if broken {
        // encode of a value that is not wire-valid: only a panic counts
        let r = catch(|| {
            let mut s = codec_all(false);
            let msg = mkmsg::reach(family, vec![PathNlri { path_id: 0, nlri: n.clone() }], nh, &base);
            let mut buf: Vec<u8> = Vec::new();
            let _ = s.encode_to(&msg, &mut buf);
        })
        .map(|_| ());
        downstream(rep, case, "encode", r, false, &subject);
    }
}

// ===========================================================================
// S3 evaluation of one protobuf input
// ===========================================================================

#[derive(Clone, Copy, PartialEq)]
enum Kind {
    Attr,
    Nlri(Family),
}

fn s3_case(kind: Kind, pb: &[u8]) -> String {
    match kind {
        Kind::Attr => format!("api-attr:{}", hex(pb)),
        Kind::Nlri(f) => format!("api-nlri:{}/{}:{}", f.afi(), f.safi(), hex(pb)),
    }
}

/// Representative input per distinct stored outcome: the minimum by (descriptor length,
/// enumeration index).  Filled by a first pass over the inputs; the expensive checks run in
/// a second pass for the representatives only (deterministic whatever the thread schedule).
struct Reps {
    shards: Vec<Mutex<std::collections::HashMap<u64, (usize, u64)>>>,
}
impl Reps {
    fn new() -> Self {
        Reps { shards: (0..64).map(|_| Mutex::new(std::collections::HashMap::new())).collect() }
    }
    fn offer(&self, key: u64, len: usize, idx: u64) {
        let mut m = self.shards[(key >> 58) as usize].lock().unwrap();
        let e = m.entry(key).or_insert((len, idx));
        if (len, idx) < *e {
            *e = (len, idx);
        }
    }
    fn is_rep(&self, key: u64, len: usize, idx: u64) -> bool {
        self.shards[(key >> 58) as usize].lock().unwrap().get(&key) == Some(&(len, idx))
    }
    fn len(&self) -> u64 {
        self.shards.iter().map(|s| s.lock().unwrap().len() as u64).sum()
    }
}

enum Cls {
    Undecodable,
    Panic(String),
    Rejected,
    Attr(api::Attribute, Attribute),
    Nlri(api::Nlri, Nlri),
}

fn s3_classify(kind: Kind, pb: &[u8]) -> Cls {
    match kind {
        Kind::Attr => {
            let Ok(msg) = api::Attribute::decode(pb) else { return Cls::Undecodable };
            match catch(|| convert::attr_from_api(msg.clone())) {
                Err(e) => Cls::Panic(e),
                Ok(Err(_)) => Cls::Rejected,
                Ok(Ok(a)) => Cls::Attr(msg, a),
            }
        }
        Kind::Nlri(family) => {
            let Ok(msg) = api::Nlri::decode(pb) else { return Cls::Undecodable };
            match catch(|| convert::net_from_api(msg.clone(), family)) {
                Err(e) => Cls::Panic(e),
                Ok(Err(_)) => Cls::Rejected,
                Ok(Ok(n)) => Cls::Nlri(msg, n),
            }
        }
    }
}

/// Identity of the stored outcome (plus the parts of the input the oracles look at).
fn stored_key(kind: Kind, c: &Cls) -> Option<u64> {
    use api::attribute::Attr;
    match c {
        Cls::Attr(msg, a) => {
            let mut k = vec![a.code(), a.flags(), a.is_opaque() as u8, a.value().is_some() as u8];
            match a.value() {
                Some(v) => k.extend_from_slice(&v.to_be_bytes()),
                None => k.extend_from_slice(a.binary().unwrap()),
            }
            let extra: u64 = match &msg.attr {
                Some(Attr::AsPath(_)) => fnv(&msg.encode_to_vec()),
                Some(Attr::MpReach(m)) => m.family.as_ref().map(|f| ((f.afi as u64) << 32) | (f.safi as u32 as u64)).unwrap_or(7),
                Some(Attr::Unknown(_)) => 1,
                _ => 0,
            };
            Some(fnv(&k) ^ extra.wrapping_mul(0x9e37_79b9_7f4a_7c15))
        }
        Cls::Nlri(msg, n) => {
            use api::nlri::Nlri as A;
            let Kind::Nlri(f) = kind else { return None };
            let want: u64 = match &msg.nlri {
                Some(A::Prefix(p)) => p.prefix_len as u64 + 1,
                Some(A::LabeledPrefix(p)) => p.prefix_len as u64 + 1,
                Some(A::LabeledVpnIpPrefix(p)) => p.prefix_len as u64 + 1,
                _ => 0,
            };
            let d = format!("{}/{} {n:?} {want}", f.afi(), f.safi());
            Some(fnv(d.as_bytes()) ^ 0x5555)
        }
        _ => None,
    }
}

/// first pass: register the input as candidate representative of its stored outcome
fn s3_offer(kind: Kind, pb: &[u8], idx: u64, reps: &Reps) {
    let c = s3_classify(kind, pb);
    if let Some(k) = stored_key(kind, &c) {
        reps.offer(k, s3_case(kind, pb).len(), idx);
    }
}

/// second pass (or replay when `sel` is None); returns a short outcome tag
fn s3_eval(rep: &mut Report, kind: Kind, pb: &[u8], sel: Option<(&Reps, u64, &Distinct)>) -> &'static str {
    let c = s3_classify(kind, pb);
    // census of distinct inputs after prost decoding
    if let Some((_, _, d)) = sel {
        let h = match kind {
            Kind::Attr => api::Attribute::decode(pb).ok().map(|m| fnv(&m.encode_to_vec()) ^ 0x1111),
            Kind::Nlri(f) => api::Nlri::decode(pb).ok().map(|m| fnv(&m.encode_to_vec()) ^ ((f.afi() as u64) << 40 | (f.safi() as u64) << 32)),
        };
        if let Some(h) = h {
            if !d.insert(h) {
                rep.add("s3.duplicate-input", 1);
            }
        }
    }
    let what = if kind == Kind::Attr { "attr" } else { "nlri" };
    match &c {
        Cls::Undecodable => {
            rep.add("s3.undecodable-protobuf", 1);
            "undecodable"
        }
        Cls::Panic(e) => {
            let case = s3_case(kind, pb);
            viol(rep, format!("C17/panic/from-api/{}", panic_loc(e)), || format!("{what}_from_api must not panic on API input: {}", trunc(e, 160)), &case);
            "panic"
        }
        Cls::Rejected => {
            rep.add(&format!("s3.{what}.rejected"), 1);
            "rejected"
        }
        Cls::Attr(..) | Cls::Nlri(..) => {
            rep.add(&format!("s3.{what}.accepted"), 1);
            let case = s3_case(kind, pb);
            if let Some((reps, idx, _)) = sel {
                let k = stored_key(kind, &c).unwrap();
                if !reps.is_rep(k, case.len(), idx) {
                    rep.add(&format!("s3.{what}.same-stored-value-as-another-input"), 1);
                    return "accepted";
                }
            }
            rep.add(&format!("s3.{what}.distinct-stored-values-checked"), 1);
            match (&c, kind) {
                (Cls::Attr(msg, a), _) => check_accepted_attr(rep, &case, msg, a),
                (Cls::Nlri(msg, n), Kind::Nlri(f)) => check_accepted_nlri(rep, &case, f, msg, n),
                _ => {}
            }
            "accepted"
        }
    }
}

// ===========================================================================
// additional valid values built with the packet crate's own typed encoders
// (structured attributes with every sub-TLV kind the converters know)
// ===========================================================================

fn extra_attrs() -> Vec<Attribute> {
    use pk::ls::{LsTlv, SrRange, SrSidStructure};
    use pk::prefix_sid as ps;
    use pk::tunnel_encap as te;
    let mut out = Vec::new();
    let bin = |code: u8, b: Vec<u8>| Attribute::new_with_bin(code, b).unwrap();
    let a6: std::net::Ipv6Addr = "2001:db8::1".parse().unwrap();
    // --- BGP-LS attribute: one body per object class, every TLV the code models
    let node = vec![
        LsTlv::NodeFlagBits(0xfc),
        LsTlv::OpaqueNodeAttr(vec![1, 2, 3]),
        LsTlv::NodeName("rtr1".into()),
        LsTlv::IsisArea(vec![0x49, 0, 1]),
        LsTlv::Ipv4LocalRouterId(Ipv4Addr::new(192, 0, 2, 1)),
        LsTlv::Ipv6LocalRouterId(a6),
        LsTlv::SrCapabilities { ipv4_supported: true, ipv6_supported: true, ranges: vec![SrRange { begin: 16000, end: 23999 }] },
        LsTlv::SrAlgorithms(vec![0, 1]),
        LsTlv::SrLocalBlock { ranges: vec![SrRange { begin: 15000, end: 15999 }] },
    ];
    let link = vec![
        LsTlv::Ipv4LocalRouterId(Ipv4Addr::new(192, 0, 2, 1)),
        LsTlv::Ipv6LocalRouterId(a6),
        LsTlv::Ipv4RemoteRouterId(Ipv4Addr::new(192, 0, 2, 2)),
        LsTlv::Ipv6RemoteRouterId("2001:db8::2".parse().unwrap()),
        LsTlv::AdminGroup(0xff),
        LsTlv::MaxLinkBandwidth(1.25e9),
        LsTlv::MaxReservableBandwidth(1.0e9),
        LsTlv::UnreservedBandwidth([1.0e9f32.to_bits(); 8]),
        LsTlv::TeDefaultMetric(10),
        LsTlv::IgpMetric(10),
        LsTlv::Srlg(vec![1, 2]),
        LsTlv::OpaqueLinkAttr(vec![9, 9]),
        LsTlv::LinkName("ge-0/0/0".into()),
        LsTlv::AdjSid { flags: 0x80, weight: 0, sid: 24001 },
        LsTlv::UnidirectionalLinkDelay { anomalous: true, delay_us: 1000 },
        LsTlv::MinMaxUnidirectionalLinkDelay { anomalous: false, min_us: 900, max_us: 1100 },
        LsTlv::UnidirectionalDelayVariation(50),
        LsTlv::Srv6EndXSid { endpoint_behavior: 5, flags: 0x80, algorithm: 0, weight: 1, sids: vec![a6.octets()], sid_structure: Some(SrSidStructure { lb_len: 32, ln_len: 16, fn_len: 16, arg_len: 0 }) },
    ];
    let link_variants = vec![
        LsTlv::AdjSid { flags: 0x30, weight: 5, sid: 24001 },
        LsTlv::AdjSid { flags: 0x00, weight: 0, sid: 100 },
        LsTlv::IgpMetric(0),
        LsTlv::AdminGroup(0),
    ];
    let prefix = vec![
        LsTlv::IgpFlags(0xf0),
        LsTlv::OpaquePrefixAttr(vec![7]),
        LsTlv::PrefixSid { flags: 0x80, algorithm: 0, sid: 16042 },
        LsTlv::PrefixSid { flags: 0x00, algorithm: 1, sid: 42 },
    ];
    let peer = vec![
        LsTlv::PeerNodeSid { flags: 0xc0, weight: 1, sid: 30001 },
        LsTlv::PeerAdjSid { flags: 0xc0, weight: 2, sid: 30002 },
        LsTlv::PeerSetSid { flags: 0xf0, weight: 3, sid: 30003 },
    ];
    let srv6 = vec![LsTlv::Srv6PeerNodeSid { flags: 0x80, weight: 1, peer_as: 65001, peer_bgp_id: [192, 0, 2, 9], sid: a6.octets() }];
    let unknown = vec![LsTlv::NodeName("x".into()), LsTlv::Unknown { tlv_type: 1155, value: vec![0, 0, 0, 20] }];
    let mut all: Vec<LsTlv> = Vec::new();
    for set in [&node, &link, &prefix, &peer, &srv6] {
        all.extend(set.iter().cloned());
    }
    // every TLV also on its own, so that each lossy conversion shows up under its own type
    let singles: Vec<Vec<LsTlv>> = all.iter().map(|t| vec![t.clone()]).collect();
    let mut sets: Vec<Vec<LsTlv>> = vec![node, link, prefix, peer, srv6, unknown, all];
    sets.extend(singles);
    for v in link_variants {
        sets.push(vec![v]);
    }
    for set in sets {
        let mut b = Vec::new();
        for t in &set {
            t.encode(&mut b);
        }
        out.push(bin(Attribute::LS, b));
    }
    // --- TUNNEL_ENCAP: SR policy candidate paths with every sub-TLV
    let eb = te::SRv6EndpointBehavior { behavior: 19, block_len: 32, node_len: 16, func_len: 16, arg_len: 0 };
    let seglist = te::SrPolicySegmentList {
        weight: Some(te::SrWeight { flags: 0, weight: 1 }),
        segments: vec![
            te::SrSegment::TypeA { flags: 0x80, label: 16000 << 12 },
            te::SrSegment::TypeB { flags: 0x40, sid: a6, endpoint_behavior: Some(eb.clone()) },
            te::SrSegment::TypeB { flags: 0, sid: a6, endpoint_behavior: None },
        ],
    };
    let cp1 = te::SrPolicyCandidatePath {
        preference: Some(te::SrPolicyPreference { flags: 0, preference: 100 }),
        binding_sid: Some(te::SrPolicyBindingSid::Mpls { flags: 0x80, label: 1500 }),
        srv6_binding_sid: Some(te::SrPolicySrv6BindingSid { flags: 0xa0, sid: a6, endpoint_behavior: eb.clone() }),
        enlp: Some(te::SrPolicyEnlp { flags: 0, enlp_type: 1 }),
        priority: Some(10),
        segment_lists: vec![seglist.clone(), te::SrPolicySegmentList { weight: None, segments: vec![] }],
        candidate_path_name: Some("cp-1".into()),
        policy_name: Some("policy-1".into()),
    };
    let cp2 = te::SrPolicyCandidatePath { binding_sid: Some(te::SrPolicyBindingSid::Srv6 { flags: 0x40, sid: a6 }), ..Default::default() };
    let singles_cp: Vec<te::SrPolicyCandidatePath> = vec![
        te::SrPolicyCandidatePath { preference: cp1.preference.clone(), ..Default::default() },
        te::SrPolicyCandidatePath { binding_sid: cp1.binding_sid.clone(), ..Default::default() },
        te::SrPolicyCandidatePath { srv6_binding_sid: cp1.srv6_binding_sid.clone(), ..Default::default() },
        te::SrPolicyCandidatePath { enlp: cp1.enlp.clone(), ..Default::default() },
        te::SrPolicyCandidatePath { priority: cp1.priority, ..Default::default() },
        te::SrPolicyCandidatePath { segment_lists: vec![seglist.clone()], ..Default::default() },
        te::SrPolicyCandidatePath { segment_lists: vec![te::SrPolicySegmentList { weight: None, segments: vec![te::SrSegment::TypeA { flags: 0, label: 16001 << 12 }] }], ..Default::default() },
        te::SrPolicyCandidatePath { candidate_path_name: cp1.candidate_path_name.clone(), ..Default::default() },
        te::SrPolicyCandidatePath { policy_name: cp1.policy_name.clone(), ..Default::default() },
    ];
    for cp in singles_cp {
        out.push(bin(Attribute::TUNNEL_ENCAP, te::encode(&[te::TunnelEncapTlv { tunnel_type: te::TUNNEL_TYPE_SR_POLICY, value: te::TunnelEncapValue::SrPolicy(cp) }])));
    }
    for tlvs in [
        vec![te::TunnelEncapTlv { tunnel_type: te::TUNNEL_TYPE_SR_POLICY, value: te::TunnelEncapValue::SrPolicy(cp1) }],
        vec![te::TunnelEncapTlv { tunnel_type: te::TUNNEL_TYPE_SR_POLICY, value: te::TunnelEncapValue::SrPolicy(cp2) }],
        vec![te::TunnelEncapTlv { tunnel_type: 8, value: te::TunnelEncapValue::Unknown(vec![4, 8, 3, 11, 0, 0, 0, 0, 0, 100]) }],
    ] {
        out.push(bin(Attribute::TUNNEL_ENCAP, te::encode(&tlvs)));
    }
    // --- PREFIX_SID: SRv6 L3 + L2 service TLVs with SID structure
    let info = |beh: u16, flags: u8| {
        ps::Srv6ServiceSubTlv::Information(ps::Srv6InformationSubTlv {
            sid: a6,
            flags,
            endpoint_behavior: beh,
            sub_sub_tlvs: vec![ps::Srv6ServiceDataSubSubTlv::Structure(ps::Srv6SidStructureSubSubTlv {
                locator_block_length: 40,
                locator_node_length: 24,
                function_length: 16,
                argument_length: 0,
                transposition_length: 16,
                transposition_offset: 64,
            })],
        })
    };
    let sid = ps::PrefixSid {
        tlvs: vec![
            ps::PrefixSidTlv::Srv6L3Service(ps::Srv6ServiceTlv { reserved: 0, sub_tlvs: vec![info(19, 0)] }),
            ps::PrefixSidTlv::Srv6L2Service(ps::Srv6ServiceTlv { reserved: 0, sub_tlvs: vec![info(21, 0)] }),
        ],
    };
    out.push(bin(Attribute::PREFIX_SID, sid.to_vec()));
    let sid2 = ps::PrefixSid { tlvs: vec![ps::PrefixSidTlv::Srv6L3Service(ps::Srv6ServiceTlv { reserved: 0, sub_tlvs: vec![info(19, 0x80), info(20, 0)] })] };
    out.push(bin(Attribute::PREFIX_SID, sid2.to_vec()));
    // --- EXTENDED_COMMUNITY: one value per branch of read_extcom
    let ecs: Vec<[u8; 8]> = vec![
        [0x00, 0x02, 0xfd, 0xe9, 0, 0, 0, 100],
        [0x40, 0x03, 0xfd, 0xe9, 0, 0, 0, 100],
        [0x01, 0x02, 192, 0, 2, 1, 0, 7],
        [0x02, 0x02, 0xfa, 0x56, 0xea, 0, 0, 1],
        [0x0c, 0x00, 0, 1, 0, 0, 0, 2],
        [0x80, 0x06, 0xfd, 0xe9, 0x4e, 0x6e, 0x6b, 0x28],
        [0x80, 0x07, 0, 0, 0, 0, 0, 3],
        [0x80, 0x08, 0xfd, 0xe9, 0, 0, 0, 9],
        [0x80, 0x09, 0, 0, 0, 0, 0, 46],
        [0x81, 0x08, 192, 0, 2, 1, 0, 9],
        [0x82, 0x08, 0, 1, 0, 0, 0, 9],
        [0x80, 0x01, 1, 2, 3, 4, 5, 6],
        [0x03, 0x0b, 0, 0, 0, 0, 0, 100],
        [0x06, 0x00, 1, 0, 0, 0, 0, 5],
        // reserved / ignored bits set: only the literal bytes round-trip
        [0x80, 0x07, 9, 9, 9, 9, 9, 0xff],
        [0x80, 0x09, 1, 2, 3, 4, 5, 0xff],
        [0xc0, 0x06, 0xfd, 0xe9, 0, 0, 0, 1],
        [0x4c, 0x00, 0, 1, 0, 0, 0, 2],
    ];
    out.push(mkmsg::ext_communities(&ecs));
    for e in &ecs {
        out.push(mkmsg::ext_communities(&[*e]));
    }
    out
}

// ===========================================================================
// S1 -- round trip
// ===========================================================================

struct Corpus {
    attrs: Vec<(String, Attribute)>,
    nlris: Vec<(String, Family, Nlri)>,
    frames_ok: u64,
    encode_failed: u64,
}

fn build_corpus() -> Corpus {
    let mut seen_a: HashSet<Attribute> = HashSet::new();
    let mut seen_n: HashSet<(u32, Nlri)> = HashSet::new();
    let mut c = Corpus { attrs: Vec::new(), nlris: Vec::new(), frames_ok: 0, encode_failed: 0 };
    for (k, vals) in mkmsg::attr_kinds() {
        // AS4_* and unknown non-transitive attributes are consumed / discarded on receipt:
        // the daemon never holds them, so they are not part of the round-trip quantifier
        if mkmsg::attr_kind_fate(k) != mkmsg::AttrFate::Kept && mkmsg::attr_kind_fate(k) != mkmsg::AttrFate::KeptExtFlag {
            continue;
        }
        for v in vals {
            if seen_a.insert(v.clone()) {
                c.attrs.push((attr_case(&v), v));
            }
        }
    }
    for v in extra_attrs() {
        if seen_a.insert(v.clone()) {
            c.attrs.push((attr_case(&v), v));
        }
    }
    let fkey = |f: Family| ((f.afi() as u32) << 8) | f.safi() as u32;
    for family in mkmsg::families() {
        let mut ns: Vec<Nlri> = mkmsg::nlris(family, mkmsg::NlriSize::All);
        ns.extend(mkmsg::nlris_code_only(family).into_iter().map(|x| x.1));
        ns.extend(mkmsg::nlri_bulk(family, 24, false));
        ns.extend(mkmsg::nlri_bulk(family, 24, true));
        for n in &ns {
            if seen_n.insert((fkey(family), n.clone())) {
                c.nlris.push((nlri_case(family, n), family, n.clone()));
            }
        }
        // decode the encoded corpus: every attribute set x both AS widths, all named NLRIs
        let mut sets = mkmsg::attribute_sets();
        for (i, a) in extra_attrs().into_iter().enumerate() {
            let mut s = mkmsg::base_attrs();
            s.push(a);
            sets.push((format!("extra#{i}"), s));
        }
        for (_name, set) in sets {
            for two in [false, true] {
                let msg = mkmsg::reach(family, mkmsg::path_entries(&ns, false), mkmsg::default_nexthop(family), &set);
                let frames = match catch(|| mkmsg::encode(&mut codec_all(two), &msg)) {
                    Ok(Ok(f)) => f,
                    _ => {
                        c.encode_failed += 1;
                        continue;
                    }
                };
                for f in frames {
                    let parsed = catch(|| mkmsg::decode_frame(&mut codec_all(two), &f));
                    if let Ok(Ok(ParsedMessage::Update(ParsedUpdate::Routes { reach, mp_reach, attrs, .. }))) = parsed {
                        c.frames_ok += 1;
                        for a in attrs {
                            if seen_a.insert(a.clone()) {
                                c.attrs.push((format!("frame:{}:{}", if two { 2 } else { 4 }, hex(&f)), a));
                            }
                        }
                        for r in reach.iter().chain(mp_reach.iter()) {
                            for e in &r.entries {
                                if seen_n.insert((fkey(r.family), e.nlri.clone())) {
                                    c.nlris.push((nlri_case(r.family, &e.nlri), r.family, e.nlri.clone()));
                                }
                            }
                        }
                    }
                }
            }
        }
    }
    c
}

fn s1(rep: &mut Report) {
    let c = build_corpus();
    let na = c.attrs.len() as u64;
    let nn = c.nlris.len() as u64;
    enumr::par_range(na + nn, rep, |i, r| {
        r.evaluations += 1;
        if i < na {
            let (case, a) = &c.attrs[i as usize];
            check_attr_roundtrip(r, a, case, "corpus value");
        } else {
            let (case, f, n) = &c.nlris[(i - na) as usize];
            check_nlri_roundtrip(r, *f, n, case);
        }
    });
    rep.distinct_nontrivial += na + nn;
    let kinds: BTreeSet<&str> = c.attrs.iter().map(|(_, a)| attr_name(a.code())).collect();
    let shapes: BTreeSet<String> = c.nlris.iter().map(|(_, f, n)| format!("{}:{}", mkmsg::family_name(*f), variant_name(n))).collect();
    rep.notes.push(format!(
        "S1 round trip: {na} distinct attribute values ({} kinds: {}), {nn} distinct NLRI values ({} family:variant shapes); corpus = mkmsg values + {} decoded frames (19 families x attribute sets x {{4,2}}-octet AS codec); {} messages the encoder could not produce were skipped",
        kinds.len(),
        kinds.iter().copied().collect::<Vec<_>>().join(","),
        shapes.len(),
        c.frames_ok,
        c.encode_failed
    ));
    for (case, a) in c.attrs.iter().step_by((c.attrs.len() / 3).max(1)).take(3) {
        rep.samples.push(format!("S1 attr {} flags={:#x} case={}", attr_name(a.code()), a.flags(), trunc(case, 90)));
    }
    for (case, f, n) in c.nlris.iter().step_by((c.nlris.len() / 2).max(1)).take(2) {
        rep.samples.push(format!("S1 nlri {} {} case={}", mkmsg::family_name(*f), variant_name(n), trunc(case, 90)));
    }
}

// ===========================================================================
// S2 -- display totality over the accepted part of a mutation corpus
// ===========================================================================

struct Body {
    code: u8,
    flags: u8,
    bytes: Vec<u8>,
    /// byte positions that are mutated
    pos: Vec<usize>,
}

fn s2_frame(code: u8, flags: u8, body: &[u8]) -> Vec<u8> {
    let mut attrs: Vec<u8> = Vec::new();
    if code != Attribute::ORIGIN {
        attrs.extend_from_slice(&[0x40, 1, 1, 0]);
    }
    if code != Attribute::AS_PATH {
        attrs.extend_from_slice(&[0x40, 2, 6, 2, 1, 0, 0, 0xfd, 0xe9]);
    }
    attrs.extend_from_slice(&[0x40, 3, 4, 192, 0, 2, 1]);
    if body.len() > 255 || flags & 0x10 != 0 {
        attrs.push(flags | 0x10);
        attrs.push(code);
        attrs.extend_from_slice(&(body.len() as u16).to_be_bytes());
    } else {
        attrs.push(flags);
        attrs.push(code);
        attrs.push(body.len() as u8);
    }
    attrs.extend_from_slice(body);
    let nlri = [24u8, 10, 0, 0];
    let total = 19 + 2 + 2 + attrs.len() + nlri.len();
    let mut f = vec![0xffu8; 16];
    f.extend_from_slice(&(total as u16).to_be_bytes());
    f.push(2);
    f.extend_from_slice(&[0, 0]);
    f.extend_from_slice(&(attrs.len() as u16).to_be_bytes());
    f.extend_from_slice(&attrs);
    f.extend_from_slice(&nlri);
    f
}

const S2_BYTE_Q: usize = 9;
const S2_U16: [u16; 6] = [0, 1, 0x00ff, 0x0100, 0xffff, 0x8000];

/// number of mutants of a body and the idx-th mutant: (flags, bytes)
fn s2_count(b: &Body, thorough: bool) -> u64 {
    let p = b.pos.len() as u64;
    let per_byte = if thorough { 256 } else { S2_BYTE_Q as u64 };
    1 + p * per_byte + p * S2_U16.len() as u64 + p /*truncate at pos*/ + 4 /*extend*/ + 2 /*flags*/
}

fn s2_mutant(b: &Body, idx: u64, thorough: bool) -> (u8, Vec<u8>) {
    let mut v = b.bytes.clone();
    let mut flags = b.flags;
    if idx == 0 {
        return (flags, v);
    }
    let mut i = idx - 1;
    let p = b.pos.len() as u64;
    let per_byte = if thorough { 256u64 } else { S2_BYTE_Q as u64 };
    if i < p * per_byte {
        let at = b.pos[(i / per_byte) as usize];
        let k = (i % per_byte) as usize;
        let o = v[at];
        v[at] = if thorough { k as u8 } else { [0, 1, 2, 0x7f, 0x80, 0xfe, 0xff, o.wrapping_add(1), o.wrapping_sub(1)][k] };
        return (flags, v);
    }
    i -= p * per_byte;
    if i < p * S2_U16.len() as u64 {
        let at = b.pos[(i / S2_U16.len() as u64) as usize];
        let x = S2_U16[(i % S2_U16.len() as u64) as usize].to_be_bytes();
        v[at] = x[0];
        if at + 1 < v.len() {
            v[at + 1] = x[1];
        }
        return (flags, v);
    }
    i -= p * S2_U16.len() as u64;
    if i < p {
        v.truncate(b.pos[i as usize]);
        return (flags, v);
    }
    i -= p;
    if i < 4 {
        v.extend(std::iter::repeat(0u8).take(i as usize + 1));
        return (flags, v);
    }
    i -= 4;
    flags = if i == 0 { flags | 0x20 } else { flags | 0x10 };
    (flags, v)
}

fn s2_eval(rep: &mut Report, frame: &[u8], code: u8, distinct: Option<&Distinct>) {
    let parsed = catch(|| mkmsg::decode_frame(&mut codec_all(false), frame));
    let Ok(Ok(ParsedMessage::Update(ParsedUpdate::Routes { reach, mp_reach, unreach, mp_unreach, attrs, error_attrs }))) = parsed else {
        rep.add("s2.not-accepted", 1);
        return;
    };
    if !error_attrs.is_empty() || reach.is_none() {
        rep.add("s2.not-accepted", 1);
        return;
    }
    let stored = attrs.clone();
    let ok = catch(|| {
        pk::bgp::validate_message(ParsedMessage::Update(ParsedUpdate::Routes { reach, mp_reach, unreach, mp_unreach, attrs, error_attrs }), false)
            .map(|it| it.into_iter().any(|m| matches!(m, Message::Update(Update::Reach { .. }))))
            .unwrap_or(false)
    });
    if ok != Ok(true) {
        rep.add("s2.not-accepted", 1);
        return;
    }
    let Some(a) = stored.iter().find(|a| a.code() == code) else {
        rep.add("s2.attribute-dropped", 1);
        return;
    };
    if let Some(d) = distinct {
        let mut k = vec![a.code(), a.flags()];
        k.extend_from_slice(&a.value().map(|v| v.to_be_bytes().to_vec()).unwrap_or_else(|| a.binary().unwrap().clone()));
        if !d.insert(fnv(&k) ^ 0x2222) {
            rep.add("s2.duplicate-value", 1);
            return;
        }
    }
    rep.add("s2.accepted", 1);
    let case = format!("mframe:4:{}", hex(frame));
    check_attr_roundtrip(rep, a, &case, "mutated body accepted by the wire decoder");
}

fn s2(rep: &mut Report, thorough: bool, distinct: &Distinct) {
    let mut bodies: Vec<Body> = Vec::new();
    let mut seen: HashSet<(u8, Vec<u8>)> = HashSet::new();
    let mut all: Vec<Attribute> = mkmsg::attr_kinds().into_iter().flat_map(|(_, v)| v).collect();
    all.extend(extra_attrs());
    for a in all {
        let bytes = match a.value() {
            Some(v) if a.code() == Attribute::ORIGIN => vec![v as u8],
            Some(v) => v.to_be_bytes().to_vec(),
            None => a.binary().unwrap().clone(),
        };
        if !seen.insert((a.code(), bytes.clone())) {
            continue;
        }
        let l = bytes.len();
        let pos: Vec<usize> = if l <= 400 { (0..l).collect() } else { (0..64).chain(l - 8..l).collect() };
        bodies.push(Body { code: a.code(), flags: a.flags(), bytes, pos });
    }
    let counts: Vec<u64> = bodies.iter().map(|b| s2_count(b, thorough)).collect();
    let mut offs = vec![0u64];
    for c in &counts {
        offs.push(offs.last().unwrap() + c);
    }
    let total = *offs.last().unwrap();
    let before = distinct.len();
    enumr::par_range(total, rep, |i, r| {
        r.evaluations += 1;
        let bi = offs.partition_point(|o| *o <= i) - 1;
        let b = &bodies[bi];
        let (flags, body) = s2_mutant(b, i - offs[bi], thorough);
        let frame = s2_frame(b.code, flags, &body);
        s2_eval(r, &frame, b.code, Some(distinct));
    });
    let d = distinct.len() - before;
    rep.distinct_nontrivial += d;
    let kinds: BTreeSet<&str> = bodies.iter().map(|b| attr_name(b.code)).collect();
    rep.notes.push(format!(
        "S2 display totality: {} attribute bodies ({} kinds) x single-field byte mutations = {total} frames ({}); {d} distinct stored attribute values were accepted by parse_message+validate_message and fed to attr_to_api (+ round trip)",
        bodies.len(),
        kinds.len(),
        if thorough {
            "every byte position x all 256 values, every 16-bit window x 6 values, every truncation, 4 extensions, PARTIAL / EXTENDED flag"
        } else {
            "every byte position x 9 boundary values, every 16-bit window x 6 values, every truncation, 4 extensions, PARTIAL / EXTENDED flag"
        }
    ));
    rep.notes.push("assume: S2 mutates only the first 64 and last 8 byte positions of attribute bodies longer than 400 bytes (plain ASN / community lists)".into());
}

// ===========================================================================
// S3 -- API input totality and invariant preservation
// ===========================================================================

struct Base {
    kind: Kind,
    label: String,
    root: DMsg,
    muts: Vec<Mutn>,
    /// variant key: (kind, first field number of the root oneof)
    variant: (u32, u32),
    pairs: bool,
    /// indices of the mutations of the reduced domain (pair sweep)
    core_idx: Vec<usize>,
    row_off: Vec<u64>,
}

fn typed_attr_bases() -> Vec<(String, api::Attribute)> {
    use api::attribute::Attr;
    let mut v: Vec<(String, api::Attribute)> = Vec::new();
    let mp = |afi: i32, safi: i32, nhs: &[&str]| api::Attribute {
        attr: Some(Attr::MpReach(api::MpReachNlriAttribute {
            family: Some(api::Family { afi, safi }),
            next_hops: nhs.iter().map(|s| s.to_string()).collect(),
            nlris: vec![],
        })),
    };
    v.push(("mp_reach ipv4 v4nh".into(), mp(1, 1, &["192.0.2.1"])));
    v.push(("mp_reach ipv6 v6nh".into(), mp(2, 1, &["2001:db8::1", "fe80::1"])));
    v.push(("mp_reach flowspec no nh".into(), mp(1, 133, &[])));
    v.push(("mp_reach evpn v4nh".into(), mp(25, 70, &["192.0.2.1"])));
    v.push(("next_hop v4".into(), api::Attribute { attr: Some(Attr::NextHop(api::NextHopAttribute { next_hop: "192.0.2.1".into() })) }));
    v.push(("originator_id".into(), api::Attribute { attr: Some(Attr::OriginatorId(api::OriginatorIdAttribute { id: "192.0.2.1".into() })) }));
    v.push(("cluster_list".into(), api::Attribute { attr: Some(Attr::ClusterList(api::ClusterListAttribute { ids: vec!["192.0.2.1".into(), "192.0.2.2".into()] })) }));
    for code in [1u32, 2, 3, 4, 5, 6, 7, 8, 9, 10, 14, 15, 16, 17, 18, 23, 26, 29, 32, 40, 200] {
        v.push((format!("unknown type={code}"), api::Attribute { attr: Some(Attr::Unknown(api::UnknownAttribute { flags: 0xc0, r#type: code, value: vec![1, 2, 3] })) }));
    }
    v.push(("unknown type=1 body=[0]".into(), api::Attribute { attr: Some(Attr::Unknown(api::UnknownAttribute { flags: 0x40, r#type: 1, value: vec![0] })) }));
    v.push(("unknown type=2 valid".into(), api::Attribute { attr: Some(Attr::Unknown(api::UnknownAttribute { flags: 0x40, r#type: 2, value: vec![2, 1, 0, 0, 0xfd, 0xe9] })) }));
    v
}

fn s3_bases(schema: &Schema, rep: &mut Report) -> Vec<Base> {
    let mut out: Vec<Base> = Vec::new();
    let mut seen: HashSet<Vec<u8>> = HashSet::new();
    let mut push = |out: &mut Vec<Base>, kind: Kind, label: String, pb: Vec<u8>, rep: &mut Report| {
        let mut key = pb.clone();
        if let Kind::Nlri(f) = kind {
            key.extend_from_slice(&[0xff, f.afi() as u8, f.safi()]);
        }
        if !seen.insert(key) {
            return;
        }
        let mname = if kind == Kind::Attr { "Attribute" } else { "NLRI" };
        let Some(root) = dparse(schema, mname, &pb) else {
            rep.machinery_error = Some(format!("c17: schema-guided parse of base {label} failed"));
            return;
        };
        let mut chk = Vec::new();
        dser(&root, &mut chk);
        if chk != pb {
            rep.machinery_error = Some(format!("c17: dynamic re-serialisation of base {label} differs from prost's"));
            return;
        }
        let mut muts = Vec::new();
        enum_muts(schema, mname, &root, &mut Vec::new(), &mut muts);
        let variant = (if kind == Kind::Attr { 0 } else { 1 }, root.first().map(|e| e.0).unwrap_or(0));
        out.push(Base { kind, label, root, muts, variant, pairs: false, core_idx: Vec::new(), row_off: Vec::new() });
    };
    let mut attrs: Vec<Attribute> = mkmsg::attr_kinds().into_iter().flat_map(|(_, v)| v).collect();
    attrs.extend(extra_attrs());
    for a in attrs {
        if let Ok(m) = catch(|| convert::attr_to_api(&a)) {
            push(&mut out, Kind::Attr, format!("to_api({} {}B)", attr_name(a.code()), a.binary().map(|b| b.len()).unwrap_or(4)), m.encode_to_vec(), rep);
        }
    }
    for (label, m) in typed_attr_bases() {
        push(&mut out, Kind::Attr, label, m.encode_to_vec(), rep);
    }
    for family in mkmsg::families() {
        let mut ns = mkmsg::nlris_named(family);
        ns.extend(mkmsg::nlris_code_only(family));
        for (name, n) in ns {
            if let Ok(m) = catch(|| convert::nlri_to_api(&n)) {
                push(&mut out, Kind::Nlri(family), format!("to_api({} {name})", mkmsg::family_name(family)), m.encode_to_vec(), rep);
            }
        }
    }
    // an API NLRI offered under every other family (family/NLRI disagreement is one "field")
    let fams = mkmsg::families();
    let n_own = out.len();
    let mut cross: Vec<(Kind, String, Vec<u8>)> = Vec::new();
    let mut first_of_family: BTreeMap<u32, usize> = BTreeMap::new();
    for (i, b) in out.iter().enumerate().take(n_own) {
        if let Kind::Nlri(f) = b.kind {
            first_of_family.entry(((f.afi() as u32) << 8) | f.safi() as u32).or_insert(i);
        }
    }
    for i in first_of_family.values() {
        let b = &out[*i];
        let mut pb = Vec::new();
        dser(&b.root, &mut pb);
        for f in &fams {
            if Kind::Nlri(*f) != b.kind {
                cross.push((Kind::Nlri(*f), format!("{} as {}", b.label, mkmsg::family_name(*f)), pb.clone()));
            }
        }
    }
    for (k, l, pb) in cross {
        push(&mut out, k, l, pb, rep);
    }
    // pairs: per variant the base with the most mutation sites
    let mut best: BTreeMap<(u32, u32, u32), usize> = BTreeMap::new();
    for (i, b) in out.iter().enumerate() {
        let fk = match b.kind {
            Kind::Attr => 0,
            Kind::Nlri(f) => ((f.afi() as u32) << 8) | f.safi() as u32,
        };
        if b.label.contains(" as ") {
            continue;
        }
        let k = (b.variant.0, b.variant.1, fk);
        // most distinct fields reached; among those the smallest message
        let score = |x: &Base| {
            let sites: BTreeSet<&str> = x.muts.iter().map(|m| m.site.as_str()).collect();
            (sites.len(), usize::MAX - x.muts.len())
        };
        match best.get(&k) {
            Some(j) if score(&out[*j]) >= score(b) => {}
            _ => {
                best.insert(k, i);
            }
        }
    }
    for i in best.values() {
        let b = &mut out[*i];
        b.pairs = true;
        // full boundary domain for messages of up to 1000 single deviations, reduced domain beyond
        let full = b.muts.len() <= 1000;
        b.core_idx = b.muts.iter().enumerate().filter(|(_, m)| full || m.core).map(|(i, _)| i).collect();
        let n = b.core_idx.len() as u64;
        let mut off = Vec::with_capacity(n as usize + 1);
        let mut acc = 0u64;
        for t in 0..n {
            off.push(acc);
            acc += n - 1 - t;
        }
        off.push(acc);
        b.row_off = off;
    }
    out
}

fn s3(rep: &mut Report, thorough: bool, distinct: &Distinct) {
    let schema = load_schema();
    let bases = s3_bases(&schema, rep);
    if rep.machinery_error.is_some() {
        return;
    }
    // singles (index 0 of each base = the unmodified message)
    let mut offs = vec![0u64];
    for b in &bases {
        offs.push(offs.last().unwrap() + 1 + b.muts.len() as u64);
    }
    let singles = *offs.last().unwrap();
    let before = distinct.len();
    let sites: BTreeSet<&str> = bases.iter().flat_map(|b| b.muts.iter().map(|m| m.site.as_str())).collect();
    let reps = Reps::new();
    let single_input = |i: u64| -> Option<(Kind, Vec<u8>)> {
        let bi = offs.partition_point(|o| *o <= i) - 1;
        let b = &bases[bi];
        let k = i - offs[bi];
        let mut root = b.root.clone();
        if k > 0 && !apply_mut(&mut root, &b.muts[(k - 1) as usize]) {
            return None;
        }
        let mut pb = Vec::new();
        dser(&root, &mut pb);
        Some((b.kind, pb))
    };
    enumr::par_range(singles, rep, |i, _r| {
        if let Some((kind, pb)) = single_input(i) {
            s3_offer(kind, &pb, i, &reps);
        }
    });
    enumr::par_range(singles, rep, |i, r| {
        r.evaluations += 1;
        let bi = offs.partition_point(|o| *o <= i) - 1;
        let b = &bases[bi];
        let k = i - offs[bi];
        let Some((_, pb)) = single_input(i) else {
            r.machinery_error = Some(format!("c17: single mutation {} of base {} does not apply", k.saturating_sub(1), b.label));
            return;
        };
        let tag = s3_eval(r, b.kind, &pb, Some((&reps, i, distinct)));
        if k == 0 && tag != "accepted" && tag != "duplicate" && !b.label.contains(" as ") {
            r.add("s3.base-not-accepted", 1);
        }
    });
    let d1 = distinct.len() - before;
    rep.notes.push(format!(
        "S3 single deviations: {} valid base messages ({} api.Attribute, {} api.NLRI incl. family cross-overs), {} declared fields of {} message types reached, {singles} inputs, {d1} distinct after prost decoding",
        bases.len(),
        bases.iter().filter(|b| b.kind == Kind::Attr).count(),
        bases.iter().filter(|b| b.kind != Kind::Attr).count(),
        sites.len(),
        sites.iter().map(|s| s.rsplit_once('.').map(|x| x.0).unwrap_or(s)).collect::<BTreeSet<_>>().len(),
    ));
    if thorough {
        let pb: Vec<&Base> = bases.iter().filter(|b| b.pairs).collect();
        let mut poffs = vec![0u64];
        for b in &pb {
            poffs.push(poffs.last().unwrap() + *b.row_off.last().unwrap());
        }
        let pairs = *poffs.last().unwrap();
        if std::env::var("C17_DEBUG").is_ok() {
            for b in &pb {
                eprintln!("c17 pairs base [{}] muts={} core={} pairs={}", b.label, b.muts.len(), b.core_idx.len(), b.row_off.last().unwrap());
            }
        }
        let before = distinct.len();
        // Err(true) = same field / nested, Err(false) = not applicable
        let pair_input = |i: u64| -> Result<(Kind, Vec<u8>), bool> {
            let bi = poffs.partition_point(|o| *o <= i) - 1;
            let b = pb[bi];
            let k = i - poffs[bi];
            let x = b.row_off.partition_point(|o| *o <= k) - 1;
            let y = x + 1 + (k - b.row_off[x]) as usize;
            let (ma, mb) = (&b.muts[b.core_idx[x]], &b.muts[b.core_idx[y]]);
            if !compatible(ma, mb) {
                return Err(true);
            }
            let mut root = b.root.clone();
            if !apply_mut(&mut root, ma) || !apply_mut(&mut root, mb) {
                return Err(false);
            }
            let mut bytes = Vec::new();
            dser(&root, &mut bytes);
            Ok((b.kind, bytes))
        };
        enumr::par_range(pairs, rep, |i, _r| {
            if let Ok((kind, bytes)) = pair_input(i) {
                s3_offer(kind, &bytes, singles + i, &reps);
            }
        });
        enumr::par_range(pairs, rep, |i, r| match pair_input(i) {
            Err(true) => r.add("s3.pairs.same-field-or-nested", 1),
            Err(false) => r.add("s3.pairs.not-applicable", 1),
            Ok((kind, bytes)) => {
                r.evaluations += 1;
                s3_eval(r, kind, &bytes, Some((&reps, singles + i, distinct)));
            }
        });
        let d2 = distinct.len() - before;
        rep.notes.push(format!(
            "S3 pairs: all pairs of single deviations (full domain for base messages with at most 1000 single deviations; for larger ones the reduced domain: enum -1/0/max+1/256, uint32 0/255/256/65535/65536/max, lists 0/1/255/256, strings valid-v4/valid-v6/empty/garbage/over-long, byte strings of 0/3/4/16/300 bytes, message absent/empty, oneof alternatives) at different fields for {} representative bases (per api.Attribute variant / per family and api.NLRI variant the base that reaches the most declared fields, smallest such message): {pairs} pairs, {d2} new distinct inputs; {} distinct stored outcomes in S3 overall",
            pb.len(),
            reps.len()
        ));
    }
    rep.distinct_nontrivial += distinct.len() - before.min(distinct.len()) + if thorough { d1 } else { 0 };
    for b in bases.iter().step_by((bases.len() / 3).max(1)).take(3) {
        if let Some(m) = b.muts.get(b.muts.len() / 2) {
            let mut root = b.root.clone();
            apply_mut(&mut root, m);
            let mut pbb = Vec::new();
            dser(&root, &mut pbb);
            rep.samples.push(format!("S3 base [{}] field {} := {:?} -> {}", b.label, m.site, m.add.first().map(|x| trunc(&format!("{:?}", x.1), 40)), trunc(&s3_case(b.kind, &pbb), 100)));
        }
    }
}

// ===========================================================================
// entry
// ===========================================================================

fn replay_case(rep: &mut Report, case: &str) {
    rep.evaluations = 1;
    if case.starts_with("attr:") {
        match attr_from_case(case) {
            Some(a) => {
                eprintln!("c17 replay: attribute {a:?}");
                let r = catch(|| convert::attr_to_api(&a));
                eprintln!("c17 replay: attr_to_api -> {}", trunc(&format!("{r:?}"), 600));
                if let Ok(m) = r {
                    eprintln!("c17 replay: attr_from_api -> {:?}", catch(|| convert::attr_from_api(m)));
                }
                check_attr_roundtrip(rep, &a, case, "replay");
            }
            None => rep.machinery_error = Some("c17: bad attr case".into()),
        }
    } else if let Some(rest) = case.strip_prefix("frame:").or(case.strip_prefix("mframe:")) {
        let (w, h) = rest.split_once(':').unwrap_or(("4", rest));
        let frame = unhex(h);
        let two = w == "2";
        match catch(|| mkmsg::decode_frame(&mut codec_all(two), &frame)) {
            Ok(Ok(ParsedMessage::Update(ParsedUpdate::Routes { attrs, error_attrs, .. }))) => {
                eprintln!("c17 replay: frame decodes to {} attributes, {} attribute errors", attrs.len(), error_attrs.len());
                for a in &attrs {
                    eprintln!("c17 replay:   {a:?}");
                    check_attr_roundtrip(rep, a, case, "accepted by the wire decoder");
                }
            }
            o => eprintln!("c17 replay: frame not accepted: {}", trunc(&format!("{:?}", o.map(|x| x.is_ok())), 200)),
        }
    } else if let Some(rest) = case.strip_prefix("nlri:") {
        let mut it = rest.splitn(2, ':');
        let fam = it.next().unwrap_or("");
        let h = it.next().unwrap_or("");
        let (afi, safi) = fam.split_once('/').unwrap_or(("1", "1"));
        let family = Family::new(afi.parse().unwrap_or(1), safi.parse().unwrap_or(1));
        match catch(|| mkmsg::nlri_from_wire(family, false, &unhex(h))) {
            Ok(Ok(v)) => {
                for e in v {
                    eprintln!("c17 replay: NLRI {:?}", e.nlri);
                    let api_n = catch(|| convert::nlri_to_api(&e.nlri));
                    eprintln!("c17 replay: nlri_to_api -> {}", trunc(&format!("{api_n:?}"), 600));
                    if let Ok(m) = api_n {
                        eprintln!("c17 replay: net_from_api -> {}", trunc(&format!("{:?}", catch(|| convert::net_from_api(m, family))), 600));
                    }
                    check_nlri_roundtrip(rep, family, &e.nlri, case);
                }
            }
            o => rep.machinery_error = Some(format!("c17: cannot rebuild the NLRI from its wire form: {o:?}")),
        }
    } else if let Some(h) = case.strip_prefix("api-attr:") {
        let pb = unhex(h);
        eprintln!("c17 replay: api.Attribute = {}", trunc(&format!("{:?}", api::Attribute::decode(&pb[..])), 800));
        if let Ok(m) = api::Attribute::decode(&pb[..]) {
            eprintln!("c17 replay: attr_from_api -> {}", trunc(&format!("{:?}", catch(|| convert::attr_from_api(m))), 600));
        }
        s3_eval(rep, Kind::Attr, &pb, None);
    } else if let Some(rest) = case.strip_prefix("api-nlri:") {
        let mut it = rest.splitn(2, ':');
        let fam = it.next().unwrap_or("");
        let pb = unhex(it.next().unwrap_or(""));
        let (afi, safi) = fam.split_once('/').unwrap_or(("1", "1"));
        let family = Family::new(afi.parse().unwrap_or(1), safi.parse().unwrap_or(1));
        eprintln!("c17 replay: family {} api.NLRI = {}", mkmsg::family_name(family), trunc(&format!("{:?}", api::Nlri::decode(&pb[..])), 800));
        if let Ok(m) = api::Nlri::decode(&pb[..]) {
            eprintln!("c17 replay: net_from_api -> {}", trunc(&format!("{:?}", catch(|| convert::net_from_api(m, family))), 600));
        }
        s3_eval(rep, Kind::Nlri(family), &pb, None);
    } else {
        rep.machinery_error = Some(format!("c17: unknown replay descriptor {}", trunc(case, 40)));
    }
    flush_violations(rep);
    for (v, _) in rep.violations.values() {
        eprintln!("c17 replay: VIOLATION {} :: {}", v.sig, v.what);
    }
}

pub(crate) fn run(replay: Option<&str>) -> Report {
    let mut rep = Report::new("C17", "c17");
    if let Some(case) = replay {
        replay_case(&mut rep, case);
        return rep;
    }
    let thorough = rep.thorough();
    rep.rule = "S1: each distinct Attribute / (family, Nlri) value of the corpus (mkmsg generators + values obtained by decoding the encoded corpus) once; \
S2: each single-field byte mutation of each attribute body, non-trivial = accepted by the wire decoder and a stored value not seen before; \
S3: each single deviation (thorough: also each pair at different fields) of each declared protobuf field of each valid base message over its boundary domain \
(enum -1/0/defined/max+1/255/256/65535/65536, uint32 0/1/3/32/33/128/129/255/256/65535/65536/max, lists of 0/1/255/256 elements, 21 strings incl. valid v4/v6/prefix/MAC, empty, garbage, over-long, 13 byte-string lengths, message absent/empty, every oneof alternative), \
distinct = distinct message after prost decoding"
        .into();
    let distinct = Distinct::new();
    let t0 = std::time::Instant::now();
    s1(&mut rep);
    let t1 = t0.elapsed().as_secs_f64();
    s2(&mut rep, thorough, &distinct);
    let t2 = t0.elapsed().as_secs_f64();
    s3(&mut rep, thorough, &distinct);
    let t3 = t0.elapsed().as_secs_f64();
    eprintln!("c17: wall S1 {:.1}s S2 {:.1}s S3 {:.1}s", t1, t2 - t1, t3 - t2);
    with_probe(|p| rep.notes.push(format!("probing policy: {} single-condition / single-action statements (8 AS_PATH matchers x any/invert, AS_PATH length, community / ext-community / large-community sets x any/all/invert, community count, prefix, neighbor, next-hop, RPKI x3, local-pref, MED, origin x3, route-type x3, afi-safi, as-prepend leftmost, community/ext/large add+remove, med, local-pref, origin), applied as export (plain + confed) and import policy with an RPKI table", p.statements)));
    rep.notes.push("assume: event/grpc.rs GrpcService::local_path is mirrored by local_path_model (it is a private method of a type that needs a running daemon); attributes it drops (ORIGINATOR_ID, CLUSTER_LIST, MP_UNREACH) or consumes (NEXT_HOP, MP_REACH) are not subject to the stored-value invariants".into());
    rep.notes.push("assume: flags are compared modulo the extended-length bit (0x10), which records how the length was encoded on receipt; a pure reordering of the TLVs of LS / TUNNEL_ENCAP / PREFIX_SID bodies is not counted as a round-trip difference".into());
    rep.notes.push("assume: gRPC input reaches the converters only after prost decoding; inputs prost rejects (wire-type mismatch, invalid UTF-8) are outside the quantifier".into());
    rep.exhaustive = true;
    flush_violations(&mut rep);
    rep
}
