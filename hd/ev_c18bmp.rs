// C18, observed where a real subscriber lives: a loopback BMP station attached to the
// daemon's real BMP client (bmp.rs serve: subscribe(snapshot), initial Peer Up burst from
// Global.peers, snapshot flush per established peer, live loop with peer-up/down pairing).
//
// Explicit-state BFS over histories of: session up / announce / withdraw / session down
// (plain and with GR: routes retained as stale) / stale purge / restart-timer drop for two
// neighbours, and attach / detach of the station at any point.  After every step the
// station's stream is read up to a sentinel and folded per peer:
//   * Peer Down is reported only for a peer whose Peer Up was reported to this station;
//   * for every peer the station holds as up, fold(Route Monitoring, pre and post policy)
//     equals the pre- / post-policy Adj-RIB-In the RIB holds for that peer.
// The table side is driven through the calls PeerSession makes (peer_up, insert_route,
// remove_route, unregister_peer + peer_down, drop_stale_families, drop_families); the part of
// Global.peers the BMP client reads for its initial burst (PeerState.session_addrs and the
// remote identity) is set and cleared as apply_outputs does.

use super::super::*;
use super::c19::{attach_bmp, wait_subscribers, wire, Station};
use super::common::*;
use crate::verif::vx::bfs::{self, BfsCfg, Model};
use crate::verif::vx::report::Report;
use std::collections::{BTreeMap, BTreeSet};
use std::net::{IpAddr, Ipv4Addr, SocketAddr};

const F: Family = Family::IPV4;

#[derive(Clone, Debug)]
enum Op {
    Up(u8),
    Ann(u8, u8, u8),
    Wd(u8, u8),
    Drop(u8),
    /// the two halves of a session end, so that a station can attach in between: the FSM's
    /// SessionDown (session_addrs cleared, routes dropped) ...
    DropBegin(u8),
    /// ... and the PeerDown event that session_loop emits afterwards
    DropEnd(u8),
    GrDrop(u8),
    Purge(u8),
    TimerDrop(u8),
    Attach,
    Detach,
}

fn op_name(o: &Op) -> String {
    let p = |x: &u8| ["A", "B"][*x as usize];
    match o {
        Op::Up(x) => format!("session_up({})", p(x)),
        Op::Ann(x, n, a) => format!("announce({},P{},attr{})", p(x), n + 1, a),
        Op::Wd(x, n) => format!("withdraw({},P{})", p(x), n + 1),
        Op::Drop(x) => format!("session_down({})", p(x)),
        Op::DropBegin(x) => format!("session_down_begins({})", p(x)),
        Op::DropEnd(x) => format!("session_down_reported({})", p(x)),
        Op::GrDrop(x) => format!("session_down_gr({})", p(x)),
        Op::Purge(x) => format!("stale_purge({})", p(x)),
        Op::TimerDrop(x) => format!("restart_timer_drop({})", p(x)),
        Op::Attach => "station_attach".into(),
        Op::Detach => "station_detach".into(),
    }
}

fn peer_addr(x: u8) -> IpAddr {
    IpAddr::V4(Ipv4Addr::new(10, 18, 0, 1 + x))
}
fn peer_asn(x: u8) -> u32 {
    65101 + x as u32
}
fn peer_id(x: u8) -> u32 {
    u32::from(Ipv4Addr::new(10, 18, 0, 1 + x))
}
fn net(n: u8) -> packet::Nlri {
    packet::Nlri::V4(packet::bgp::Ipv4Net { addr: Ipv4Addr::new(10, 80 + n, 0, 0), mask: 24 })
}
fn attrs(x: u8, a: u8) -> Arc<Vec<packet::Attribute>> {
    let mut path = vec![2u8, 1];
    path.extend_from_slice(&peer_asn(x).to_be_bytes());
    Arc::new(vec![
        packet::Attribute::new_with_value(packet::Attribute::ORIGIN, 0).unwrap(),
        packet::Attribute::new_with_bin(packet::Attribute::AS_PATH, path).unwrap(),
        packet::Attribute::new_with_value(packet::Attribute::MULTI_EXIT_DESC, 10 + a as u32).unwrap(),
    ])
}
fn nexthop(x: u8) -> bgp::Nexthop {
    bgp::Nexthop::V4(Ipv4Addr::new(10, 18, 0, 1 + x))
}

type View = BTreeMap<(IpAddr, bool, String), String>;

struct StationSide {
    station: Station,
    cancel: CancellationToken,
    /// peers for which this station received Peer Up and no Peer Down since
    up: BTreeSet<IpAddr>,
    /// (peer, post-policy?, prefix) -> attribute fingerprint
    view: View,
}

pub(crate) struct Sys {
    rt: tokio::runtime::Runtime,
    global: GlobalHandle,
    tables: TableHandle,
    st: Option<StationSide>,
    up: [bool; 2],
    stale: [bool; 2],
    /// the session has ended (routes dropped, Global updated) but its PeerDown event is still to come
    ending: [bool; 2],
    srcs: [Arc<table::Source>; 2],
    seq: u32,
    n_attach: u8,
    broken: BTreeSet<String>,
    dead: bool,
}

struct BmpModel {
    name: &'static str,
    ops: Vec<Op>,
    attached_at_start: bool,
}

fn mk_src(x: u8) -> Arc<table::Source> {
    Arc::new(table::Source::new(peer_addr(x), IpAddr::V4(Ipv4Addr::new(10, 18, 0, 254)), peer_asn(x), 65000, Ipv4Addr::from(peer_id(x)), table::PeerRole::Ebgp))
}

fn attr_fp(a: &[packet::Attribute]) -> String {
    let mut v: Vec<(u8, String)> = a.iter().filter(|x| x.code() != packet::Attribute::NEXTHOP).map(|x| (x.code(), crate::verif::vx::report::hex(&x.encode_to_bytes()))).collect();
    v.sort();
    v.into_iter().map(|(_, h)| h).collect::<Vec<_>>().join(".")
}

impl BmpModel {
    async fn attach(&self, sys_global: &GlobalHandle, tables: &TableHandle) -> Result<StationSide, String> {
        let before = tables.bmp_senders().len();
        let (mut station, saddr) = Station::new().await?;
        let cancel = attach_bmp(sys_global, tables, saddr, crate::bmp::BmpPolicy::Both);
        station.accept().await?;
        if !wait_subscribers(tables, before + 1, "BMP client").await {
            return Err("BMP client did not subscribe".into());
        }
        Ok(StationSide { station, cancel, up: BTreeSet::new(), view: View::new() })
    }

    /// Send a sentinel Peer Up / Peer Down pair through the event channel and fold everything the
    /// station receives up to the sentinel's Peer Down.  Returns the oracle findings of the stream.
    async fn sync(&self, sys_tables: &TableHandle, st: &mut StationSide, seq: u32) -> Result<Vec<(String, String)>, String> {
        let mut out = Vec::new();
        let sentinel = IpAddr::V4(Ipv4Addr::new(198, 51, 100, 99));
        let open = |asn: u32, id: u32| {
            bgp::Message::Open(bgp::Open { as_number: asn, holdtime: HoldTime::new(90).unwrap(), router_id: id, capability: vec![packet::Capability::MultiProtocol(F), packet::Capability::FourOctetAsNumber(asn)] })
        };
        sys_tables.peer_up(PeerUpData { peer_addr: sentinel, peer_asn: 65099, peer_id: 0xc633_6463, uptime: seq as u64, local_addr: "198.51.100.1".parse().unwrap(), local_port: 179, remote_port: 40001, sent_open: open(65000, 0x0a12_00fe), received_open: open(65099, 0xc633_6463) });
        sys_tables.peer_down(PeerDownData { peer_addr: sentinel, peer_asn: 65099, peer_id: 0xc633_6463, uptime: 0, reason: rustybgp_packet::bmp::PeerDownReason::RemoteUnexpected });
        loop {
            let m = match st.station.next().await? {
                None => return Err("the BMP client closed the connection".into()),
                Some(m) => m,
            };
            let msg = wire::read_bmp(&m).map_err(|e| format!("station cannot frame a BMP message: {e}"))?;
            let Some(pp) = msg.per_peer.as_ref() else { continue };
            if pp.peer_type != 0 {
                continue;
            }
            let addr = IpAddr::V4(Ipv4Addr::new(pp.address[12], pp.address[13], pp.address[14], pp.address[15]));
            match &msg.body {
                wire::BmpBody::PeerUp { .. } => {
                    if addr != sentinel {
                        st.up.insert(addr);
                    }
                }
                wire::BmpBody::PeerDown { .. } => {
                    if addr == sentinel {
                        return Ok(out);
                    }
                    if !st.up.remove(&addr) {
                        out.push(("C18/bmp/peer-down-without-peer-up".to_string(), format!("Peer Down for {addr} reached the station, which was never told that this peer is up")));
                    }
                    st.view.retain(|k, _| k.0 != addr);
                }
                wire::BmpBody::RouteMonitoring { pdus } => {
                    let post = pp.flags & 0x40 != 0;
                    for s in pdus {
                        let mut buf = bytes::BytesMut::from(&m[s.off..s.off + s.len]);
                        // BMP carries UPDATEs with four-octet AS numbers (RFC 7854 4.6)
                        let caps = vec![packet::Capability::MultiProtocol(F), packet::Capability::FourOctetAsNumber(65000)];
                        let mut codec = bgp::PeerCodec::negotiate(&caps, &caps);
                        match codec.try_parse(&mut buf) {
                            Ok(Some(bgp::ParsedMessage::Update(bgp::ParsedUpdate::Routes { reach, mp_reach, unreach, mp_unreach, attrs, .. }))) => {
                                for u in unreach.into_iter().chain(mp_unreach) {
                                    for e in u.entries {
                                        st.view.remove(&(addr, post, format!("{}", e.nlri)));
                                    }
                                }
                                for r in reach.into_iter().chain(mp_reach) {
                                    for e in r.entries {
                                        st.view.insert((addr, post, format!("{}", e.nlri)), attr_fp(&attrs));
                                    }
                                }
                            }
                            Ok(_) => {}
                            Err(e) => return Err(format!("station cannot parse the UPDATE of a Route Monitoring message: {e:?}")),
                        }
                    }
                }
                _ => {}
            }
        }
    }
}

impl Model for BmpModel {
    type Sys = Sys;
    fn name(&self) -> String {
        self.name.into()
    }
    fn n_ops(&self) -> usize {
        self.ops.len()
    }
    fn op_name(&self, op: usize) -> String {
        op_name(&self.ops[op])
    }
    fn init(&self) -> Sys {
        let rt = runtime();
        let global = make_global();
        let tables = make_tables(2);
        let mut dead = false;
        rt.block_on(async {
            let mut g = global.write().await;
            for x in 0..2u8 {
                let mut p = default_peer_params(peer_addr(x));
                p.passive = true;
                p.expected_remote_asn = peer_asn(x);
                if g.add_peer(p, None).is_err() {
                    dead = true;
                }
            }
        });
        let mut sys = Sys { rt, global, tables, st: None, up: [false; 2], stale: [false; 2], ending: [false; 2], srcs: [mk_src(0), mk_src(1)], seq: 0, n_attach: 0, broken: BTreeSet::new(), dead };
        if self.attached_at_start && !sys.dead {
            match sys.rt.block_on(self.attach(&sys.global, &sys.tables)) {
                Ok(s) => sys.st = Some(s),
                Err(e) => {
                    machinery(format!("C18 bmp: {e}"));
                    sys.dead = true;
                }
            }
        }
        sys
    }

    fn step(&self, sys: &mut Sys, op: usize, out: &mut Vec<(String, String)>) -> bool {
        if sys.dead {
            return false;
        }
        let o = &self.ops[op];
        let t = sys.tables.clone();
        sys.seq += 1;
        match o {
            Op::DropBegin(x) => {
                let i = *x as usize;
                if !sys.up[i] || sys.ending[i] {
                    return false;
                }
                sys.ending[i] = true;
                sys.rt.block_on(async {
                    let g = sys.global.read().await;
                    if let Some(p) = g.peers.get(&peer_addr(*x)) {
                        p.state.session_addrs.store(None);
                    }
                });
                t.unregister_peer(peer_addr(*x), &[F], &[]);
                sys.stale[i] = false;
            }
            Op::DropEnd(x) => {
                let i = *x as usize;
                if !sys.ending[i] {
                    return false;
                }
                sys.ending[i] = false;
                sys.up[i] = false;
                t.peer_down(PeerDownData { peer_addr: peer_addr(*x), peer_asn: peer_asn(*x), peer_id: peer_id(*x), uptime: 1, reason: rustybgp_packet::bmp::PeerDownReason::RemoteUnexpected });
            }
            Op::Up(x) => {
                let i = *x as usize;
                if sys.up[i] {
                    return false;
                }
                sys.up[i] = true;
                sys.srcs[i] = mk_src(*x);
                let asn = peer_asn(*x);
                let caps = vec![packet::Capability::MultiProtocol(F), packet::Capability::FourOctetAsNumber(asn)];
                // what apply_outputs does on SessionEstablished, then on_established's peer_up
                sys.rt.block_on(async {
                    let g = sys.global.read().await;
                    if let Some(p) = g.peers.get(&peer_addr(*x)) {
                        p.state.remote_asn.store(asn, Ordering::Relaxed);
                        p.state.remote_id.store(peer_id(*x), Ordering::Relaxed);
                        p.state.remote_holdtime.store(90, Ordering::Relaxed);
                        p.state.remote_cap.store(Some(Arc::new(caps.clone())));
                        p.state.session_addrs.store(Some(Arc::new(SessionAddrs { local: SocketAddr::new(IpAddr::V4(Ipv4Addr::new(10, 18, 0, 254)), 179), remote_port: 40000 + *x as u16 })));
                    }
                });
                let open = |a: u32, id: u32, c: &Vec<packet::Capability>| bgp::Message::Open(bgp::Open { as_number: a, holdtime: HoldTime::new(90).unwrap(), router_id: id, capability: c.clone() });
                t.peer_up(PeerUpData { peer_addr: peer_addr(*x), peer_asn: asn, peer_id: peer_id(*x), uptime: 1, local_addr: IpAddr::V4(Ipv4Addr::new(10, 18, 0, 254)), local_port: 179, remote_port: 40000 + *x as u16, sent_open: open(65000, 0x0a12_00fe, &caps), received_open: open(asn, peer_id(*x), &caps) });
            }
            Op::Ann(x, n, a) => {
                if !sys.up[*x as usize] || sys.ending[*x as usize] {
                    return false;
                }
                t.insert_route(sys.srcs[*x as usize].clone(), F, packet::PathNlri::new(net(*n)), Some(nexthop(*x)), attrs(*x, *a), None, sys.seq);
            }
            Op::Wd(x, n) => {
                if !sys.up[*x as usize] || sys.ending[*x as usize] {
                    return false;
                }
                t.remove_route(sys.srcs[*x as usize].clone(), F, packet::PathNlri::new(net(*n)), None, sys.seq);
            }
            Op::Drop(x) | Op::GrDrop(x) => {
                let i = *x as usize;
                if !sys.up[i] || sys.ending[i] {
                    return false;
                }
                let gr = matches!(o, Op::GrDrop(_));
                if gr && sys.stale[i] {
                    return false; // one stale generation at a time
                }
                sys.up[i] = false;
                sys.rt.block_on(async {
                    let g = sys.global.read().await;
                    if let Some(p) = g.peers.get(&peer_addr(*x)) {
                        p.state.session_addrs.store(None);
                    }
                });
                if gr {
                    t.unregister_peer(peer_addr(*x), &[], &[F]);
                    sys.stale[i] = true;
                } else {
                    t.unregister_peer(peer_addr(*x), &[F], &[]);
                    sys.stale[i] = false;
                }
                t.peer_down(PeerDownData { peer_addr: peer_addr(*x), peer_asn: peer_asn(*x), peer_id: peer_id(*x), uptime: 1, reason: rustybgp_packet::bmp::PeerDownReason::RemoteUnexpected });
            }
            Op::Purge(x) => {
                let i = *x as usize;
                if !(sys.stale[i] && sys.up[i]) {
                    return false; // End-of-RIB of the new session
                }
                t.drop_stale_families(peer_addr(*x), &[F]);
                sys.stale[i] = false;
            }
            Op::TimerDrop(x) => {
                let i = *x as usize;
                if !(sys.stale[i] && !sys.up[i]) {
                    return false;
                }
                t.drop_families(peer_addr(*x), &[F]);
                sys.stale[i] = false;
            }
            Op::Attach => {
                if sys.st.is_some() || sys.n_attach >= 2 {
                    return false;
                }
                sys.n_attach += 1;
                match sys.rt.block_on(self.attach(&sys.global, &sys.tables)) {
                    Ok(s) => sys.st = Some(s),
                    Err(e) => {
                        machinery(format!("C18 bmp: {e}"));
                        sys.dead = true;
                        return false;
                    }
                }
            }
            Op::Detach => {
                let Some(st) = sys.st.take() else { return false };
                let tables = sys.tables.clone();
                let want = tables.bmp_senders().len().saturating_sub(1);
                let ok = sys.rt.block_on(async {
                    // the station goes away: the client's read ends, serve() unsubscribes and returns.
                    // (Cancelling first would race: try_connect's outer select may drop serve() before
                    // it reaches its unsubscribe - a leak outside the 20 properties, noted in DESIGN.)
                    let StationSide { station, cancel, .. } = st;
                    drop(station);
                    let mut ok = false;
                    for _ in 0..50000 {
                        if tables.bmp_senders().len() <= want {
                            ok = true;
                            break;
                        }
                        tokio::time::sleep(std::time::Duration::from_micros(200)).await;
                    }
                    cancel.cancel();
                    ok
                });
                if !ok {
                    machinery("C18 bmp: the BMP client did not unsubscribe after cancel".into());
                    sys.dead = true;
                    return false;
                }
            }
        }
        // observe
        let mut cur: Vec<(String, String)> = Vec::new();
        if let Some(st) = sys.st.as_mut() {
            let seq = sys.seq;
            match sys.rt.block_on(self.sync(&sys.tables, st, seq)) {
                Err(e) => {
                    machinery(format!("C18 bmp: {e}"));
                    sys.dead = true;
                    return false;
                }
                Ok(f) => cur.extend(f),
            }
            // what the RIB holds, per peer the station considers up; a peer whose routes are
            // retained as stale is compared again after the purge (as in the sequential model)
            let mut want = View::new();
            for shard in &sys.tables.shards {
                let g = shard.lock().unwrap();
                for r in g.rtable.iter_reach(F) {
                    want.insert((r.source.remote_addr, false, format!("{}", r.net.nlri)), attr_fp(&r.attr));
                }
                for r in g.rtable.iter_reach_post(F) {
                    want.insert((r.source.remote_addr, true, format!("{}", r.net.nlri)), attr_fp(&r.attr));
                }
            }
            // (an ending session's routes are gone from the RIB; the station learns it from the PeerDown still to come)
            let skip: BTreeSet<IpAddr> = (0..2u8).filter(|x| sys.stale[*x as usize] || sys.ending[*x as usize]).map(peer_addr).collect();
            let keep = |k: &(IpAddr, bool, String)| st.up.contains(&k.0) && !skip.contains(&k.0);
            let got: View = st.view.iter().filter(|(k, _)| keep(k)).map(|(k, v)| (k.clone(), v.clone())).collect();
            let want: View = want.into_iter().filter(|(k, _)| keep(k)).collect();
            if got != want {
                let kind = op_name(o).split('(').next().unwrap_or("").to_string();
                let class = if got.keys().any(|k| !want.contains_key(k)) {
                    "phantom"
                } else if want.keys().any(|k| !got.contains_key(k)) {
                    "missing"
                } else {
                    "outdated"
                };
                cur.push((format!("C18/bmp/station-view/{class}/{kind}"), format!("after {}: the station's Adj-RIB-In of the peers it holds as up is {:?}, the RIB holds {:?}", op_name(o), got.keys().collect::<Vec<_>>(), want.keys().collect::<Vec<_>>())));
            }
            // the station's idea of which sessions are up
            for x in 0..2u8 {
                if sys.ending[x as usize] {
                    continue; // between SessionDown and its PeerDown event
                }
                if sys.up[x as usize] != st.up.contains(&peer_addr(x)) {
                    cur.push((format!("C18/bmp/peer-state/{}", if sys.up[x as usize] { "up-not-reported" } else { "down-not-reported" }), format!("after {}: session of {} is {}, the station was told {}", op_name(o), peer_addr(x), if sys.up[x as usize] { "up" } else { "down" }, if st.up.contains(&peer_addr(x)) { "up" } else { "down / nothing" })));
                }
            }
        }
        let mut now = BTreeSet::new();
        for (sig, what) in cur {
            let clause: String = sig.split('/').take(4).collect::<Vec<_>>().join("/");
            if !sys.broken.contains(&clause) && !now.contains(&clause) {
                out.push((sig, what));
            }
            now.insert(clause);
        }
        sys.broken = now;
        if take_machinery().is_some() {
            sys.dead = true;
            return false;
        }
        true
    }

    fn fingerprint(&self, sys: &Sys) -> Vec<u8> {
        let mut rib: Vec<String> = Vec::new();
        for shard in &sys.tables.shards {
            let g = shard.lock().unwrap();
            for r in g.rtable.iter_reach(F) {
                rib.push(format!("{}:{}:{}:{}", r.source.remote_addr, r.net.nlri, r.source.is_stale(), attr_fp(&r.attr)));
            }
        }
        rib.sort();
        format!("{:?}|{:?}|{:?}|{:?}|{}|{:?}|{}", rib, (sys.up, sys.ending), sys.stale, sys.st.as_ref().map(|s| (&s.up, &s.view)), sys.n_attach, sys.broken, sys.dead).into_bytes()
    }

    fn observe(&self, sys: &Sys) -> u64 {
        sys.st.as_ref().map(|s| s.view.len() as u64 + 10 * s.up.len() as u64).unwrap_or(99)
    }

    fn panic_sig(&self, msg: &str) -> Option<(String, String)> {
        if msg.contains("/verif/") {
            machinery(format!("harness panic: {msg}"));
            None
        } else {
            Some((format!("C18/bmp/panic/{}", bfs::panic_loc(msg)), format!("the daemon panicked: {msg}")))
        }
    }
}

fn models() -> Vec<BmpModel> {
    let mut ops = vec![Op::Up(0), Op::Ann(0, 0, 0), Op::Ann(0, 1, 0), Op::Ann(0, 0, 1), Op::Wd(0, 0), Op::Drop(0), Op::DropBegin(0), Op::DropEnd(0), Op::GrDrop(0), Op::Purge(0), Op::TimerDrop(0)];
    ops.extend([Op::Up(1), Op::Ann(1, 0, 0), Op::Drop(1)]);
    ops.extend([Op::Attach, Op::Detach]);
    vec![BmpModel { name: "c18-bmp-station", ops: ops.clone(), attached_at_start: true }, BmpModel { name: "c18-bmp-late-station", ops, attached_at_start: false }]
}

pub(crate) fn run_into(rep: &mut Report, thorough: bool) {
    let depth = if thorough { 10 } else { 7 };
    for m in models() {
        let cfg = BfsCfg { max_depth: depth, max_secs: if thorough { 1200 } else { 25 }, ..Default::default() };
        bfs::bfs(&m, &cfg, rep);
        if let Some(e) = take_machinery() {
            rep.machinery_error = Some(e);
            return;
        }
    }
    rep.notes.push(format!("c18-bmp-station: BFS depth {depth} over session up / announce / withdraw / session down (plain, GR) / stale purge / restart-timer drop of two neighbours and attach / detach of a loopback BMP station served by the real BMP client; after every step the station's stream is folded: Peer Down only after Peer Up, and the station's per-peer Adj-RIB-In (pre and post policy) equals the RIB's for every peer it holds as up"));
    rep.notes.push("assume: the table side is driven through the calls PeerSession makes; PeerState.session_addrs / remote identity (read by the BMP client's initial Peer Up burst) are set and cleared as apply_outputs does".into());
}

pub(crate) fn replay(rep: &mut Report, case: &str) -> bool {
    let Some((name, hist)) = bfs::decode_case(case) else { return false };
    let Some(m) = models().into_iter().find(|m| m.name == name) else { return false };
    eprintln!("replay {}", bfs::render(&m, &hist));
    rep.violations_from(bfs::replay(&m, &hist, true));
    rep.machinery_error = take_machinery();
    true
}
