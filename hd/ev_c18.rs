// C18: a subscriber that takes a snapshot and then applies the live events
// ends with exactly the Adj-RIB-In held by the RIB — for every interleaving of
// the subscribe call with concurrent route updates.
//
// Stateless schedule exploration (vx::sched): real OS threads run the real
// TableManager methods; scheduling points are the cfg-guarded hooks before
// every shard lock and around every subscribers.load()/rcu() in
// table_manager.rs.  Iterative preemption bounding.

use super::super::*;
use super::common::*;
use crate::verif::vx::report::{Report, Violation};
use crate::verif::vx::sched;
use crate::table_manager::{PeerDownData, Subscription};
use std::collections::{BTreeMap, BTreeSet};
use std::net::{IpAddr, Ipv4Addr};

fn src(n: u8) -> Arc<table::Source> {
    Arc::new(table::Source::new(
        IpAddr::V4(Ipv4Addr::new(10, 8, 0, n)),
        IpAddr::V4(Ipv4Addr::new(10, 8, 0, 254)),
        65000 + n as u32,
        65000,
        Ipv4Addr::new(10, 8, 0, n),
        table::PeerRole::Ebgp,
    ))
}

fn v4net(k: u8) -> packet::Nlri {
    packet::Nlri::V4(packet::bgp::Ipv4Net { addr: Ipv4Addr::new(10, 20, k, 0), mask: 24 })
}

fn attrs(tag: u32) -> Arc<Vec<packet::Attribute>> {
    Arc::new(vec![
        packet::Attribute::new_with_value(packet::Attribute::ORIGIN, 0).unwrap(),
        packet::Attribute::empty_as_path(),
        packet::Attribute::new_with_value(packet::Attribute::MULTI_EXIT_DESC, tag).unwrap(),
    ])
}

fn nh() -> Option<bgp::Nexthop> {
    Some(bgp::Nexthop::V4(Ipv4Addr::new(10, 8, 0, 1)))
}

/// Two prefixes that land on shard 0 and one on shard 1 of a 2-shard manager.
fn pick_prefixes(tables: &TableManager) -> (Vec<u8>, Vec<u8>) {
    let mut s0 = Vec::new();
    let mut s1 = Vec::new();
    let probe = src(200);
    for k in 0..40u8 {
        tables.insert_route(probe.clone(), Family::IPV4, packet::PathNlri::new(v4net(k)), nh(), attrs(0), None, 0);
        let in0 = tables.shards[0].lock().unwrap().rtable.iter_reach(Family::IPV4).any(|r| r.net.nlri == v4net(k));
        tables.remove_route(probe.clone(), Family::IPV4, packet::PathNlri::new(v4net(k)), None, 0);
        if in0 {
            s0.push(k);
        } else {
            s1.push(k);
        }
    }
    (s0, s1)
}

type Key = (IpAddr, String, u32);

fn attr_fp(a: &Arc<Vec<packet::Attribute>>) -> String {
    crate::verif::vx::report::hex(&a.iter().flat_map(|x| x.encode_to_bytes()).collect::<Vec<u8>>())
}

struct Folded {
    pre: BTreeMap<Key, String>,
    post: BTreeMap<Key, String>,
    n_events: usize,
    trace: Vec<String>,
}

/// What a subscriber ends up with.  The events up to EndOfSnapshot are accumulated by the BMP
/// client's OWN snapshot code (bmp.rs apply_snapshot / flush_peer_snapshot, reached through the
/// in-crate hook crate::bmp::verif_bmp), the live events after it are applied one by one.
fn fold(rx: &mut mpsc::UnboundedReceiver<BgpEvent>) -> Folded {
    let mut f = Folded { pre: BTreeMap::new(), post: BTreeMap::new(), n_events: 0, trace: Vec::new() };
    let mut events: Vec<BgpEvent> = Vec::new();
    while let Ok(ev) = rx.try_recv() {
        f.n_events += 1;
        match &ev {
            BgpEvent::AdjRibIn(c) => {
                for n in &c.nlris {
                    f.trace.push(format!("pre:{}:{}:{}", c.source.remote_addr, n.nlri, if c.attrs.is_some() { "reach" } else { "withdraw" }));
                }
            }
            BgpEvent::AdjRibInPost(c) => {
                for n in &c.nlris {
                    f.trace.push(format!("post:{}:{}:{}", c.source.remote_addr, n.nlri, if c.attrs.is_some() { "reach" } else { "withdraw" }));
                }
            }
            BgpEvent::PeerDown(d) => f.trace.push(format!("peerdown:{}", d.peer_addr)),
            BgpEvent::EndOfSnapshot => f.trace.push("end-of-snapshot".into()),
            _ => {}
        }
        events.push(ev);
    }
    let had_snapshot = events.iter().any(|e| matches!(e, BgpEvent::EndOfSnapshot));
    let rest = if had_snapshot {
        let (pre, post, rest) = crate::bmp::verif_bmp::snapshot_views(&mut events);
        f.pre = pre.into_iter().map(|(k, v)| (k, crate::verif::vx::report::hex(&v))).collect();
        f.post = post.into_iter().map(|(k, v)| (k, crate::verif::vx::report::hex(&v))).collect();
        rest
    } else {
        events
    };
    for ev in rest {
        match ev {
            BgpEvent::AdjRibIn(c) => {
                for n in &c.nlris {
                    let k = (c.source.remote_addr, format!("{}", n.nlri), n.path_id);
                    match &c.attrs {
                        Some(a) => {
                            f.pre.insert(k, attr_fp(a));
                        }
                        None => {
                            f.pre.remove(&k);
                        }
                    }
                }
            }
            BgpEvent::AdjRibInPost(c) => {
                for n in &c.nlris {
                    let k = (c.source.remote_addr, format!("{}", n.nlri), n.path_id);
                    match &c.attrs {
                        Some(a) => {
                            f.post.insert(k, attr_fp(a));
                        }
                        None => {
                            f.post.remove(&k);
                        }
                    }
                }
            }
            BgpEvent::PeerDown(d) => {
                f.pre.retain(|k, _| k.0 != d.peer_addr);
                f.post.retain(|k, _| k.0 != d.peer_addr);
            }
            _ => {}
        }
    }
    f
}

/// The Adj-RIB-In the RIB holds: pre-policy from the entries with the attributes as received,
/// post-policy from the API's view of the table (every entry import policy accepted, whatever
/// next-hop tracking says about it) - NOT from iter_reach_post, which is what the snapshot
/// under test uses.
fn rib(tables: &TableManager) -> (BTreeMap<Key, String>, BTreeMap<Key, String>) {
    let mut pre = BTreeMap::new();
    let mut post = BTreeMap::new();
    for shard in &tables.shards {
        let t = shard.lock().unwrap();
        for r in t.rtable.iter_reach(Family::IPV4) {
            pre.insert((r.source.remote_addr, format!("{}", r.net.nlri), r.net.path_id), attr_fp(&r.attr));
        }
        for d in t.rtable.destinations(table::TableQuery::Global, Family::IPV4, vec![], true) {
            for p in &d.paths {
                if !p.filtered {
                    post.insert((p.source.remote_addr, format!("{}", d.net), p.remote_path_id), attr_fp(&p.attr));
                }
            }
        }
    }
    (pre, post)
}

fn reject_all_import() -> Arc<table::PolicyAssignment> {
    let mut pt = table::PolicyTable::new();
    pt.add_statement("s", Vec::new(), Some(table::Disposition::Reject), table::Actions::default()).unwrap();
    pt.add_policy("p", vec!["s".to_string()]).unwrap();
    pt.build_assignment(None, "global", table::PolicyDirection::Import, table::Disposition::Accept, vec!["p".to_string()]).unwrap()
}

fn set_med_import() -> Arc<table::PolicyAssignment> {
    let mut pt = table::PolicyTable::new();
    let actions = table::Actions { med: Some(table::MedAction { action_type: table::MedActionType::Replace, value: 50 }), ..Default::default() };
    pt.add_statement("s", Vec::new(), Some(table::Disposition::Accept), actions).unwrap();
    pt.add_policy("p", vec!["s".to_string()]).unwrap();
    pt.build_assignment(None, "global", table::PolicyDirection::Import, table::Disposition::Accept, vec!["p".to_string()]).unwrap()
}

struct Scenario {
    name: &'static str,
    /// builds (tables, thread bodies, slot that will hold the subscription)
    #[allow(clippy::type_complexity)]
    build: fn(&(Vec<u8>, Vec<u8>)) -> (Arc<TableManager>, Vec<Box<dyn FnOnce() + Send>>, Arc<std::sync::Mutex<Option<Subscription>>>),
}

fn subscriber(tables: &Arc<TableManager>, slot: &Arc<std::sync::Mutex<Option<Subscription>>>) -> Box<dyn FnOnce() + Send> {
    let (t, s) = (tables.clone(), slot.clone());
    Box::new(move || {
        let sub = t.subscribe(true);
        *s.lock().unwrap() = Some(sub);
    })
}

fn base(px: &(Vec<u8>, Vec<u8>)) -> (Arc<TableManager>, Arc<std::sync::Mutex<Option<Subscription>>>) {
    let tables = Arc::new(TableManager::new(2));
    // pre-existing routes on both shards
    tables.insert_route(src(1), Family::IPV4, packet::PathNlri::new(v4net(px.0[0])), nh(), attrs(1), None, 0);
    tables.insert_route(src(2), Family::IPV4, packet::PathNlri::new(v4net(px.1[0])), nh(), attrs(1), None, 0);
    (tables, Arc::new(std::sync::Mutex::new(None)))
}

fn scenarios() -> Vec<Scenario> {
    vec![
        Scenario {
            name: "sub||insert-remove-insert(same shard)",
            build: |px| {
                let (tables, slot) = base(px);
                let a = src(1);
                let (p1, p2) = (px.0[1], px.0[2]);
                let t = tables.clone();
                let w: Box<dyn FnOnce() + Send> = Box::new(move || {
                    t.insert_route(a.clone(), Family::IPV4, packet::PathNlri::new(v4net(p1)), nh(), attrs(2), None, 0);
                    t.remove_route(a.clone(), Family::IPV4, packet::PathNlri::new(v4net(p1)), None, 0);
                    t.insert_route(a.clone(), Family::IPV4, packet::PathNlri::new(v4net(p2)), nh(), attrs(3), None, 0);
                });
                let s = subscriber(&tables, &slot);
                (tables, vec![s, w], slot)
            },
        },
        Scenario {
            name: "sub||insert(shard0)||insert+peer-drop(shard1)",
            build: |px| {
                let (tables, slot) = base(px);
                let (a, b) = (src(1), src(2));
                let (p1, q1) = (px.0[1], px.1[1]);
                let t1 = tables.clone();
                let w1: Box<dyn FnOnce() + Send> = Box::new(move || {
                    t1.insert_route(a.clone(), Family::IPV4, packet::PathNlri::new(v4net(p1)), nh(), attrs(2), None, 0);
                });
                let t2 = tables.clone();
                let w2: Box<dyn FnOnce() + Send> = Box::new(move || {
                    t2.insert_route(b.clone(), Family::IPV4, packet::PathNlri::new(v4net(q1)), nh(), attrs(2), None, 0);
                    // what session_loop does when the session ends without GR
                    t2.unregister_peer(b.remote_addr, &[Family::IPV4], &[]);
                    t2.peer_down(PeerDownData { peer_addr: b.remote_addr, peer_asn: b.remote_asn, peer_id: b.router_id, uptime: 0, reason: rustybgp_packet::bmp::PeerDownReason::RemoteUnexpected });
                });
                let s = subscriber(&tables, &slot);
                (tables, vec![s, w1, w2], slot)
            },
        },
        Scenario {
            name: "sub||soft_reset_in(policy changed)",
            build: |px| {
                let (tables, slot) = base(px);
                // a second route of peer 1 on the other shard
                tables.insert_route(src(1), Family::IPV4, packet::PathNlri::new(v4net(px.1[2])), nh(), attrs(1), None, 0);
                tables.import_policy.store(Some(reject_all_import()));
                let t = tables.clone();
                let addr = src(1).remote_addr;
                let w: Box<dyn FnOnce() + Send> = Box::new(move || {
                    t.soft_reset_in(addr);
                });
                let s = subscriber(&tables, &slot);
                (tables, vec![s, w], slot)
            },
        },
        Scenario {
            name: "sub||stale-purge(both shards)||re-announce",
            build: |px| {
                let (tables, slot) = base(px);
                // peer 2 has a route on each shard, its session ended with GR: both are stale
                let b_old = src(2);
                tables.insert_route(b_old.clone(), Family::IPV4, packet::PathNlri::new(v4net(px.0[1])), nh(), attrs(1), None, 0);
                tables.unregister_peer(b_old.remote_addr, &[], &[Family::IPV4]);
                let b_new = src(2);
                let q0 = px.1[0];
                let t1 = tables.clone();
                let addr = b_old.remote_addr;
                let w1: Box<dyn FnOnce() + Send> = Box::new(move || {
                    // End-of-RIB of the new session: sweep what was not refreshed
                    t1.drop_stale_families(addr, &[Family::IPV4]);
                });
                let t2 = tables.clone();
                let w2: Box<dyn FnOnce() + Send> = Box::new(move || {
                    // the new session refreshes one of the two routes
                    t2.insert_route(b_new.clone(), Family::IPV4, packet::PathNlri::new(v4net(q0)), nh(), attrs(2), None, 0);
                });
                let s = subscriber(&tables, &slot);
                (tables, vec![s, w1, w2], slot)
            },
        },
        Scenario {
            name: "sub||restart-timer drop_families(both shards)",
            build: |px| {
                let (tables, slot) = base(px);
                let b_old = src(2);
                tables.insert_route(b_old.clone(), Family::IPV4, packet::PathNlri::new(v4net(px.0[1])), nh(), attrs(1), None, 0);
                tables.unregister_peer(b_old.remote_addr, &[], &[Family::IPV4]);
                let t1 = tables.clone();
                let addr = b_old.remote_addr;
                let w1: Box<dyn FnOnce() + Send> = Box::new(move || {
                    t1.drop_families(addr, &[Family::IPV4]);
                });
                let s = subscriber(&tables, &slot);
                (tables, vec![s, w1], slot)
            },
        },
        Scenario {
            name: "sub||llgr-start+llgr-purge(both shards)",
            build: |px| {
                let (tables, slot) = base(px);
                let b_old = src(2);
                tables.insert_route(b_old.clone(), Family::IPV4, packet::PathNlri::new(v4net(px.0[1])), nh(), attrs(1), None, 0);
                tables.unregister_peer(b_old.remote_addr, &[], &[Family::IPV4]);
                let t1 = tables.clone();
                let addr = b_old.remote_addr;
                let w1: Box<dyn FnOnce() + Send> = Box::new(move || {
                    t1.mark_llgr_stale(addr, &[Family::IPV4]);
                    t1.drop_llgr_stale_families(addr, &[Family::IPV4]);
                });
                let s = subscriber(&tables, &slot);
                (tables, vec![s, w1], slot)
            },
        },
        Scenario {
            name: "sub||soft_reset_in(policy changed)||insert(same peer, other shard)",
            build: |px| {
                let (tables, slot) = base(px);
                tables.import_policy.store(Some(reject_all_import()));
                let t = tables.clone();
                let a = src(1);
                let addr = a.remote_addr;
                let w1: Box<dyn FnOnce() + Send> = Box::new(move || {
                    t.soft_reset_in(addr);
                });
                let t2 = tables.clone();
                let q1 = px.1[1];
                let w2: Box<dyn FnOnce() + Send> = Box::new(move || {
                    t2.insert_route(a.clone(), Family::IPV4, packet::PathNlri::new(v4net(q1)), nh(), attrs(4), None, 0);
                });
                let s = subscriber(&tables, &slot);
                (tables, vec![s, w1, w2], slot)
            },
        },
        Scenario {
            name: "sub||sub2+unsubscribe2||insert(shard0)+insert(shard1)",
            build: |px| {
                let (tables, slot) = base(px);
                let a = src(1);
                let (p1, q1) = (px.0[1], px.1[1]);
                let t1 = tables.clone();
                let w1: Box<dyn FnOnce() + Send> = Box::new(move || {
                    t1.insert_route(a.clone(), Family::IPV4, packet::PathNlri::new(v4net(p1)), nh(), attrs(2), None, 0);
                    t1.insert_route(a.clone(), Family::IPV4, packet::PathNlri::new(v4net(q1)), nh(), attrs(2), None, 0);
                });
                // a second subscriber comes and goes: the copy-on-write list is rewritten twice
                let t2 = tables.clone();
                let w2: Box<dyn FnOnce() + Send> = Box::new(move || {
                    let s2 = t2.subscribe(false);
                    t2.unsubscribe(s2.id);
                });
                let s = subscriber(&tables, &slot);
                (tables, vec![s, w1, w2], slot)
            },
        },
        Scenario {
            name: "sub||replace(shard0)||remove(shard1)",
            build: |px| {
                let (tables, slot) = base(px);
                let (a, b) = (src(1), src(2));
                let (p0, q0) = (px.0[0], px.1[0]);
                let t1 = tables.clone();
                let w1: Box<dyn FnOnce() + Send> = Box::new(move || {
                    t1.insert_route(a.clone(), Family::IPV4, packet::PathNlri::new(v4net(p0)), nh(), attrs(9), None, 0);
                });
                let t2 = tables.clone();
                let w2: Box<dyn FnOnce() + Send> = Box::new(move || {
                    t2.remove_route(b.clone(), Family::IPV4, packet::PathNlri::new(v4net(q0)), None, 0);
                });
                let s = subscriber(&tables, &slot);
                (tables, vec![s, w1, w2], slot)
            },
        },
    ]
}

fn check_one(sc: &Scenario, px: &(Vec<u8>, Vec<u8>), prefix: &[usize]) -> Result<(sched::Execution, Vec<(String, String)>, String), String> {
    let (tables, bodies, slot) = (sc.build)(px);
    let x = sched::run_once(bodies, prefix)?;
    let mut out = Vec::new();
    let mut outcome = String::new();
    if x.deadlock {
        out.push(("C18/deadlock".to_string(), format!("{}: no enabled thread", sc.name)));
        return Ok((x, out, "deadlock".into()));
    }
    let mut guard = slot.lock().unwrap();
    let Some(sub) = guard.as_mut() else {
        return Err("subscriber thread did not store its subscription".into());
    };
    let f = fold(&mut sub.rx);
    let (pre, post) = rib(&tables);
    outcome = f.trace.join(",");
    let diff = |want: &BTreeMap<Key, String>, got: &BTreeMap<Key, String>| -> Option<(&'static str, String)> {
        for (k, v) in want {
            match got.get(k) {
                None => return Some(("missing", format!("{:?} is in the RIB but neither in the snapshot nor in the live stream", k))),
                Some(g) if g != v => return Some(("outdated", format!("{:?}: the last event delivered is not the current state", k))),
                _ => {}
            }
        }
        for k in got.keys() {
            if !want.contains_key(k) {
                return Some(("phantom", format!("{:?} is in the subscriber's view but not in the RIB", k)));
            }
        }
        None
    };
    if let Some((class, what)) = diff(&pre, &f.pre) {
        out.push((format!("C18/adj-rib-in-pre/{class}"), format!("{}: {what}; events: {}", sc.name, outcome)));
    }
    if let Some((class, what)) = diff(&post, &f.post) {
        out.push((format!("C18/adj-rib-in-post/{class}"), format!("{}: {what}; events: {}", sc.name, outcome)));
    }
    Ok((x, out, outcome))
}

// ---------------------------------------------------------------------------
// Sequential part: every subscribe / unsubscribe point in a history (explicit-state BFS).

#[derive(Clone, Debug)]
enum SOp {
    Insert { peer: u8, pfx: u8, attr: u32 },
    Remove { peer: u8, pfx: u8 },
    PeerDrop,
    /// session of B ends with GR helper mode: routes kept as stale, PeerDown reported
    GrDown,
    /// B's session comes back (new Source); stale routes stay until the purge
    Reconnect,
    /// End-of-RIB from B / restart timer with LLGR taking over other families: drop_stale_families
    PurgeStale,
    /// restart timer expired while B is still away: drop_families
    TimerDrop,
    /// LLGR period begins for B while it is away: mark_llgr_stale
    LlgrStart,
    /// LLGR timer expired / EOR after LLGR: drop_llgr_stale_families
    LlgrPurge,
    PolicyToggle,
    /// next-hop tracking reports the next hop of all routes unreachable / reachable again
    NhDown,
    NhUp,
    SoftResetIn,
    StartDeferral,
    EndDeferral,
    Subscribe,
    Unsubscribe,
}

struct SeqModel {
    ops: Vec<SOp>,
    px: (Vec<u8>, Vec<u8>),
    /// the import policy the toggle installs: false = reject everything, true = accept and overwrite the MED
    /// (the announcements differ in nothing but their MED)
    set_med: bool,
}

struct SeqSys {
    tables: Arc<TableManager>,
    sub: Option<Subscription>,
    pre: BTreeMap<Key, String>,
    post: BTreeMap<Key, String>,
    policy_on: bool,
    deferring: bool,
    ever_deferred: bool,
    b_gen: u8,
    /// B's session is established
    b_up: bool,
    /// B's routes were marked stale (GR) and not yet purged
    b_stale: bool,
    /// B's remaining routes are in the LLGR stale period
    b_llgr: bool,
    nh_down: bool,
    srcs: [Arc<table::Source>; 2],
    broken: BTreeSet<String>,
}

impl crate::verif::vx::bfs::Model for SeqModel {
    type Sys = SeqSys;
    fn name(&self) -> String {
        if self.set_med { "c18-sequential-setmed".into() } else { "c18-sequential".into() }
    }
    fn n_ops(&self) -> usize {
        self.ops.len()
    }
    fn op_name(&self, op: usize) -> String {
        match &self.ops[op] {
            SOp::Insert { peer, pfx, attr } => format!("insert({},{},attr{})", ["A", "B"][*peer as usize], ["P(shard0)", "Q(shard1)"][*pfx as usize], attr),
            SOp::Remove { peer, pfx } => format!("remove({},{})", ["A", "B"][*peer as usize], ["P(shard0)", "Q(shard1)"][*pfx as usize]),
            o => format!("{:?}", o),
        }
    }
    fn init(&self) -> SeqSys {
        SeqSys { tables: Arc::new(TableManager::new(2)), sub: None, pre: BTreeMap::new(), post: BTreeMap::new(), policy_on: false, deferring: false, ever_deferred: false, b_gen: 0, b_up: true, b_stale: false, b_llgr: false, nh_down: false, srcs: [src(1), src(2)], broken: BTreeSet::new() }
    }
    fn step(&self, sys: &mut SeqSys, op: usize, out: &mut Vec<(String, String)>) -> bool {
        let netk = |pfx: u8| if pfx == 0 { self.px.0[0] } else { self.px.1[0] };
        let name = self.op_name(op);
        match &self.ops[op] {
            SOp::Insert { peer, pfx, attr } => {
                if *peer == 1 && !sys.b_up {
                    return false;
                }
                sys.tables.insert_route(sys.srcs[*peer as usize].clone(), Family::IPV4, packet::PathNlri::new(v4net(netk(*pfx))), nh(), attrs(*attr), None, 0);
            }
            SOp::Remove { peer, pfx } => {
                if *peer == 1 && !sys.b_up {
                    return false;
                }
                sys.tables.remove_route(sys.srcs[*peer as usize].clone(), Family::IPV4, packet::PathNlri::new(v4net(netk(*pfx))), None, 0);
            }
            SOp::PeerDrop => {
                if sys.b_gen >= 2 || !sys.b_up || sys.b_stale || sys.b_llgr {
                    return false;
                }
                let b = sys.srcs[1].clone();
                sys.tables.unregister_peer(b.remote_addr, &[Family::IPV4], &[]);
                sys.tables.peer_down(PeerDownData { peer_addr: b.remote_addr, peer_asn: b.remote_asn, peer_id: b.router_id, uptime: 0, reason: rustybgp_packet::bmp::PeerDownReason::RemoteUnexpected });
                sys.b_gen += 1;
                sys.srcs[1] = src(2);
            }
            SOp::GrDown => {
                if sys.b_gen >= 2 || !sys.b_up || sys.b_stale || sys.b_llgr {
                    return false;
                }
                let b = sys.srcs[1].clone();
                // what session_loop does when the session ends and GR helper mode starts
                sys.tables.unregister_peer(b.remote_addr, &[], &[Family::IPV4]);
                sys.tables.peer_down(PeerDownData { peer_addr: b.remote_addr, peer_asn: b.remote_asn, peer_id: b.router_id, uptime: 0, reason: rustybgp_packet::bmp::PeerDownReason::RemoteUnexpected });
                sys.b_gen += 1;
                sys.b_up = false;
                sys.b_stale = true;
            }
            SOp::Reconnect => {
                if sys.b_up {
                    return false;
                }
                sys.srcs[1] = src(2);
                sys.b_up = true;
            }
            SOp::PurgeStale => {
                if !sys.b_stale {
                    return false;
                }
                sys.tables.drop_stale_families(sys.srcs[1].remote_addr, &[Family::IPV4]);
                sys.b_stale = false;
            }
            SOp::TimerDrop => {
                if !(sys.b_stale && !sys.b_up) {
                    return false;
                }
                sys.tables.drop_families(sys.srcs[1].remote_addr, &[Family::IPV4]);
                sys.b_stale = false;
            }
            SOp::LlgrStart => {
                if !(sys.b_stale && !sys.b_up) {
                    return false;
                }
                sys.tables.mark_llgr_stale(sys.srcs[1].remote_addr, &[Family::IPV4]);
                sys.b_stale = false;
                sys.b_llgr = true;
            }
            SOp::LlgrPurge => {
                if !sys.b_llgr {
                    return false;
                }
                sys.tables.drop_llgr_stale_families(sys.srcs[1].remote_addr, &[Family::IPV4]);
                sys.b_llgr = false;
            }
            SOp::PolicyToggle => {
                sys.policy_on = !sys.policy_on;
                sys.tables.import_policy.store(if sys.policy_on { Some(if self.set_med { set_med_import() } else { reject_all_import() }) } else { None });
            }
            SOp::NhDown => {
                if sys.nh_down {
                    return false;
                }
                sys.nh_down = true;
                sys.tables.update_nexthop_validity(nh().unwrap().addr(), false);
            }
            SOp::NhUp => {
                if !sys.nh_down {
                    return false;
                }
                sys.nh_down = false;
                sys.tables.update_nexthop_validity(nh().unwrap().addr(), true);
            }
            SOp::SoftResetIn => sys.tables.soft_reset_in(sys.srcs[0].remote_addr),
            SOp::StartDeferral => {
                if sys.deferring || sys.ever_deferred || sys.tables.table_state(Family::IPV4).num_destination != 0 {
                    return false;
                }
                sys.tables.start_deferral_families(&[Family::IPV4]);
                sys.deferring = true;
                sys.ever_deferred = true;
            }
            SOp::EndDeferral => {
                if !sys.deferring {
                    return false;
                }
                sys.tables.end_deferral_families(&[Family::IPV4]);
                sys.deferring = false;
            }
            SOp::Subscribe => {
                if sys.sub.is_some() {
                    return false;
                }
                sys.sub = Some(sys.tables.subscribe(true));
                sys.pre.clear();
                sys.post.clear();
            }
            SOp::Unsubscribe => {
                let Some(sub) = sys.sub.take() else { return false };
                sys.tables.unsubscribe(sub.id);
                sys.pre.clear();
                sys.post.clear();
            }
        }
        let mut cur = Vec::new();
        if let Some(sub) = sys.sub.as_mut() {
            let f = fold_into(&mut sub.rx, &mut sys.pre, &mut sys.post);
            let (mut pre, mut post) = rib(&sys.tables);
            let (mut vpre, mut vpost) = (sys.pre.clone(), sys.post.clone());
            if sys.b_stale || sys.b_llgr {
                // While B's routes are retained as stale the statement does not say whether a
                // subscriber that was told PeerDown should still list them: B's entries are
                // compared again once the stale routes have been purged and B is back.
                let b = sys.srcs[1].remote_addr;
                for m in [&mut pre, &mut post, &mut vpre, &mut vpost] {
                    m.retain(|k, _| k.0 != b);
                }
            }
            let kind = name.split('(').next().unwrap_or("").to_string();
            let sys_pre = &vpre;
            let sys_post = &vpost;
            if pre != *sys_pre {
                cur.push((format!("C18/seq/adj-rib-in-pre/{kind}"), format!("after {name}: the subscriber's pre-policy view {:?} differs from the RIB's {:?}; events of this step: {}", sys.pre.keys().collect::<Vec<_>>(), pre.keys().collect::<Vec<_>>(), f.join(","))));
            }
            if post != *sys_post {
                cur.push((format!("C18/seq/adj-rib-in-post/{kind}"), format!("after {name}: the subscriber's post-policy view {:?} differs from the RIB's {:?}; events of this step: {}", sys.post.keys().collect::<Vec<_>>(), post.keys().collect::<Vec<_>>(), f.join(","))));
            }
        }
        // the subscriber list holds exactly the live subscriptions (a leaked sender is fed every event for ever)
        let want_subs = sys.sub.is_some() as usize;
        let got_subs = sys.tables.bmp_senders().len();
        if got_subs != want_subs {
            cur.push((format!("C18/seq/subscriber-list/{}", if got_subs > want_subs { "leaked" } else { "lost" }), format!("after {name}: {got_subs} senders are registered, {want_subs} subscription(s) are alive")));
        }
        let mut now = BTreeSet::new();
        for (sig, what) in cur {
            let clause = sig.split('/').nth(2).unwrap_or("").to_string();
            if !sys.broken.contains(&clause) && !now.contains(&clause) {
                out.push((sig, what));
            }
            now.insert(clause);
        }
        sys.broken = now;
        true
    }
    fn observe(&self, sys: &SeqSys) -> u64 {
        (sys.pre.len() as u64) * 100 + (sys.post.len() as u64) * 10 + sys.sub.is_some() as u64
    }
    fn fingerprint(&self, sys: &SeqSys) -> Vec<u8> {
        let (pre, post) = rib(&sys.tables);
        let filtered: Vec<String> = sys.tables.collect_paths(table::TableQuery::Global, Family::IPV4, vec![], true).iter().map(|d| format!("{}:{:?}", d.net, d.paths.iter().map(|p| (p.source.remote_addr, p.filtered)).collect::<Vec<_>>())).collect();
        format!("{:?}|{:?}|{:?}|{}|{:?}|{:?}|{}|{}|{}|{:?}|{:?}", pre, post, filtered, sys.sub.is_some(), sys.pre, sys.post, sys.policy_on, sys.deferring, sys.ever_deferred, (sys.b_gen, sys.b_up, sys.b_stale, sys.b_llgr, sys.nh_down, stale_fp(&sys.tables), sys.tables.bmp_senders().len()), sys.broken).into_bytes()
    }
}

/// which (peer, prefix) paths are GR-stale / LLGR-stale (behaviour-relevant: purges act on them)
fn stale_fp(tables: &TableManager) -> Vec<String> {
    let mut v = Vec::new();
    for shard in &tables.shards {
        let t = shard.lock().unwrap();
        for r in t.rtable.iter_reach(Family::IPV4) {
            v.push(format!("{}:{}:{}:{}", r.source.remote_addr, r.net.nlri, r.source.is_stale(), r.source.is_llgr_stale()));
        }
    }
    v.sort();
    v
}

/// fold the events currently queued into persistent views; returns a trace of this batch
fn fold_into(rx: &mut mpsc::UnboundedReceiver<BgpEvent>, pre: &mut BTreeMap<Key, String>, post: &mut BTreeMap<Key, String>) -> Vec<String> {
    let mut trace = Vec::new();
    while let Ok(ev) = rx.try_recv() {
        match ev {
            BgpEvent::AdjRibIn(c) => {
                for n in &c.nlris {
                    let k = (c.source.remote_addr, format!("{}", n.nlri), n.path_id);
                    trace.push(format!("pre:{}:{}:{}", c.source.remote_addr, n.nlri, if c.attrs.is_some() { "reach" } else { "withdraw" }));
                    match &c.attrs {
                        Some(a) => {
                            pre.insert(k, attr_fp(a));
                        }
                        None => {
                            pre.remove(&k);
                        }
                    }
                }
            }
            BgpEvent::AdjRibInPost(c) => {
                for n in &c.nlris {
                    let k = (c.source.remote_addr, format!("{}", n.nlri), n.path_id);
                    trace.push(format!("post:{}:{}:{}", c.source.remote_addr, n.nlri, if c.attrs.is_some() { "reach" } else { "withdraw" }));
                    match &c.attrs {
                        Some(a) => {
                            post.insert(k, attr_fp(a));
                        }
                        None => {
                            post.remove(&k);
                        }
                    }
                }
            }
            BgpEvent::PeerDown(d) => {
                trace.push(format!("peerdown:{}", d.peer_addr));
                pre.retain(|k, _| k.0 != d.peer_addr);
                post.retain(|k, _| k.0 != d.peer_addr);
            }
            _ => {}
        }
    }
    trace
}

fn seq_model(px: &(Vec<u8>, Vec<u8>), set_med: bool) -> SeqModel {
    let mut ops = Vec::new();
    for peer in 0..2u8 {
        for pfx in 0..2u8 {
            if peer == 1 && pfx == 0 {
                continue;
            }
            ops.push(SOp::Insert { peer, pfx, attr: 1 });
            ops.push(SOp::Remove { peer, pfx });
        }
    }
    ops.push(SOp::Insert { peer: 0, pfx: 0, attr: 2 });
    ops.extend([SOp::GrDown, SOp::Reconnect, SOp::PurgeStale, SOp::TimerDrop, SOp::LlgrStart, SOp::LlgrPurge]);
    ops.extend([SOp::NhDown, SOp::NhUp]);
    ops.extend([SOp::PeerDrop, SOp::PolicyToggle, SOp::SoftResetIn, SOp::StartDeferral, SOp::EndDeferral, SOp::Subscribe, SOp::Unsubscribe]);
    if set_med {
        // the focused variant: re-announcements under an attribute-rewriting policy
        ops = vec![SOp::Insert { peer: 0, pfx: 0, attr: 1 }, SOp::Insert { peer: 0, pfx: 0, attr: 2 }, SOp::Remove { peer: 0, pfx: 0 }, SOp::Insert { peer: 1, pfx: 0, attr: 1 }, SOp::PolicyToggle, SOp::SoftResetIn, SOp::Subscribe, SOp::Unsubscribe];
    }
    SeqModel { ops, px: px.clone(), set_med }
}

fn sched_str(x: &sched::Execution) -> String {
    x.points.iter().map(|(en, c, l)| format!("T{}@{}", en[*c], l[*c])).collect::<Vec<_>>().join(" ")
}

pub(crate) fn run(replay: Option<&str>) -> Report {
    let mut rep = Report::new("C18", "hd-c18");
    let probe = TableManager::new(2);
    let px = pick_prefixes(&probe);
    if px.0.len() < 3 || px.1.len() < 3 {
        rep.machinery_error = Some("could not find prefixes for both shards".into());
        return rep;
    }
    let scs = scenarios();
    if let Some(case) = replay {
        if case.starts_with("c18-bmp-") {
            if !super::c18bmp::replay(&mut rep, case) {
                rep.machinery_error = Some("bad replay case".into());
            }
            rep.evaluations = 1;
            return rep;
        }
        if case.starts_with("c18-sequential#") || case.starts_with("c18-sequential-setmed#") {
            let m = seq_model(&px, case.starts_with("c18-sequential-setmed#"));
            if let Some((_, hist)) = crate::verif::vx::bfs::decode_case(case) {
                eprintln!("replay {}", crate::verif::vx::bfs::render(&m, &hist));
                rep.violations_from(crate::verif::vx::bfs::replay(&m, &hist, true));
            }
            rep.evaluations = 1;
            return rep;
        }
        // "scenario-index#choice,choice,..."
        let mut it = case.splitn(3, '#');
        let si: usize = it.next().and_then(|s| s.parse().ok()).unwrap_or(0);
        let prefix: Vec<usize> = it.next().unwrap_or("").split(',').filter_map(|s| s.parse().ok()).collect();
        match check_one(&scs[si.min(scs.len() - 1)], &px, &prefix) {
            Ok((x, out, outcome)) => {
                eprintln!("replay schedule: {}\n  events: {}", sched_str(&x), outcome);
                for (sig, what) in out {
                    rep.violation(Violation { sig, what, case: case.to_string() });
                }
            }
            Err(e) => rep.machinery_error = Some(e),
        }
        rep.evaluations = 1;
        return rep;
    }
    let thorough = rep.thorough();
    let bound = if thorough { 64 } else { 3 };
    let cap: u64 = if thorough { 3_000_000 } else { 60_000 };
    rep.rule = format!("stateless exploration of ALL schedules with <= {bound} preemptions (iterative bounding 0..{bound}) of real OS threads running real TableManager methods under a baton scheduler; scheduling points = hooks before every shard lock and around every subscribers.load()/rcu(); {} scenarios (subscribe(snapshot) vs insert/remove/replace on same and other shard, peer drop + PeerDown, soft_reset_in under a changed import policy alone and against an insert, GR stale purge against a re-announcement, restart-timer drop, LLGR start + purge, a second subscriber coming and going); oracle after every execution: fold(snapshot + live events) == Adj-RIB-In pre/post policy of all shards; non-trivial = distinct delivered event sequence", scs.len());
    rep.notes.push("assume: std::sync::Mutex, arc-swap and tokio unbounded channels are linearizable at hook granularity; weak-memory effects are not explored".into());
    rep.notes.push("assume: 'peer-down only after peer-up' is not asserted at the TableManager level (the initial PeerUp burst is produced by the BMP client from Global.peers, not by the subscription)".into());
    let mut outcomes: BTreeSet<String> = BTreeSet::new();
    let budget_s: u64 = std::env::var("VERIF_C18_SECS").ok().and_then(|s| s.parse().ok()).unwrap_or(if thorough { 2400 } else { 48 });
    let n_sc = scs.len() as u64;
    let workers = crate::verif::vx::bfs::workers();
    for (si, sc) in scs.iter().enumerate() {
        let t_sc = std::time::Instant::now();
        let deadline = t_sc + std::time::Duration::from_secs((budget_s / n_sc).max(1));
        let mut total = 0u64;
        let mut nviol = 0u64;
        let mut completed_bound: i64 = -1;
        let mut timed_out = false;
        // one execution under the baton scheduler; a failing schedule is believed only if
        // re-executing exactly the same choices fails identically
        type R = (Vec<(String, String)>, String, String);
        let run = |prefix: &[usize]| -> Result<(sched::Execution, R), String> {
            let (x, out, outcome) = check_one(sc, &px, prefix)?;
            if !out.is_empty() {
                let choices: Vec<usize> = x.points.iter().map(|(_, c, _)| *c).collect();
                let (_, out2, outcome2) = check_one(sc, &px, &choices)?;
                if outcome2 != outcome || out2.len() != out.len() {
                    return Err(format!("schedule replay was not deterministic for {}", sc.name));
                }
            }
            let ss = sched_str(&x);
            Ok((x, (out, outcome, ss)))
        };
        // iterative preemption bounding: level b explores exactly the schedules with b
        // preemptions (work list = alternatives deferred by level b-1)
        let mut work: Vec<Vec<usize>> = vec![vec![]];
        for b in 0..=bound {
            let lvl = sched::explore_level::<R>(&run, std::mem::take(&mut work), b, workers, deadline, cap.saturating_sub(total));
            if let Some(e) = lvl.error {
                rep.machinery_error = Some(e);
                return rep;
            }
            for (choices, (out, outcome, ss)) in lvl.runs {
                total += 1;
                rep.add("schedules_explored", 1);
                rep.add("schedule_decision_points", choices.len() as u64);
                outcomes.insert(format!("{si}:{outcome}"));
                rep.sample(total, || format!("{} :: {} :: events {}", sc.name, ss, outcome));
                if !out.is_empty() {
                    nviol += 1;
                    for (sig, what) in out {
                        rep.violation(Violation { sig, what: format!("{what}; schedule: {ss}"), case: format!("{si}#{}#{}", choices.iter().map(|c| c.to_string()).collect::<Vec<_>>().join(","), sc.name) });
                    }
                }
            }
            if lvl.unexplored > 0 {
                timed_out = true;
                break;
            }
            completed_bound = b as i64;
            work = lvl.deferred;
            if work.is_empty() {
                // no schedule with more preemptions exists: every interleaving was explored
                completed_bound = bound as i64;
                rep.notes.push(format!("{}: no schedule needs more than {b} preemptions: ALL interleavings at hook granularity explored", sc.name));
                break;
            }
        }
        if timed_out {
            rep.caps_hit.push(format!("{}: time/execution cap hit; all schedules with <= {} preemptions were completed", sc.name, completed_bound));
            rep.exhaustive = false;
        }
        rep.evaluations += total;
        rep.notes.push(format!("{}: {} distinct schedules explored by {} parallel explorers in {:.1}s, preemption bound completed: {} (target {}), {} violating", sc.name, total, workers, t_sc.elapsed().as_secs_f64(), completed_bound, bound, nviol));
    }
    rep.distinct_nontrivial = outcomes.len() as u64;
    rep.add("distinct_event_sequences", outcomes.len() as u64);
    // sequential part: every subscribe / unsubscribe point in a history
    let before = rep.states;
    let m = seq_model(&px, false);
    let depth = if thorough { 10 } else { 6 };
    crate::verif::vx::bfs::bfs(&m, &crate::verif::vx::bfs::BfsCfg { max_depth: depth, max_secs: if thorough { 600 } else { 20 }, ..Default::default() }, &mut rep);
    crate::verif::vx::bfs::bfs(&seq_model(&px, true), &crate::verif::vx::bfs::BfsCfg { max_depth: depth + 1, max_secs: if thorough { 300 } else { 20 }, ..Default::default() }, &mut rep);
    rep.notes.push(format!("c18-sequential: BFS depth {depth} over insert (accepted / rejected by import policy) / remove / peer drop / GR drop / reconnect / stale purge / timer drop / LLGR start / LLGR purge / soft_reset_in / policy toggle / deferral / subscribe(snapshot) / unsubscribe: {} states; the subscriber's folded view is compared with the RIB after every step", rep.states - before));
    super::c18bmp::run_into(&mut rep, thorough);
    rep
}
