// C01, schedule part: a neighbour's session comes up (register_peer: per shard, initial
// dump + registration of its change channel) WHILE other sessions change the RIB.
// Stateless exploration of the interleavings of real OS threads under the baton scheduler
// (hooks before every shard lock).  After every complete execution
//     fold(initial dump, then the NlriChange events received on the channel)
// must equal the Loc-RIB of all shards: a change that lands between the dump of a shard and
// the registration of the channel with that shard is lost for good.

use super::super::*;
use super::common::*;
use crate::verif::vx::report::{Report, Violation};
use crate::verif::vx::sched;
use std::collections::{BTreeMap, BTreeSet};
use std::net::{IpAddr, Ipv4Addr};

const F: Family = Family::IPV4;
const OBS: IpAddr = IpAddr::V4(Ipv4Addr::new(127, 0, 1, 1));

fn src(n: u8) -> Arc<table::Source> {
    Arc::new(table::Source::new(IpAddr::V4(Ipv4Addr::new(10, 1, 0, n)), IpAddr::V4(Ipv4Addr::new(10, 1, 0, 254)), 65010 + n as u32, 65000, Ipv4Addr::new(10, 1, 0, n), table::PeerRole::Ebgp))
}
fn net(k: u8) -> packet::Nlri {
    packet::Nlri::V4(packet::bgp::Ipv4Net { addr: Ipv4Addr::new(10, 71, k, 0), mask: 24 })
}
fn attrs(tag: u32) -> Arc<Vec<packet::Attribute>> {
    Arc::new(vec![
        packet::Attribute::new_with_value(packet::Attribute::ORIGIN, 0).unwrap(),
        packet::Attribute::new_with_bin(packet::Attribute::AS_PATH, vec![2, 1, 0, 0, 0xfd, 0xf2]).unwrap(),
        packet::Attribute::new_with_value(packet::Attribute::MULTI_EXIT_DESC, tag).unwrap(),
    ])
}
fn nh() -> Option<bgp::Nexthop> {
    Some(bgp::Nexthop::V4(Ipv4Addr::new(192, 0, 2, 1)))
}

/// prefixes of shard 0 and of shard 1 under the real dealer
fn pick(tables: &TableManager) -> (Vec<u8>, Vec<u8>) {
    let (mut s0, mut s1) = (Vec::new(), Vec::new());
    for k in 0..60u8 {
        let probe = TableManager::new(2);
        probe.insert_route(src(1), F, packet::PathNlri::new(net(k)), nh(), attrs(1), None, 0);
        let in0 = probe.shards[0].lock().unwrap().rtable.iter_reach(F).count() > 0;
        if in0 { s0.push(k) } else { s1.push(k) }
        if s0.len() >= 3 && s1.len() >= 3 {
            break;
        }
    }
    let _ = tables;
    (s0, s1)
}

type View = BTreeMap<String, String>;

fn best_fp(c: &table::NlriChange) -> Option<String> {
    c.new_best().map(|p| format!("{}:{}", p.source.remote_addr, crate::verif::vx::report::hex(&p.attr.iter().flat_map(|a| a.encode_to_bytes()).collect::<Vec<u8>>())))
}

struct Slot {
    dump: Vec<table::NlriChange>,
    rx: Option<mpsc::UnboundedReceiver<ToPeerEvent>>,
}

struct Scenario {
    name: &'static str,
    #[allow(clippy::type_complexity)]
    build: fn(&(Vec<u8>, Vec<u8>)) -> (Arc<TableManager>, Vec<Box<dyn FnOnce() + Send>>, Arc<std::sync::Mutex<Slot>>),
}

fn base(px: &(Vec<u8>, Vec<u8>)) -> (Arc<TableManager>, Arc<std::sync::Mutex<Slot>>) {
    let tables = Arc::new(TableManager::new(2));
    tables.insert_route(src(1), F, packet::PathNlri::new(net(px.0[0])), nh(), attrs(1), None, 0);
    tables.insert_route(src(1), F, packet::PathNlri::new(net(px.1[0])), nh(), attrs(1), None, 0);
    (tables, Arc::new(std::sync::Mutex::new(Slot { dump: Vec::new(), rx: None })))
}

fn session(tables: &Arc<TableManager>, slot: &Arc<std::sync::Mutex<Slot>>) -> Box<dyn FnOnce() + Send> {
    let (t, s) = (tables.clone(), slot.clone());
    Box::new(move || {
        let mut dump = Vec::new();
        // what on_established does: per shard, under its lock, the initial dump ...
        let rx = t.register_peer(OBS, FnvHashSet::default(), |rtable| dump.extend(rtable.collect_loc_rib_paths(&F)));
        let mut g = s.lock().unwrap();
        g.dump = dump;
        g.rx = Some(rx);
    })
}

fn scenarios() -> Vec<Scenario> {
    vec![
        Scenario {
            name: "session-up||withdraw(shard0)||announce(shard1)",
            build: |px| {
                let (tables, slot) = base(px);
                let (p0, q1) = (px.0[0], px.1[1]);
                let t1 = tables.clone();
                let w1: Box<dyn FnOnce() + Send> = Box::new(move || {
                    t1.remove_route(src(1), F, packet::PathNlri::new(net(p0)), None, 0);
                });
                let t2 = tables.clone();
                let w2: Box<dyn FnOnce() + Send> = Box::new(move || {
                    t2.insert_route(src(1), F, packet::PathNlri::new(net(q1)), nh(), attrs(2), None, 0);
                });
                (tables.clone(), vec![session(&tables, &slot), w1, w2], slot)
            },
        },
        Scenario {
            name: "session-up||replace(shard0)+withdraw(shard1)",
            build: |px| {
                let (tables, slot) = base(px);
                let (p0, q0) = (px.0[0], px.1[0]);
                let t1 = tables.clone();
                let w1: Box<dyn FnOnce() + Send> = Box::new(move || {
                    t1.insert_route(src(1), F, packet::PathNlri::new(net(p0)), nh(), attrs(9), None, 0);
                    t1.remove_route(src(1), F, packet::PathNlri::new(net(q0)), None, 0);
                });
                (tables.clone(), vec![session(&tables, &slot), w1], slot)
            },
        },
        Scenario {
            name: "session-up||peer-drop(both shards)",
            build: |px| {
                let (tables, slot) = base(px);
                let t1 = tables.clone();
                let w1: Box<dyn FnOnce() + Send> = Box::new(move || {
                    t1.unregister_peer(src(1).remote_addr, &[F], &[]);
                });
                (tables.clone(), vec![session(&tables, &slot), w1], slot)
            },
        },
    ]
}

fn check_one(sc: &Scenario, px: &(Vec<u8>, Vec<u8>), prefix: &[usize]) -> Result<(sched::Execution, Vec<(String, String)>, String), String> {
    let (tables, bodies, slot) = (sc.build)(px);
    let x = sched::run_once(bodies, prefix)?;
    let mut out = Vec::new();
    if x.deadlock {
        out.push(("C01/sched/deadlock".to_string(), format!("{}: no enabled thread", sc.name)));
        return Ok((x, out, "deadlock".into()));
    }
    let mut g = slot.lock().unwrap();
    let Some(mut rx) = g.rx.take() else { return Err("the session thread did not store its channel".into()) };
    let mut view = View::new();
    let mut trace = Vec::new();
    for c in &g.dump {
        if let Some(b) = best_fp(c) {
            view.insert(format!("{}", c.net), b);
            trace.push(format!("dump:{}", c.net));
        }
    }
    while let Ok(ev) = rx.try_recv() {
        if let ToPeerEvent::NlriChange(c) = ev {
            if !c.best_changed {
                continue;
            }
            match best_fp(&c) {
                Some(b) => {
                    trace.push(format!("reach:{}", c.net));
                    view.insert(format!("{}", c.net), b);
                }
                None => {
                    trace.push(format!("withdraw:{}", c.net));
                    view.remove(&format!("{}", c.net));
                }
            }
        }
    }
    let mut want = View::new();
    for c in tables.collect_loc_rib_paths(F) {
        if let Some(b) = best_fp(&c) {
            want.insert(format!("{}", c.net), b);
        }
    }
    let outcome = trace.join(",");
    if view != want {
        let class = if view.keys().any(|k| !want.contains_key(k)) {
            "withdrawal-lost"
        } else if want.keys().any(|k| !view.contains_key(k)) {
            "announcement-lost"
        } else {
            "outdated"
        };
        out.push((
            format!("C01/sched/session-up-race/{class}"),
            format!("{}: initial dump + delivered changes leave the new session with {:?}, the Loc-RIB holds {:?}; events: {}", sc.name, view.keys().collect::<Vec<_>>(), want.keys().collect::<Vec<_>>(), outcome),
        ));
    }
    Ok((x, out, outcome))
}

fn sched_str(x: &sched::Execution) -> String {
    x.points.iter().map(|(en, c, l)| format!("T{}@{}", en[*c], l[*c])).collect::<Vec<_>>().join(" ")
}

pub(crate) fn replay(rep: &mut Report, case: &str) -> bool {
    let Some(rest) = case.strip_prefix("sched#") else { return false };
    let probe = TableManager::new(2);
    let px = pick(&probe);
    let scs = scenarios();
    let mut it = rest.splitn(3, '#');
    let si: usize = it.next().and_then(|s| s.parse().ok()).unwrap_or(0);
    let prefix: Vec<usize> = it.next().unwrap_or("").split(',').filter_map(|s| s.parse().ok()).collect();
    match check_one(&scs[si.min(scs.len() - 1)], &px, &prefix) {
        Ok((x, out, outcome)) => {
            eprintln!("replay schedule: {}\n  events: {}", sched_str(&x), outcome);
            for (sig, what) in out {
                rep.violation(Violation { sig, what, case: case.to_string() });
            }
        }
        Err(e) => rep.machinery_error = Some(e),
    }
    true
}

pub(crate) fn run_into(rep: &mut Report, thorough: bool) {
    let probe = TableManager::new(2);
    let px = pick(&probe);
    if px.0.len() < 2 || px.1.len() < 2 {
        rep.machinery_error = Some("c01 sched: could not find prefixes for both shards".into());
        return;
    }
    let bound = if thorough { 64 } else { 3 };
    let workers = crate::verif::vx::bfs::workers();
    let deadline = std::time::Instant::now() + std::time::Duration::from_secs(if thorough { 900 } else { 30 });
    for (si, sc) in scenarios().iter().enumerate() {
        type R = (Vec<(String, String)>, String, String);
        let run = |prefix: &[usize]| -> Result<(sched::Execution, R), String> {
            let (x, out, outcome) = check_one(sc, &px, prefix)?;
            if !out.is_empty() {
                let choices: Vec<usize> = x.points.iter().map(|(_, c, _)| *c).collect();
                let (_, out2, outcome2) = check_one(sc, &px, &choices)?;
                if outcome2 != outcome || out2.len() != out.len() {
                    return Err(format!("schedule replay was not deterministic for {}", sc.name));
                }
            }
            let ss = sched_str(&x);
            Ok((x, (out, outcome, ss)))
        };
        let mut work: Vec<Vec<usize>> = vec![vec![]];
        let (mut total, mut nviol, mut completed, mut all) = (0u64, 0u64, -1i64, false);
        let mut outcomes: BTreeSet<String> = BTreeSet::new();
        for b in 0..=bound {
            let lvl = sched::explore_level::<R>(&run, std::mem::take(&mut work), b, workers, deadline, 2_000_000);
            if let Some(e) = lvl.error {
                rep.machinery_error = Some(e);
                return;
            }
            for (choices, (out, outcome, ss)) in lvl.runs {
                total += 1;
                outcomes.insert(outcome.clone());
                rep.add("schedules_explored", 1);
                rep.add("schedule_decision_points", choices.len() as u64);
                if !out.is_empty() {
                    nviol += 1;
                    for (sig, what) in out {
                        rep.violation(Violation { sig, what: format!("{what}; schedule: {ss}"), case: format!("sched#{si}#{}#{}", choices.iter().map(|c| c.to_string()).collect::<Vec<_>>().join(","), sc.name) });
                    }
                }
            }
            if lvl.unexplored > 0 {
                rep.caps_hit.push(format!("c01-sched {}: time cap hit; all schedules with <= {} preemptions were completed", sc.name, completed));
                rep.exhaustive = false;
                break;
            }
            completed = b as i64;
            work = lvl.deferred;
            if work.is_empty() {
                all = true;
                break;
            }
        }
        rep.evaluations += total;
        rep.notes.push(format!("c01-sched {}: {} schedules, {} distinct delivered event sequences, {}, {} violating", sc.name, total, outcomes.len(), if all { "ALL interleavings at hook granularity".to_string() } else { format!("preemption bound {completed} completed") }, nviol));
    }
}
