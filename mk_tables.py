#!/usr/bin/env python3
"""Regenerates the generated tables of DESIGN.md (between the GENERATED markers)
from known_findings.jsonl, seeded/*/meta.json and evidence/*.json."""
import json, glob, os, re, subprocess

ROOT = os.path.dirname(os.path.abspath(__file__))
BEGIN = "<!-- BEGIN GENERATED TABLES (mk_tables.py) -->"
END = "<!-- END GENERATED TABLES -->"


def esc(s):
    return s.replace("|", "\\|").replace("\n", " ")


def short(s, n):
    s = " ".join(s.split())
    return s if len(s) <= n else s[: n - 1] + "…"


def findings():
    fixed, known = [], []
    for line in open(os.path.join(ROOT, "known_findings.jsonl")):
        line = line.strip()
        if not line or line.startswith("#"):
            continue
        if line.startswith("fixed:"):
            m = re.match(r"fixed:\s+property=(\S+)\s+(\S+)\s+(.*)", line)
            if m:
                fixed.append(m.groups())
        else:
            try:
                known.append(json.loads(line))
            except Exception:
                pass
    out = []
    out.append(f"#### Repaired defects ({len(fixed)} `fix:` commits in /repo)\n")
    out.append("| property | commit | what failed (witness) |")
    out.append("|---|---|---|")
    for p, c, w in sorted(fixed, key=lambda x: x[0]):
        out.append(f"| {p} | `{c}` | {esc(short(w, 330))} |")
    out.append("")
    out.append(f"#### Known findings ({len(known)} signatures, reported as `KNOWN-FINDING`, exit 0)\n")
    out.append("| property | signature | what fails | why not repaired |")
    out.append("|---|---|---|---|")
    for k in sorted(known, key=lambda x: (x["property"], x["signature"])):
        out.append(
            f"| {k['property']} | `{k['signature']}` | {esc(short(k.get('what', ''), 300))} | {esc(short(k.get('why_not_fixed', ''), 260))} |"
        )
    out.append("")
    return out


def seeds():
    out = []
    metas = []
    for f in sorted(glob.glob(os.path.join(ROOT, "seeded", "*", "meta.json"))):
        try:
            metas.append(json.load(open(f)))
        except Exception:
            pass
    out.append(f"#### Seeded changes ({len(metas)}; written by sub-agents that saw only the property text)\n")
    out.append("| seed | property | needs, to manifest | caught by | check changed because of it |")
    out.append("|---|---|---|---|---|")
    for m in metas:
        out.append(
            f"| {m['id']} | {m['property']} | {esc(short(m.get('needs_to_manifest', ''), 260))} | {esc(short(m.get('detection', {}).get('caught_by', ''), 300))} | {esc(short(m.get('strengthened', '—'), 260))} |"
        )
    out.append("")
    return out


def evidence():
    out = []
    out.append("#### Coverage of the last run of each check (from `evidence/*.json`; rewritten on every run)\n")
    out.append("| property | tier | level | states | transitions | evaluations | distinct non-trivial | traces replayed on impl | max depth | exhaustive within bounds | caps hit | wall s |")
    out.append("|---|---|---|---|---|---|---|---|---|---|---|---|")
    for f in sorted(glob.glob(os.path.join(ROOT, "evidence", "C*.json"))):
        try:
            e = json.load(open(f))
        except Exception:
            continue
        c = e.get("coverage", {})
        out.append(
            f"| {e.get('property_id')} | {e.get('tier')} | {e.get('level')} | {c.get('states', '')} | {c.get('transitions', '')} | {c.get('evaluations', '')} | {c.get('distinct_nontrivial', '')} | {c.get('traces_validated_against_impl', '')} | {c.get('max_depth', '')} | {c.get('exhaustive', '')} | {len(c.get('caps_hit', []))} | {e.get('wall_s', '')} |"
        )
    out.append("")
    return out


def main():
    p = os.path.join(ROOT, "DESIGN.md")
    s = open(p).read()
    body = "\n".join([BEGIN, ""] + findings() + seeds() + evidence() + [END])
    if BEGIN in s and END in s:
        s = s[: s.index(BEGIN)] + body + s[s.index(END) + len(END):]
    else:
        s = s.rstrip("\n") + "\n\n### 11.9 Generated tables\n\n" + body + "\n"
    open(p, "w").write(s)
    print("DESIGN.md tables regenerated")


if __name__ == "__main__":
    main()
