// Baton scheduler: stateless exploration of thread interleavings of REAL code
// at hook points, with iterative preemption bounding (CHESS).
//
// Harness threads are real OS threads, but only the thread holding the baton
// runs.  Hook calls compiled into the subject (`point`, `before_lock`) hand
// the baton back to the explorer, which picks the next thread.  Threads that
// are not registered with an exploration see the hooks as no-ops.

use std::cell::Cell;
use std::sync::{Arc, Condvar, Mutex};

/// "is the mutex this thread is about to lock free?"  (address of the mutex + a
/// monomorphic try_lock).  Only evaluated by the explorer while no harness thread runs,
/// and only while the owning thread is parked inside `before_lock` (which borrows the mutex).
#[derive(Clone, Copy, Debug, PartialEq)]
struct Probe(usize, fn(usize) -> bool);

fn probe_fn<T>(addr: usize) -> bool {
    let m = unsafe { &*(addr as *const Mutex<T>) };
    match m.try_lock() {
        Ok(g) => {
            drop(g);
            true
        }
        Err(std::sync::TryLockError::Poisoned(_)) => true,
        Err(std::sync::TryLockError::WouldBlock) => false,
    }
}

#[derive(Clone, Debug, PartialEq)]
enum Status {
    Running,
    /// parked at a hook point; `probe` = the lock this thread will take next (enabled only when free)
    Parked { label: &'static str, probe: Option<Probe> },
    Finished,
}

struct St {
    status: Vec<Status>,
    baton: Option<usize>,
    steps: u64,
    abort: bool,
}

pub struct Ctrl {
    m: Mutex<St>,
    cv: Condvar,
}

thread_local! {
    static ME: Cell<Option<(usize, *const Ctrl)>> = const { Cell::new(None) };
}

fn with_me<R>(f: impl FnOnce(usize, &Ctrl) -> R) -> Option<R> {
    ME.with(|m| m.get()).map(|(id, c)| f(id, unsafe { &*c }))
}

fn park(id: usize, c: &Ctrl, label: &'static str, probe: Option<Probe>) {
    let mut st = c.m.lock().unwrap();
    st.status[id] = Status::Parked { label, probe };
    st.baton = None;
    c.cv.notify_all();
    while st.baton != Some(id) {
        if st.abort {
            drop(st);
            panic!("vx-sched-abort");
        }
        st = c.cv.wait(st).unwrap();
    }
    st.status[id] = Status::Running;
}

/// A scheduling point.  No-op outside an exploration.
pub fn point(label: &'static str) {
    with_me(|id, c| park(id, c, label, None));
}

/// Scheduling point before `m.lock()`: makes contention visible to the
/// explorer without touching the lock call.  Returns when a following
/// `lock()` cannot block (nobody else runs in between).
pub fn before_lock<T>(m: &Mutex<T>, label: &'static str) {
    with_me(|id, c| {
        // the explorer hands the baton to this thread only when the mutex is free, and
        // nobody else runs until the next hook point, so the following lock() cannot block
        park(id, c, label, Some(Probe(m as *const Mutex<T> as usize, probe_fn::<T>)));
    });
}

pub struct Execution {
    /// for every decision point: (enabled thread ids in canonical order, chosen index, labels)
    pub points: Vec<(Vec<usize>, usize, Vec<&'static str>)>,
    pub deadlock: bool,
    pub schedule: Vec<usize>,
}

/// Run the thread bodies under the scheduler following `prefix` (indices into
/// the enabled list at each decision point); later points take choice 0
/// (= keep running the current thread if it is enabled, else the lowest id).
pub fn run_once(bodies: Vec<Box<dyn FnOnce() + Send>>, prefix: &[usize]) -> Result<Execution, String> {
    let n = bodies.len();
    let ctrl = Arc::new(Ctrl { m: Mutex::new(St { status: vec![Status::Running; n], baton: None, steps: 0, abort: false }), cv: Condvar::new() });
    // every thread starts parked at "start"
    let mut handles = Vec::new();
    for (id, body) in bodies.into_iter().enumerate() {
        let c = ctrl.clone();
        handles.push(
            std::thread::Builder::new()
                .stack_size(8 << 20)
                .spawn(move || {
                    ME.with(|m| m.set(Some((id, Arc::as_ptr(&c)))));
                    let r = std::panic::catch_unwind(std::panic::AssertUnwindSafe(|| {
                        park(id, &c, "start", None);
                        body();
                    }));
                    ME.with(|m| m.set(None));
                    let mut st = c.m.lock().unwrap();
                    st.status[id] = Status::Finished;
                    st.baton = None;
                    c.cv.notify_all();
                    drop(st);
                    r.is_ok()
                })
                .map_err(|e| e.to_string())?,
        );
    }
    let mut exec = Execution { points: Vec::new(), deadlock: false, schedule: Vec::new() };
    let mut last: Option<usize> = None;
    let mut err = None;
    loop {
        let mut st = ctrl.m.lock().unwrap();
        // wait until nobody runs
        let t0 = std::time::Instant::now();
        while st.baton.is_some() || st.status.iter().any(|s| *s == Status::Running) {
            let (g, to) = ctrl.cv.wait_timeout(st, std::time::Duration::from_secs(20)).unwrap();
            st = g;
            if to.timed_out() && t0.elapsed().as_secs() >= 20 {
                err = Some("scheduler: a thread kept running without reaching a hook point for 20 s (blocked on an unhooked lock?)".to_string());
                break;
            }
        }
        if err.is_some() {
            st.abort = true;
            ctrl.cv.notify_all();
            break;
        }
        if st.status.iter().all(|s| *s == Status::Finished) {
            break;
        }
        let mut enabled: Vec<usize> = Vec::new();
        for (id, s) in st.status.iter().enumerate() {
            if let Status::Parked { probe, .. } = s {
                if probe.is_none_or(|Probe(a, f)| f(a)) {
                    enabled.push(id);
                }
            }
        }
        if enabled.is_empty() {
            exec.deadlock = true;
            st.abort = true;
            ctrl.cv.notify_all();
            break;
        }
        // canonical order: the thread that ran last first (if still enabled), then ascending ids
        if let Some(l) = last {
            if let Some(pos) = enabled.iter().position(|x| *x == l) {
                enabled.remove(pos);
                enabled.insert(0, l);
            }
        }
        let k = exec.points.len();
        let choice = if k < prefix.len() { prefix[k] } else { 0 };
        if choice >= enabled.len() {
            st.abort = true;
            ctrl.cv.notify_all();
            err = Some(format!("scheduler: replay divergence at point {k}: choice {choice} but only {} threads enabled", enabled.len()));
            break;
        }
        let labels: Vec<&'static str> = enabled
            .iter()
            .map(|id| match &st.status[*id] {
                Status::Parked { label, .. } => *label,
                _ => "?",
            })
            .collect();
        let tid = enabled[choice];
        exec.points.push((enabled, choice, labels));
        exec.schedule.push(tid);
        last = Some(tid);
        st.steps += 1;
        st.baton = Some(tid);
        ctrl.cv.notify_all();
    }
    for h in handles {
        let _ = h.join();
    }
    match err {
        Some(e) => Err(e),
        None => Ok(exec),
    }
}

/// Number of preemptions in choices[..=i] given the recorded points: a
/// preemption is switching away from the thread that ran last while it is
/// still enabled (it is then listed first, so any choice != 0 at a point whose
/// first entry is the last-run thread is a preemption).
fn preemptions(points: &[(Vec<usize>, usize, Vec<&'static str>)], upto: usize, alt: Option<usize>) -> usize {
    let mut n = 0;
    let mut last: Option<usize> = None;
    for (i, (en, ch, _)) in points.iter().enumerate().take(upto + 1) {
        let choice = if i == upto { alt.unwrap_or(*ch) } else { *ch };
        if let Some(l) = last {
            if en.first() == Some(&l) && choice != 0 {
                n += 1;
            }
        }
        last = Some(en[choice]);
    }
    n
}

pub struct ExploreStats {
    pub executions: u64,
    pub max_points: usize,
    pub deadlocks: u64,
    pub capped: bool,
}

/// Depth-first exploration of all schedules with at most `bound` preemptions.
/// `mk` builds fresh thread bodies for every execution; `check` is called after
/// every complete execution with the schedule taken.
pub fn explore(
    mk: &mut dyn FnMut() -> Vec<Box<dyn FnOnce() + Send>>,
    check: &mut dyn FnMut(&Execution),
    bound: usize,
    max_executions: u64,
) -> Result<ExploreStats, String> {
    let mut stats = ExploreStats { executions: 0, max_points: 0, deadlocks: 0, capped: false };
    let mut stack: Vec<Vec<usize>> = vec![vec![]];
    while let Some(prefix) = stack.pop() {
        if stats.executions >= max_executions {
            stats.capped = true;
            break;
        }
        let x = run_once(mk(), &prefix)?;
        stats.executions += 1;
        stats.max_points = stats.max_points.max(x.points.len());
        if x.deadlock {
            stats.deadlocks += 1;
        }
        check(&x);
        for i in prefix.len()..x.points.len() {
            let (en, _, _) = &x.points[i];
            for alt in 1..en.len() {
                if preemptions(&x.points, i, Some(alt)) > bound {
                    continue;
                }
                let mut p: Vec<usize> = x.points[..i].iter().map(|(_, c, _)| *c).collect();
                p.push(alt);
                stack.push(p);
            }
        }
    }
    Ok(stats)
}

/// Preemptions of the schedule `points[..i]` followed by alternative `alt` at point `i`.
pub fn preemptions_with(points: &[(Vec<usize>, usize, Vec<&'static str>)], i: usize, alt: usize) -> usize {
    preemptions(points, i, Some(alt))
}

pub struct LevelResult<R> {
    /// (complete choice vector, result of `run`) of every execution of this level, sorted by choices
    pub runs: Vec<(Vec<usize>, R)>,
    /// prefixes whose last choice is the (bound+1)-th preemption: the work list of the next level
    pub deferred: Vec<Vec<usize>>,
    /// prefixes left unexplored because the deadline / execution cap was hit
    pub unexplored: usize,
    pub error: Option<String>,
}

/// One level of iterative preemption bounding, run by `workers` explorer threads in
/// parallel (every explorer owns its executions: the baton state is per execution and
/// the hooks find it through a thread-local).  Explores every schedule that extends a
/// prefix of `work` with at most `bound` preemptions in total; alternatives that would
/// be preemption number bound+1 are returned as `deferred` instead of being re-derived
/// by a later level, so no schedule is executed twice across levels.
/// The set of executions of a completed level does not depend on the worker schedule.
pub fn explore_level<R: Send>(
    run: &(dyn Fn(&[usize]) -> Result<(Execution, R), String> + Sync),
    work: Vec<Vec<usize>>,
    bound: usize,
    workers: usize,
    deadline: std::time::Instant,
    max_executions: u64,
) -> LevelResult<R> {
    struct Shared<R> {
        stack: Vec<Vec<usize>>,
        inflight: usize,
        runs: Vec<(Vec<usize>, R)>,
        deferred: Vec<Vec<usize>>,
        error: Option<String>,
        stop: bool,
        executions: u64,
    }
    let sh = Mutex::new(Shared { stack: work, inflight: 0, runs: Vec::new(), deferred: Vec::new(), error: None, stop: false, executions: 0 });
    let cv = Condvar::new();
    std::thread::scope(|s| {
        for _ in 0..workers.max(1) {
            s.spawn(|| loop {
                let prefix = {
                    let mut g = sh.lock().unwrap();
                    loop {
                        if g.stop {
                            return;
                        }
                        if std::time::Instant::now() >= deadline || g.executions >= max_executions {
                            g.stop = true;
                            cv.notify_all();
                            return;
                        }
                        if let Some(p) = g.stack.pop() {
                            g.inflight += 1;
                            g.executions += 1;
                            break p;
                        }
                        if g.inflight == 0 {
                            cv.notify_all();
                            return;
                        }
                        g = cv.wait(g).unwrap();
                    }
                };
                let r = run(&prefix);
                let mut g = sh.lock().unwrap();
                g.inflight -= 1;
                match r {
                    Err(e) => {
                        g.error.get_or_insert(e);
                        g.stop = true;
                    }
                    Ok((x, res)) => {
                        for i in prefix.len()..x.points.len() {
                            let (en, _, _) = &x.points[i];
                            for alt in 1..en.len() {
                                let n = preemptions(&x.points, i, Some(alt));
                                let mut p: Vec<usize> = x.points[..i].iter().map(|(_, c, _)| *c).collect();
                                p.push(alt);
                                if n <= bound {
                                    g.stack.push(p);
                                } else if n == bound + 1 {
                                    g.deferred.push(p);
                                }
                            }
                        }
                        let choices: Vec<usize> = x.points.iter().map(|(_, c, _)| *c).collect();
                        g.runs.push((choices, res));
                    }
                }
                cv.notify_all();
            });
        }
    });
    let mut g = sh.into_inner().unwrap();
    g.runs.sort_by(|a, b| a.0.cmp(&b.0));
    g.deferred.sort();
    LevelResult { unexplored: g.stack.len() + g.inflight, runs: g.runs, deferred: g.deferred, error: g.error }
}
