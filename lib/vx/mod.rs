pub mod bfs;
pub mod enumr;
pub mod report;
pub mod sched;
