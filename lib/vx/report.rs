// Engine-side result reporting.  Dependency-free (std only) so that it can be
// compiled both into the external harness crate (hx) and into the daemon's
// test build (hd).  The engine writes one "part result" JSON file; the python
// wrapper (/verif/check) aggregates parts, matches known findings, writes the
// evidence file and prints VIOLATION / KNOWN-FINDING lines.

use std::collections::BTreeMap;
use std::fmt::Write as _;

pub fn jstr(s: &str) -> String {
    let mut o = String::with_capacity(s.len() + 2);
    o.push('"');
    for c in s.chars() {
        match c {
            '"' => o.push_str("\\\""),
            '\\' => o.push_str("\\\\"),
            '\n' => o.push_str("\\n"),
            '\r' => o.push_str("\\r"),
            '\t' => o.push_str("\\t"),
            c if (c as u32) < 0x20 => {
                let _ = write!(o, "\\u{:04x}", c as u32);
            }
            c => o.push(c),
        }
    }
    o.push('"');
    o
}

pub fn hex(b: &[u8]) -> String {
    let mut s = String::with_capacity(b.len() * 2);
    for x in b {
        let _ = write!(s, "{:02x}", x);
    }
    s
}

pub fn unhex(s: &str) -> Vec<u8> {
    let s: Vec<u8> = s.bytes().filter(|c| c.is_ascii_hexdigit()).collect();
    s.chunks(2)
        .filter(|c| c.len() == 2)
        .map(|c| u8::from_str_radix(std::str::from_utf8(c).unwrap(), 16).unwrap())
        .collect()
}

/// One violation of a property, as found by an engine.
#[derive(Clone, Debug)]
pub struct Violation {
    /// Signature: oracle clause + witness shape class.  Known findings are
    /// matched on (property, sig).
    pub sig: String,
    /// Human-readable description of what failed (expected vs observed).
    pub what: String,
    /// Replayable case descriptor: free-form string understood by the same
    /// engine part's `--replay` mode (op list, hex bytes, schedule ...).
    pub case: String,
}

pub struct Report {
    pub property: String,
    pub part: String,
    pub tier: String,
    /// cases generated / executions run
    pub evaluations: u64,
    /// distinct and non-trivial (by `rule`)
    pub distinct_nontrivial: u64,
    pub states: u64,
    pub transitions: u64,
    pub traces_validated: u64,
    pub max_depth: u64,
    pub exhaustive: bool,
    pub rule: String,
    pub samples: Vec<String>,
    pub notes: Vec<String>,
    pub caps_hit: Vec<String>,
    pub extra: BTreeMap<String, u64>,
    pub violations: BTreeMap<String, (Violation, u64)>,
    pub machinery_error: Option<String>,
    start: std::time::Instant,
}

impl Report {
    pub fn new(property: &str, part: &str) -> Self {
        Report {
            property: property.to_string(),
            part: part.to_string(),
            tier: std::env::var("VERIF_TIER").unwrap_or_else(|_| "quick".into()),
            evaluations: 0,
            distinct_nontrivial: 0,
            states: 0,
            transitions: 0,
            traces_validated: 0,
            max_depth: 0,
            exhaustive: true,
            rule: String::new(),
            samples: Vec::new(),
            notes: Vec::new(),
            caps_hit: Vec::new(),
            extra: BTreeMap::new(),
            violations: BTreeMap::new(),
            machinery_error: None,
            start: std::time::Instant::now(),
        }
    }

    pub fn thorough(&self) -> bool {
        self.tier == "thorough"
    }

    pub fn seed(&self) -> u64 {
        std::env::var("VERIF_SEED")
            .ok()
            .and_then(|s| s.parse().ok())
            .unwrap_or(0)
    }

    /// Record a violation; per signature the shortest witness is kept.
    pub fn violation(&mut self, v: Violation) {
        match self.violations.get_mut(&v.sig) {
            Some((old, n)) => {
                *n += 1;
                if v.case.len() < old.case.len() {
                    *old = v;
                }
            }
            None => {
                self.violations.insert(v.sig.clone(), (v, 1));
            }
        }
    }

    pub fn violations_from(&mut self, vs: Vec<Violation>) {
        for v in vs {
            self.violation(v);
        }
    }

    /// Keep at most `cap` samples; which ones are kept rotates with the seed.
    pub fn sample(&mut self, idx: u64, s: impl FnOnce() -> String) {
        let cap = 8;
        let stride = 97 + (self.seed() % 31);
        if self.samples.len() < cap && (idx % stride == 0 || self.samples.is_empty()) {
            self.samples.push(s());
        }
    }

    pub fn add(&mut self, key: &str, n: u64) {
        *self.extra.entry(key.to_string()).or_insert(0) += n;
    }

    pub fn merge(&mut self, o: Report) {
        self.evaluations += o.evaluations;
        self.distinct_nontrivial += o.distinct_nontrivial;
        self.states += o.states;
        self.transitions += o.transitions;
        self.traces_validated += o.traces_validated;
        self.max_depth = self.max_depth.max(o.max_depth);
        self.exhaustive &= o.exhaustive;
        for s in o.samples {
            if self.samples.len() < 16 {
                self.samples.push(s);
            }
        }
        self.notes.extend(o.notes);
        self.caps_hit.extend(o.caps_hit);
        for (k, v) in o.extra {
            *self.extra.entry(k).or_insert(0) += v;
        }
        for (_, (v, n)) in o.violations {
            match self.violations.get_mut(&v.sig) {
                Some((old, c)) => {
                    *c += n;
                    if v.case.len() < old.case.len() {
                        *old = v;
                    }
                }
                None => {
                    self.violations.insert(v.sig.clone(), (v, n));
                }
            }
        }
        if self.machinery_error.is_none() {
            self.machinery_error = o.machinery_error;
        }
    }

    pub fn to_json(&self) -> String {
        let mut o = String::new();
        let _ = write!(
            o,
            "{{\"property\":{},\"part\":{},\"tier\":{},\"evaluations\":{},\"distinct_nontrivial\":{},\"states\":{},\"transitions\":{},\"traces_validated\":{},\"max_depth\":{},\"exhaustive\":{},\"rule\":{},\"wall_s\":{:.3}",
            jstr(&self.property),
            jstr(&self.part),
            jstr(&self.tier),
            self.evaluations,
            self.distinct_nontrivial,
            self.states,
            self.transitions,
            self.traces_validated,
            self.max_depth,
            self.exhaustive,
            jstr(&self.rule),
            self.start.elapsed().as_secs_f64()
        );
        let list = |v: &Vec<String>| -> String {
            let xs: Vec<String> = v.iter().map(|s| jstr(s)).collect();
            format!("[{}]", xs.join(","))
        };
        let _ = write!(o, ",\"samples\":{}", list(&self.samples));
        let _ = write!(o, ",\"notes\":{}", list(&self.notes));
        let _ = write!(o, ",\"caps_hit\":{}", list(&self.caps_hit));
        let ex: Vec<String> = self
            .extra
            .iter()
            .map(|(k, v)| format!("{}:{}", jstr(k), v))
            .collect();
        let _ = write!(o, ",\"extra\":{{{}}}", ex.join(","));
        let vs: Vec<String> = self
            .violations
            .values()
            .map(|(v, n)| {
                format!(
                    "{{\"sig\":{},\"what\":{},\"case\":{},\"count\":{}}}",
                    jstr(&v.sig),
                    jstr(&v.what),
                    jstr(&v.case),
                    n
                )
            })
            .collect();
        let _ = write!(o, ",\"violations\":[{}]", vs.join(","));
        match &self.machinery_error {
            Some(e) => {
                let _ = write!(o, ",\"machinery_error\":{}", jstr(e));
            }
            None => {
                let _ = write!(o, ",\"machinery_error\":null");
            }
        }
        o.push('}');
        o
    }

    /// Write the part result where the wrapper expects it (VERIF_OUT) and a
    /// one-line summary on stdout.
    pub fn finish(&self) {
        let json = self.to_json();
        if let Ok(p) = std::env::var("VERIF_OUT") {
            if let Err(e) = std::fs::write(&p, &json) {
                eprintln!("vx: cannot write {p}: {e}");
                std::process::exit(2);
            }
        } else {
            println!("{json}");
        }
        eprintln!(
            "vx: part={} tier={} evals={} states={} transitions={} distinct={} violations(sigs)={} exhaustive={} wall={:.1}s",
            self.part,
            self.tier,
            self.evaluations,
            self.states,
            self.transitions,
            self.distinct_nontrivial,
            self.violations.len(),
            self.exhaustive,
            self.start.elapsed().as_secs_f64()
        );
        for (v, n) in self.violations.values() {
            eprintln!("vx:   sig={} x{} :: {} :: case={}", v.sig, n, v.what, trunc(&v.case, 300));
        }
    }
}

pub fn trunc(s: &str, n: usize) -> String {
    if s.len() <= n {
        s.to_string()
    } else {
        let mut e = n;
        while !s.is_char_boundary(e) {
            e -= 1;
        }
        format!("{}…", &s[..e])
    }
}

/// Run `f`, converting a panic into Err(message).  The default panic hook is
/// silenced for the duration on this thread only via a thread-local flag that
/// the process-wide hook (installed once by `quiet_panics`) consults.
pub fn catch<R>(f: impl FnOnce() -> R) -> Result<R, String> {
    QUIET.with(|q| q.set(q.get() + 1));
    let r = std::panic::catch_unwind(std::panic::AssertUnwindSafe(f));
    QUIET.with(|q| q.set(q.get() - 1));
    r.map_err(|e| {
        let msg = if let Some(s) = e.downcast_ref::<&str>() {
            s.to_string()
        } else if let Some(s) = e.downcast_ref::<String>() {
            s.clone()
        } else {
            "panic".to_string()
        };
        let loc = LAST_PANIC_LOC.with(|l| l.borrow().clone());
        format!("{msg} @ {loc}")
    })
}

thread_local! {
    static QUIET: std::cell::Cell<u32> = const { std::cell::Cell::new(0) };
    static LAST_PANIC_LOC: std::cell::RefCell<String> = const { std::cell::RefCell::new(String::new()) };
}

pub fn quiet_panics() {
    static ONCE: std::sync::Once = std::sync::Once::new();
    ONCE.call_once(|| {
        let prev = std::panic::take_hook();
        std::panic::set_hook(Box::new(move |info| {
            let loc = info
                .location()
                .map(|l| format!("{}:{}", l.file(), l.line()))
                .unwrap_or_default();
            LAST_PANIC_LOC.with(|l| *l.borrow_mut() = loc);
            if QUIET.with(|q| q.get()) == 0 {
                prev(info);
            }
        }));
    });
}
