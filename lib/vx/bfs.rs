// Explicit-state breadth-first search over REAL code.
//
// A state is a history (list of op indices from the initial state).  To
// expand a state the model builds fresh real objects, replays the history,
// applies one more op, evaluates its oracle and computes a canonical
// fingerprint; the extended history is enqueued iff the fingerprint is new.
// Level-synchronous and deterministic: candidates of a level are sorted by
// history before being merged into the visited set, so state/transition
// counts and the witness kept per violation signature do not depend on the
// thread schedule.

use super::report::{Report, Violation};
use std::collections::HashSet;
use std::hash::{Hash, Hasher};
use std::sync::atomic::{AtomicUsize, Ordering};
use std::sync::Mutex;

pub trait Model: Sync {
    type Sys;
    fn name(&self) -> String;
    fn n_ops(&self) -> usize;
    fn op_name(&self, op: usize) -> String;
    fn init(&self) -> Self::Sys;
    /// Apply `op` to the real objects and evaluate the oracle.  Returns false
    /// when the op is not enabled in this state (the successor is discarded).
    /// Oracle failures are pushed as (signature, description).
    fn step(&self, sys: &mut Self::Sys, op: usize, out: &mut Vec<(String, String)>) -> bool;
    /// Canonical form of every behaviour-relevant field.
    fn fingerprint(&self, sys: &Self::Sys) -> Vec<u8>;
    /// A coarse observation used only to count distinct outcomes (vacuity check).
    fn observe(&self, _sys: &Self::Sys) -> u64 {
        0
    }
    /// Called when the subject panicked inside `step`; default: a violation.
    fn panic_sig(&self, msg: &str) -> Option<(String, String)> {
        Some((format!("panic:{}", panic_loc(msg)), format!("subject panicked: {msg}")))
    }
}

pub fn panic_loc(msg: &str) -> String {
    match msg.rfind(" @ ") {
        Some(i) => {
            let loc = &msg[i + 3..];
            // strip directories so that the signature survives checkouts elsewhere
            let loc = loc.rsplit('/').next().unwrap_or(loc);
            loc.to_string()
        }
        None => "?".to_string(),
    }
}

pub struct BfsCfg {
    pub max_depth: usize,
    pub workers: usize,
    pub max_states: usize,
    /// stop expanding after this many seconds (reported as a cap, never as exhaustive)
    pub max_secs: u64,
    /// when false, no de-duplication (used by the canonical-form self check)
    pub dedup: bool,
    /// keep the shortest history of every state (BfsStats::histories), for conformance replays
    pub collect: bool,
}

impl Default for BfsCfg {
    fn default() -> Self {
        BfsCfg {
            max_depth: 5,
            workers: workers(),
            max_states: 5_000_000,
            max_secs: 3600,
            dedup: true,
            collect: false,
        }
    }
}

pub fn workers() -> usize {
    std::env::var("VERIF_WORKERS")
        .ok()
        .and_then(|s| s.parse().ok())
        .unwrap_or_else(|| {
            std::thread::available_parallelism()
                .map(|n| n.get())
                .unwrap_or(4)
                .min(16)
        })
}

pub fn hash128(b: &[u8]) -> u128 {
    let mut h1 = std::collections::hash_map::DefaultHasher::new();
    b.hash(&mut h1);
    let mut h2 = std::collections::hash_map::DefaultHasher::new();
    0xA5u8.hash(&mut h2);
    b.hash(&mut h2);
    b.len().hash(&mut h2);
    ((h1.finish() as u128) << 64) | h2.finish() as u128
}

pub fn render<M: Model>(m: &M, hist: &[u16]) -> String {
    let ops: Vec<String> = hist.iter().map(|&o| m.op_name(o as usize)).collect();
    format!("{}| {}", m.name(), ops.join(" ; "))
}

pub fn encode_case<M: Model>(m: &M, hist: &[u16]) -> String {
    let idx: Vec<String> = hist.iter().map(|o| o.to_string()).collect();
    format!("{}#{}#{}", m.name(), idx.join(","), render(m, hist))
}

/// Parse "name#1,2,3#rendering" back into op indices.
pub fn decode_case(case: &str) -> Option<(String, Vec<u16>)> {
    let mut it = case.splitn(3, '#');
    let name = it.next()?.to_string();
    let ops = it.next()?;
    let ops = if ops.trim().is_empty() {
        vec![]
    } else {
        ops.split(',').filter_map(|s| s.trim().parse().ok()).collect()
    };
    Some((name, ops))
}

/// Replay one history, returning the violations of every step.
pub fn replay<M: Model>(m: &M, hist: &[u16], verbose: bool) -> Vec<Violation> {
    let mut res = Vec::new();
    let r = super::report::catch(|| {
        let mut sys = m.init();
        let mut all = Vec::new();
        for (i, &op) in hist.iter().enumerate() {
            let mut out = Vec::new();
            let en = m.step(&mut sys, op as usize, &mut out);
            if verbose {
                eprintln!("  step {i}: {} enabled={en} violations={:?}", m.op_name(op as usize), out);
            }
            for (sig, what) in out {
                all.push((i, sig, what));
            }
            if !en {
                break;
            }
        }
        all
    });
    match r {
        Ok(all) => {
            for (i, sig, what) in all {
                res.push(Violation {
                    sig,
                    what,
                    case: encode_case(m, &hist[..=i]),
                });
            }
        }
        Err(msg) => {
            if let Some((sig, what)) = m.panic_sig(&msg) {
                res.push(Violation { sig, what, case: encode_case(m, hist) });
            }
        }
    }
    res
}

pub struct BfsStats {
    pub states: u64,
    pub transitions: u64,
    pub max_depth: u64,
    pub fixpoint: bool,
    pub observations: u64,
    pub histories: Vec<Vec<u16>>,
}

pub fn bfs<M: Model>(m: &M, cfg: &BfsCfg, rep: &mut Report) -> BfsStats {
    let t0 = std::time::Instant::now();
    let n_ops = m.n_ops();
    let mut visited: HashSet<u128> = HashSet::new();
    let mut observations: HashSet<u64> = HashSet::new();
    {
        let sys = m.init();
        visited.insert(hash128(&m.fingerprint(&sys)));
        observations.insert(m.observe(&sys));
    }
    let mut frontier: Vec<Vec<u16>> = vec![vec![]];
    let mut histories: Vec<Vec<u16>> = if cfg.collect { vec![vec![]] } else { vec![] };
    let mut transitions: u64 = 0;
    let mut states: u64 = 1;
    let mut depth = 0usize;
    let mut fixpoint = false;
    let mut capped = false;
    while depth < cfg.max_depth {
        if frontier.is_empty() {
            fixpoint = true;
            break;
        }
        let next_idx = AtomicUsize::new(0);
        type Cand = (Vec<u16>, u128, u64);
        let results: Mutex<Vec<Cand>> = Mutex::new(Vec::new());
        let viols: Mutex<Vec<Violation>> = Mutex::new(Vec::new());
        let trans = AtomicUsize::new(0);
        let timed_out = std::sync::atomic::AtomicBool::new(false);
        std::thread::scope(|s| {
            for _ in 0..cfg.workers.max(1) {
                let b = std::thread::Builder::new().stack_size(32 << 20);
                b.spawn_scoped(s, || {
                    let mut local: Vec<Cand> = Vec::new();
                    let mut lviol: Vec<Violation> = Vec::new();
                    loop {
                        let i = next_idx.fetch_add(1, Ordering::Relaxed);
                        if i >= frontier.len() {
                            break;
                        }
                        if t0.elapsed().as_secs() > cfg.max_secs {
                            timed_out.store(true, Ordering::Relaxed);
                            break;
                        }
                        let hist = &frontier[i];
                        for op in 0..n_ops {
                            let r = super::report::catch(|| {
                                let mut sys = m.init();
                                let mut sink = Vec::new();
                                for &h in hist.iter() {
                                    m.step(&mut sys, h as usize, &mut sink);
                                }
                                let mut out = Vec::new();
                                let en = m.step(&mut sys, op, &mut out);
                                if !en {
                                    return None;
                                }
                                let fp = hash128(&m.fingerprint(&sys));
                                Some((out, fp, m.observe(&sys)))
                            });
                            let mut h2 = hist.clone();
                            h2.push(op as u16);
                            match r {
                                Ok(None) => {}
                                Ok(Some((out, fp, obs))) => {
                                    trans.fetch_add(1, Ordering::Relaxed);
                                    for (sig, what) in out {
                                        lviol.push(Violation { sig, what, case: encode_case(m, &h2) });
                                    }
                                    local.push((h2, fp, obs));
                                }
                                Err(msg) => {
                                    trans.fetch_add(1, Ordering::Relaxed);
                                    if let Some((sig, what)) = m.panic_sig(&msg) {
                                        lviol.push(Violation { sig, what, case: encode_case(m, &h2) });
                                    }
                                    // the successor state is unusable: not enqueued
                                }
                            }
                        }
                    }
                    results.lock().unwrap().append(&mut local);
                    viols.lock().unwrap().append(&mut lviol);
                })
                .expect("spawn worker");
            }
        });
        transitions += trans.load(Ordering::Relaxed) as u64;
        let mut cands = results.into_inner().unwrap();
        cands.sort_by(|a, b| a.0.cmp(&b.0));
        let mut vs = viols.into_inner().unwrap();
        vs.sort_by(|a, b| (a.sig.as_str(), a.case.len(), a.case.as_str()).cmp(&(b.sig.as_str(), b.case.len(), b.case.as_str())));
        rep.violations_from(vs);
        let mut next = Vec::new();
        for (h, fp, obs) in cands {
            observations.insert(obs);
            if !cfg.dedup || visited.insert(fp) {
                states += 1;
                if states as usize % 50_000 == 1 || next.is_empty() {
                    let hh = h.clone();
                    rep.sample(states, || render(m, &hh));
                }
                if cfg.collect {
                    histories.push(h.clone());
                }
                next.push(h);
            }
        }
        depth += 1;
        frontier = next;
        if timed_out.load(Ordering::Relaxed) {
            capped = true;
            rep.caps_hit.push(format!("{}: time cap {}s hit at depth {}", m.name(), cfg.max_secs, depth));
            break;
        }
        if states as usize > cfg.max_states {
            capped = true;
            rep.caps_hit.push(format!("{}: state cap {} hit at depth {}", m.name(), cfg.max_states, depth));
            break;
        }
    }
    if frontier.is_empty() {
        fixpoint = true;
    }
    if capped {
        rep.exhaustive = false;
    }
    rep.states += states;
    rep.transitions += transitions;
    rep.evaluations += transitions;
    rep.distinct_nontrivial += states.saturating_sub(1);
    rep.max_depth = rep.max_depth.max(depth as u64);
    rep.add("distinct_observations", observations.len() as u64);
    rep.notes.push(format!(
        "{}: ops={} states={} transitions={} depth={} {} observations={} wall={:.1}s",
        m.name(),
        n_ops,
        states,
        transitions,
        depth,
        if fixpoint { "FIXPOINT(all reachable states)" } else if capped { "CAPPED" } else { "depth-bound" },
        observations.len(),
        t0.elapsed().as_secs_f64()
    ));
    BfsStats {
        states,
        transitions,
        max_depth: depth as u64,
        fixpoint,
        observations: observations.len() as u64,
        histories,
    }
}
