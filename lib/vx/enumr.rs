// Bounded-exhaustive enumeration helpers: mixed-radix products evaluated in
// parallel, subsets, boundary values.

use super::report::Report;
use std::sync::atomic::{AtomicU64, Ordering};
use std::sync::Mutex;

/// Mixed-radix decoder: index -> digit vector for radices `dims`.
pub fn digits(mut idx: u64, dims: &[usize]) -> Vec<usize> {
    let mut d = Vec::with_capacity(dims.len());
    for &r in dims {
        let r = r.max(1) as u64;
        d.push((idx % r) as usize);
        idx /= r;
    }
    d
}

pub fn product_size(dims: &[usize]) -> u64 {
    dims.iter().map(|&d| d.max(1) as u64).product()
}

/// Evaluate `f(i, &mut local_report)` for every i in 0..n on `workers`
/// threads (work stealing in blocks); local reports are merged into `rep`.
pub fn par_range<F>(n: u64, rep: &mut Report, f: F)
where
    F: Fn(u64, &mut Report) + Sync,
{
    let workers = super::bfs::workers();
    let next = AtomicU64::new(0);
    let block: u64 = (n / (workers as u64 * 64)).clamp(1, 4096);
    let merged: Mutex<Vec<Report>> = Mutex::new(Vec::new());
    let prop = rep.property.clone();
    let part = rep.part.clone();
    std::thread::scope(|s| {
        for _ in 0..workers {
            let b = std::thread::Builder::new().stack_size(32 << 20);
            b.spawn_scoped(s, || {
                let mut local = Report::new(&prop, &part);
                loop {
                    let start = next.fetch_add(block, Ordering::Relaxed);
                    if start >= n {
                        break;
                    }
                    let end = (start + block).min(n);
                    for i in start..end {
                        f(i, &mut local);
                    }
                }
                merged.lock().unwrap().push(local);
            })
            .expect("spawn");
        }
    });
    for l in merged.into_inner().unwrap() {
        rep.merge(l);
    }
}

/// All subsets of {0..n} of size <= k, in order of size then lexicographic.
pub fn subsets_upto(n: usize, k: usize) -> Vec<Vec<usize>> {
    let mut out = vec![vec![]];
    let mut level: Vec<Vec<usize>> = vec![vec![]];
    for _ in 0..k {
        let mut next = Vec::new();
        for s in &level {
            let start = s.last().map(|&x| x + 1).unwrap_or(0);
            for x in start..n {
                let mut t = s.clone();
                t.push(x);
                next.push(t);
            }
        }
        out.extend(next.iter().cloned());
        level = next;
    }
    out
}

/// All permutations of 0..n (n small).
pub fn permutations(n: usize) -> Vec<Vec<usize>> {
    fn rec(cur: &mut Vec<usize>, used: &mut Vec<bool>, n: usize, out: &mut Vec<Vec<usize>>) {
        if cur.len() == n {
            out.push(cur.clone());
            return;
        }
        for i in 0..n {
            if !used[i] {
                used[i] = true;
                cur.push(i);
                rec(cur, used, n, out);
                cur.pop();
                used[i] = false;
            }
        }
    }
    let mut out = Vec::new();
    rec(&mut Vec::new(), &mut vec![false; n], n, &mut out);
    out
}
